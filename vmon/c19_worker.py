"""C19 worker: one random history of definition calls in a fresh interpreter, with registry
snapshots around every call (invariant at the hook), a bijection sweep at quiescent points
and failpoints at real call boundaries.

    python c19_worker.py '{"seed": 1, "steps": 60, "modules": "all"|[...], "order": [...]|null}'
prints {"violations": [...], "counts": {...}, "samples": [...]}
"""
from __future__ import annotations

import json
import os
import random
import sys

HERE = os.path.dirname(os.path.abspath(__file__))
sys.path.insert(0, os.path.dirname(HERE))
import vmon  # noqa: E402,F401  (switches the reach recorder on before the library is imported, when asked for)


import re  # noqa: E402

GRAMMAR_SYMBOL = re.compile(r"^[a-zA-ZÅΑ-ω]+$")


def main():
    spec = json.loads(sys.argv[1])
    out = {"violations": [], "counts": {}, "samples": [], "fatal": None}
    try:
        run(spec, out)
    except BaseException as e:  # noqa
        import traceback

        out["fatal"] = f"{type(e).__name__}: {e}\n{traceback.format_exc()[-2000:]}"
    json.dump(out, sys.stdout)


def run(spec, out):
    rng = random.Random(spec["seed"])
    counts = out["counts"]

    def count(k, n=1):
        counts[k] = counts.get(k, 0) + n

    def violation(key, what, case=None):
        count("violations")
        if sum(1 for v in out["violations"] if v["key"] == key) < 2:
            out["violations"].append({"key": key, "what": what, "case": case})

    # ---- boot with a log of every shipped declaration -----------------------------------------
    import measured
    from measured import Dimension, Prefix, Unit, conversions

    prefix_decls, dim_decls = [], []
    orig_pinit = Prefix.__init__

    def rec_pinit(self, base, exponent, name=None, symbol=None):
        r = orig_pinit(self, base, exponent, name, symbol)
        if name or symbol:
            prefix_decls.append((self, name, symbol, (base, exponent)))
        return r

    Prefix.__init__ = rec_pinit
    from vmon import boot

    # stored data read before the unit modules are imported: objects pickled by another process (where everything was
    # declared) enter this one through __new__ + restored state while their declarations have not run here yet
    unpickled_first = []
    pending_blobs = list(spec.get("foreign_first") or [])
    load_after = rng.choice([0, 0, 1, 2, 4, 8]) if pending_blobs else None   # number of unit modules imported before the data is read
    imported_so_far = [0]

    def load_foreign():
        import base64
        import pickle
        while pending_blobs:
            kind, name, blob = pending_blobs.pop()
            try:
                unpickled_first.append((kind, name, pickle.loads(base64.b64decode(blob))))
                count(f"objects_unpickled_before_their_declaration/{kind}")
            except Exception as e:
                count(f"objects_unpickled_before_their_declaration/raised/{type(e).__name__}")

    # stored data written under OTHER declarations (an older schema, another plugin: the same names and symbols stand for
    # other prefixes and units there).  Whenever it is read - before the unit modules are imported, after, or in the middle
    # of the history - the names and symbols declared here go on resolving to what was declared here
    other_schema = spec.get("other_schema") or None
    other_objects = []

    def name_bindings():
        return {f"{cls.__name__}.{reg}[{k!r}]": v for cls in (Unit, Prefix, Dimension) for reg in ("_by_name", "_by_symbol")
                for k, v in list(getattr(cls, reg, {}).items())}

    def load_other_schema(tag):
        import base64
        import pickle
        before = name_bindings()
        for kind, name, blob in other_schema["blobs"]:
            try:
                other_objects.append(pickle.loads(base64.b64decode(blob)))
                count(f"other_schema_objects_loaded/{tag}/{kind}")
            except Exception as e:
                count(f"other_schema_objects_loaded/{tag}/refused_{type(e).__name__}")
        after = name_bindings()
        for k, v in before.items():
            if after.get(k) is not v:
                violation("C19:loading-stored-data-rebinds-a-declared-name", f"{tag}: {k} was {v!r} before stored data from a program with other declarations was "
                          f"unpickled, and is {after.get(k)!r} afterwards")

    if other_schema and other_schema["when"] == "before-import":
        load_other_schema("before-import")
    if load_after == 0:
        load_foreign()

    modules = spec.get("modules", "all")
    # between two imports a program already uses what it has: every prefix + symbol spelling that
    # resolves now is looked up, so that a later module declaring exactly that symbol ('hh' hand after
    # hecto-hour, 'cd' candela after centi-day...) meets a process in which it was resolved before
    early = {}

    def between(name):
        imported_so_far[0] += 1
        if load_after is not None and imported_so_far[0] == load_after:
            load_foreign()
        if not spec.get("lookups_between_imports"):
            return
        for text in ("hh", "cd", "Pa", "ha", "min.", "nmi.", "TR", "Mm", "ft.", "pt.", "dB", "mi.", "Gi", "kn", "au", "at", "Th", "Eh", "PS", "ch.", "yd."):
            if text in early:
                continue
            try:
                early[text] = Unit.resolve_symbol(text) if rng.random() < 0.5 else Unit.parse(text)
                count("symbols_resolved_before_declaration/between-imports")
            except Exception:
                pass

    b = boot.boot(modules=modules, order=spec.get("order"), between=between)
    Prefix.__init__ = orig_pinit
    b.recording = False
    if b.errors:
        out["fatal"] = f"import errors: {b.errors[:3]}"
        return
    One, IdentityPrefix = measured.One, measured.IdentityPrefix
    if other_schema and other_schema["when"] == "after-import":
        load_other_schema("after-import")

    # ---- registry snapshot -----------------------------------------------------------------------
    def snapshot():
        return {
            "Unit._by_name": {k: id(v) for k, v in Unit._by_name.items()},
            "Unit._by_symbol": {k: id(v) for k, v in Unit._by_symbol.items()},
            "Unit._known": {id(v) for v in Unit._known.values()},
            "Unit._base": {id(v) for v in Unit._base},
            "Unit.names/symbols": {id(u): (getattr(u, "names", None), getattr(u, "symbols", None)) for u in Unit._known.values()},
            "Prefix._by_name": {k: id(v) for k, v in Prefix._by_name.items()},
            "Prefix._by_symbol": {k: id(v) for k, v in Prefix._by_symbol.items()},
            "Prefix._known": {k: id(v) for k, v in Prefix._known.items()},
            "Prefix.name/symbol": {id(p): (getattr(p, "name", None), getattr(p, "symbol", None)) for p in Prefix._known.values()},
            "Dimension._by_name": {k: id(v) for k, v in Dimension._by_name.items()},
            "Dimension._known": {k: id(v) for k, v in Dimension._known.items()},
            "Dimension._fundamental": [id(d) for d in Dimension._fundamental],
            "Dimension.name/symbol": {id(d): (d.name, d.symbol) for d in Dimension._known.values()},
            "conversions._ratios": {(id(a), id(c)): repr(r) for a, t in conversions._ratios.items() for c, r in t.items()},
            "conversions._offsets": {(id(a), id(c)): repr(r) for a, t in conversions._offsets.items() for c, r in t.items()},
        }

    def diff(before, after):
        return [k for k in before if before[k] != after[k]]

    # ---- 1. every shipped declaration binds faithfully -------------------------------------------
    for d in b.defined:
        u, name, symbol = d["obj"], d["name"], d["symbol"]
        count("shipped_declarations_checked")
        if name:
            if Unit._by_name.get(name) is not u or name not in u.names:
                violation(f"C19:shipped-unit-name-not-bound:{name}", f"{d['kind']} name {name!r}: lookup gives {Unit._by_name.get(name)!r}, object reports {u.names}")
            try:
                if Unit.named(name) is not u:
                    violation(f"C19:shipped-unit-name-not-bound:{name}", f"Unit.named({name!r}) is another object")
            except KeyError:
                violation(f"C19:shipped-unit-name-not-bound:{name}", f"Unit.named({name!r}) raises KeyError")
        if symbol:
            try:
                got = Unit.resolve_symbol(symbol)
            except KeyError:
                got = None
            if got is not u or symbol not in u.symbols:
                violation(f"C19:shipped-unit-symbol-not-bound:{symbol}", f"{d['kind']} {name!r} symbol {symbol!r}: resolve_symbol gives {got!r}, object reports {u.symbols}")
    for a in b.aliases:
        u = a["unit"]
        count("shipped_declarations_checked")
        if a["name"] and (Unit._by_name.get(a["name"]) is not u or a["name"] not in u.names):
            violation(f"C19:shipped-unit-name-not-bound:{a['name']}", f"alias name {a['name']!r} not bound to its unit")
        if a["symbol"] and (Unit._by_symbol.get(a["symbol"]) is not u or a["symbol"] not in u.symbols):
            violation(f"C19:shipped-unit-symbol-not-bound:{a['symbol']}", f"alias symbol {a['symbol']!r} not bound to its unit")
    for p, name, symbol, key in prefix_decls:
        count("shipped_declarations_checked")
        if name and (Prefix._by_name.get(name) is not p or p.name != name):
            violation(f"C19:shipped-prefix-name-not-bound:{name}", f"Prefix{key} declared as {name!r}: lookup gives {Prefix._by_name.get(name)!r}, object reports name {p.name!r}")
        if symbol:
            try:
                got = Prefix.resolve_symbol(symbol)
            except KeyError:
                got = None
            if got is not p or p.symbol != symbol:
                violation(f"C19:shipped-prefix-symbol-not-bound:{symbol}",
                          f"Prefix{key} declared with symbol {symbol!r}: resolve_symbol gives {got!r}, object reports symbol {p.symbol!r}")
    for name, d in list(Dimension._by_name.items()):
        count("shipped_declarations_checked")
        if d.name != name:
            violation(f"C19:shipped-dimension-name-not-bound:{name}", f"Dimension name {name!r} maps to an object reporting {d.name!r}")

    # ---- 1b. what was unpickled before its declaration ran is, after the declaration, the declared object --------
    stale_base_units = set()
    other_ids = set()

    def note_other_schema_objects():
        """what the other program's data reports about itself is its own business (it is not what was declared here): the
        sweeps judge the objects of this program, and the bindings of its names"""
        for o in other_objects:
            u = getattr(o, "unit", o)
            for x in [u, getattr(u, "prefix", None)] + list(getattr(u, "factors", {})):
                if x is not None:
                    other_ids.add(id(x))
        declared = {id(v) for cls in (Unit, Prefix) for reg in ("_by_name", "_by_symbol") for v in getattr(cls, reg).values()}
        other_ids.difference_update(declared)     # an object the names of this program are bound to is judged like any other
        changed = True
        while changed:
            changed = False
            for u in list(Unit._known.values()):
                if id(u) not in other_ids and id(u) not in declared and (any(id(f) in other_ids for f in getattr(u, "factors", {})) or id(getattr(u, "prefix", None)) in other_ids):
                    other_ids.add(id(u))
                    changed = True

    def twins(u):
        """base units inside u that are not the registered unit of their name: the pickle brought its own copies"""
        out = []
        for f in getattr(u, "factors", {}):
            if f is One:
                continue
            if len(f.factors) == 1 and next(iter(f.factors)) is f:
                if f.names and Unit._by_name.get(f.names[0]) is not f:
                    out.append(f)
            else:
                out.extend(twins(f))
        return out

    for kind, name, obj in unpickled_first:
        if kind in ("unit", "base-unit", "compound"):
            tw = twins(obj) if kind != "base-unit" else ([obj] if Unit._by_name.get(name) is not obj else [])
            if tw:
                for f in tw:
                    stale_base_units.add(id(f))
                stale_base_units.add(id(obj))
                violation("C19:unit-unpickled-before-its-base-units-are-declared-is-a-second-object",
                          f"{kind} {name or obj!r} was unpickled before the module declaring {[f.names[0] for f in tw][:3]} was imported: the pickle's base units and the declared ones are different objects reporting one name")
                continue
        if kind == "compound":
            continue
        if kind == "prefix":
            reg, bysym, sym = Prefix._by_name.get(name), Prefix._by_symbol, getattr(obj, "symbol", None)
        elif kind == "dimension":
            reg, bysym, sym = Dimension._by_name.get(name), None, None
        else:
            reg, bysym, sym = Unit._by_name.get(name), Unit._by_symbol, (obj.symbols[0] if getattr(obj, "symbols", None) else None)
        if reg is None:
            violation(f"C19:declared-after-unpickling-not-bound:{kind}", f"{kind} {name!r} was unpickled before its module was imported; after the import the name is not registered at all")
        elif reg is not obj:
            violation(f"C19:declared-after-unpickling-not-bound:{kind}", f"{kind} {name!r} unpickled before its module was imported is not the object registered under that name afterwards")
        elif bysym is not None and sym and bysym.get(sym) is not obj:
            violation(f"C19:declared-after-unpickling-not-bound:{kind}", f"{kind} {name!r}: symbol {sym!r} is not registered for it after its declaration ran (lookup gives {bysym.get(sym)!r})")
    if stale_base_units:
        # everything interned that is built on such a copy is a copy as well
        changed = True
        while changed:
            changed = False
            for u in list(Unit._known.values()):
                if id(u) not in stale_base_units and any(id(f) in stale_base_units for f in getattr(u, "factors", {})):
                    stale_base_units.add(id(u))
                    changed = True

    # ---- 2. bijection sweep ------------------------------------------------------------------------
    def sweep(tag):
        count("sweeps")
        seen_n, seen_s = {}, {}
        note_other_schema_objects()
        for u in list(Unit._known.values()):
            if id(u) in stale_base_units:
                continue   # reported once, under its own key
            if id(u) in other_ids:
                count("sweep_skipped_other_schema_objects")
                continue
            if not getattr(u, "_initialized", False):
                violation("C19:half-built-unit-in-table", f"{tag}: an uninitialised Unit sits in Unit._known")
                continue
            for n in u.names:
                if n in seen_n and seen_n[n] is not u:
                    violation("C19:unit-name-reported-by-two-objects", f"{tag}: name {n!r}")
                seen_n[n] = u
                if Unit._by_name.get(n) is not u:
                    violation("C19:unit-reports-name-bound-elsewhere", f"{tag}: {u!r} reports {n!r} but the registry maps it to {Unit._by_name.get(n)!r}")
            for s in u.symbols:
                if s in seen_s and seen_s[s] is not u:
                    violation("C19:unit-symbol-reported-by-two-objects", f"{tag}: symbol {s!r}")
                seen_s[s] = u
                if Unit._by_symbol.get(s) is not u:
                    violation("C19:unit-reports-symbol-bound-elsewhere", f"{tag}: {u!r} reports {s!r}")
        for n, u in Unit._by_name.items():
            if n not in getattr(u, "names", ()):
                violation("C19:registry-name-not-reported-by-unit", f"{tag}: Unit._by_name[{n!r}] = {u!r} which reports {getattr(u, 'names', None)}")
        for s, u in list(Unit._by_symbol.items()):
            if s not in getattr(u, "symbols", ()):
                violation("C19:registry-symbol-not-reported-by-unit", f"{tag}: Unit._by_symbol[{s!r}]")
            try:
                got = Unit.resolve_symbol(s)
            except Exception as e:
                got = e
            count("symbol_lookups_in_sweeps")
            if got is not u:
                violation("C19:declared-symbol-resolves-elsewhere", f"{tag}: Unit.resolve_symbol({s!r}) gives {got!r}, the registry says {u!r}")
        for n, u in list(Unit._by_name.items()):
            if Unit.named(n) is not u:
                violation("C19:declared-name-resolves-elsewhere", f"{tag}: Unit.named({n!r})")
        pn, ps = {}, {}
        for p in list(Prefix._known.values()):
            if not getattr(p, "_initialized", False):
                violation("C19:half-built-prefix-in-table", f"{tag}: an uninitialised Prefix sits in Prefix._known")
                continue
            if id(p) in other_ids:
                continue
            if p.name:
                if p.name in pn and pn[p.name] is not p:
                    violation("C19:prefix-name-reported-by-two-objects", f"{tag}: name {p.name!r} reported by {pn[p.name]!r} and {p!r}")
                pn[p.name] = p
                if Prefix._by_name.get(p.name) is not p:
                    violation("C19:prefix-reports-name-bound-elsewhere", f"{tag}: {p!r} reports {p.name!r}, registry has {Prefix._by_name.get(p.name)!r}")
            if p.symbol:
                if p.symbol in ps and ps[p.symbol] is not p:
                    violation("C19:prefix-symbol-reported-by-two-objects", f"{tag}: symbol {p.symbol!r} reported by {ps[p.symbol]!r} and {p!r}")
                ps[p.symbol] = p
                if Prefix._by_symbol.get(p.symbol) is not p:
                    violation("C19:prefix-reports-symbol-bound-elsewhere", f"{tag}: {p!r} reports {p.symbol!r}, registry has {Prefix._by_symbol.get(p.symbol)!r}")
        dn = {}
        for d in list(Dimension._known.values()):
            if not getattr(d, "_initialized", False):
                violation("C19:half-built-dimension-in-table", f"{tag}")
                continue
            if d.name:
                if d.name in dn and dn[d.name] is not d:
                    violation("C19:dimension-name-reported-by-two-objects", f"{tag}: name {d.name!r}")
                dn[d.name] = d
                if Dimension._by_name.get(d.name) is not d:
                    violation("C19:dimension-reports-name-bound-elsewhere", f"{tag}: {d!r}")

    sweep("after import")

    # ---- 3./4. random history of definition calls ----------------------------------------------------
    uid = [0]

    def fresh(tag="zq"):
        uid[0] += 1
        return f"{tag}{spec['seed']}x{uid[0]}"

    def alpha(k):
        out = ""
        while True:
            out = "abcdefghijklmnopqrstuvwxyz"[k % 26] + out
            k //= 26
            if not k:
                return out

    def fresh_alpha(tag="zq"):
        """a fresh symbol made of letters only, so that it also goes through the quantity parser"""
        uid[0] += 1
        return f"{tag}{alpha(spec['seed'])}Z{alpha(uid[0])}"

    def symbol_for_declaration():
        """a symbol for a new declaration: fresh, or - the history-dependent case - one that the library
        already *resolved* earlier in this process as prefix + symbol of another unit (nothing is declared
        under it yet, so the declaration is valid and must win every later lookup)"""
        named = [u for u in my_units if u.symbols and u.symbols[0].isalpha()]
        if named and rng.random() < 0.4:
            base = rng.choice(named)
            pfx = rng.choice(sorted((p for p in Prefix._by_symbol.values() if p.symbol and p.symbol.isalpha()), key=lambda p: p.symbol))
            text = pfx.symbol + base.symbols[0]
            if text not in Unit._by_symbol and text not in Unit._by_name:
                how = rng.choice(["resolve_symbol", "Unit.parse", "Quantity.parse", "failing parse"])
                if how == "failing parse":
                    # the text was resolved inside a parse that then failed on a later term (or on its syntax)
                    for bad in (f"3 {text}/zzqqnotaunit", f"{text} zzqqnotaunit^2", f"{text}*m^", f"2 {text}/"):
                        try:
                            (measured.Quantity.parse if bad[0].isdigit() else Unit.parse)(bad)
                        except Exception:
                            pass
                    count("symbols_resolved_before_declaration/failing parse")
                    return text, "symbol-resolved-earlier"
                try:
                    got = (Unit.resolve_symbol(text) if how == "resolve_symbol" else Unit.parse(text) if how == "Unit.parse"
                           else measured.Quantity.parse("2 " + text).unit)
                except Exception:
                    got = None
                if got is pfx * base:
                    count(f"symbols_resolved_before_declaration/{how}")
                    return text, "symbol-resolved-earlier"
        return fresh_alpha("zqs"), "fresh"

    dims = [measured.Length, measured.Time, measured.Mass, measured.Energy, measured.Speed, measured.Frequency, measured.Temperature]
    unit_names = sorted(Unit._by_name)
    unit_symbols = sorted(Unit._by_symbol)
    my_units = []      # units defined in this history
    state_kinds = {}

    def expect_fail(label, argpos, state_class, fn, fault="bad argument"):
        """the call must raise; afterwards every registry must be exactly as before"""
        before = snapshot()
        try:
            fn()
        except Exception as e:
            count(f"failing_calls/{label}/{argpos}/{state_class}")
            count("definition_calls_raised")
            after = snapshot()
            changed = diff(before, after)
            if changed:
                violation(f"C19:failed-call-changed-registry:{label}:{argpos}",
                          f"{label} ({argpos}, {state_class}) raised {type(e).__name__} but changed {changed}", {"label": label, "argpos": argpos, "state": state_class})
            return True
        count(f"expected_failure_did_not_raise/{label}/{argpos}")
        after = snapshot()
        return False

    def expect_ok(label, state_class, fn, check):
        try:
            r = fn()
        except Exception as e:
            violation(f"C19:valid-definition-raised:{label}", f"{label} ({state_class}) raised {type(e).__name__}: {e}", {"label": label, "state": state_class})
            return None
        count(f"successful_calls/{label}/{state_class}")
        count("definition_calls_succeeded")
        problem = check(r)
        if problem:
            violation(f"C19:declared-name-not-bound:{label}:{state_class}", f"{label} ({state_class}): {problem}", {"label": label, "state": state_class})
        return r

    def by_name_through_pydantic(name):
        try:
            from pydantic import TypeAdapter
            if "adapter" not in by_name_through_pydantic.__dict__:
                by_name_through_pydantic.adapter = TypeAdapter(Unit)
            return by_name_through_pydantic.adapter.validate_python(name)
        except ImportError:
            return None
        except Exception as e:
            return e

    def unit_bound(u, name, symbol):
        def check(_):
            if name:
                if Unit._by_name.get(name) is not u:
                    return f"Unit._by_name[{name!r}] is {Unit._by_name.get(name)!r}"
                if name not in u.names:
                    return f"unit does not report name {name!r}"
                if Unit.named(name) is not u:
                    return f"Unit.named({name!r}) is {Unit.named(name)!r}"
                got = by_name_through_pydantic(name)
                count("lookups_by_name_through_pydantic")
                if got is not None and got is not u:
                    return f"a pydantic Unit field given the name {name!r} resolves to {got!r}"
            if symbol:
                try:
                    got = Unit.resolve_symbol(symbol)
                except KeyError:
                    got = None
                if got is not u:
                    return f"resolve_symbol({symbol!r}) gives {got!r}"
                if symbol not in u.symbols:
                    return f"unit does not report symbol {symbol!r}"
                if GRAMMAR_SYMBOL.match(symbol):
                    # the lookups users actually make: the parser
                    try:
                        got = (Unit.parse(symbol), measured.Quantity.parse("3 " + symbol).unit)
                    except Exception as e:
                        return f"parsing the declared symbol {symbol!r} raised {type(e).__name__}: {e}"
                    if got[0] is not u or got[1] is not u:
                        return f"Unit.parse({symbol!r}) gives {got[0]!r}, Quantity.parse gives {got[1]!r}"
            return None
        return check

    import unicodedata
    lookalikes = [x for x in ("\u2126", "\u212b", "A\u030a", "\u00b5m", "\u2126\u2126") if x not in Unit._by_symbol
                  and unicodedata.normalize("NFC", x) != x or unicodedata.normalize("NFKC", x) != x]
    rng.shuffle(lookalikes)
    steps = spec.get("steps", 60)
    my_dims = []
    for step in range(steps):
        if other_schema and other_schema["when"] == "mid-history" and step == steps // 3:
            load_other_schema("mid-history")
        r = rng.random()
        d = rng.choice(dims)
        if r < 0.12:
            n = fresh("zqn")
            s, state = symbol_for_declaration()
            if rng.random() < 0.2:
                # a NAME that also reads as somebody else's symbol, or as prefix + symbol ('rad' the absorbed dose next to the
                # radian's symbol rad, 'mu' the area next to milli-u): names and symbols are separate tables, the declaration is
                # valid, and every lookup BY NAME gives this unit
                taken = sorted(x for x in Unit._by_symbol if x.isalpha() and x not in Unit._by_name)
                pfx = sorted(x for x in Prefix._by_symbol if x.isalpha())
                cand = rng.choice(taken) if rng.random() < 0.5 or not pfx else rng.choice(pfx) + rng.choice(taken)
                if cand not in Unit._by_name and cand not in Unit._by_symbol or cand in taken:
                    n, state = cand, "name-that-reads-as-a-symbol"
            if lookalikes and rng.random() < 0.25:
                # a spelling that is only *canonically equivalent* (Unicode) to a symbol somebody else owns: a different
                # string, so a valid declaration - and the owner keeps its symbol
                s, state = lookalikes.pop(), "canonically-equivalent-to-a-taken-symbol"
            u = expect_ok("Unit.define", state, lambda: Unit.define(d, n, s), lambda u: unit_bound(u, n, s)(u) if u is not None else "no unit")
            if u is not None:
                my_units.append(u)
        elif r < 0.2:
            n = fresh("zqn")
            s, state = symbol_for_declaration()
            u = expect_ok("Dimension.unit", state, lambda: d.unit(n, s), lambda u: unit_bound(u, n, s)(u))
            if u is not None:
                my_units.append(u)
        elif r < 0.32 and my_units:
            # anonymous compound first, named later (derive / alias)
            a, c = rng.choice(my_units), rng.choice(my_units + [measured.One])
            e = rng.choice([2, 3, -1, -2])
            anon = a**e * c if rng.random() < 0.5 else a**e / (c if c is not a else measured.One)
            if anon.names or anon is measured.One:
                continue
            n = fresh("zqd")
            s, state = symbol_for_declaration()
            state = "anonymous-first" + ("+" + state if state != "fresh" else "")
            if rng.random() < 0.5:
                expect_ok("Unit.derive", state, lambda: Unit.derive(anon, n, s), unit_bound(anon, n, s))
            else:
                expect_ok("Unit.alias", state, lambda: anon.alias(name=n, symbol=s), unit_bound(anon, n, s))
        elif r < 0.4 and my_units:
            # a second name for an already named unit
            u = rng.choice(my_units)
            n = fresh("zqa")
            s, state = symbol_for_declaration()
            state = "already-named" + ("+" + state if state != "fresh" else "")
            expect_ok("Unit.alias", state, lambda: u.alias(name=n, symbol=s), unit_bound(u, n, s))
        elif r < 0.5:
            # prefix: anonymous first (through arithmetic or the bare constructor), then named
            base = rng.choice([3, 5, 7])
            e = uid[0] + rng.randint(1, 5) + 100
            uid[0] += 6
            how = rng.choice(["fresh", "anonymous-first"])
            if how == "anonymous-first":
                if rng.random() < 0.5:
                    Prefix(base, e)
                else:
                    Prefix(base, e - 1) * Prefix(base, 1)
            n, s = fresh("zqp"), fresh("zqP")

            def check_prefix(p):
                if Prefix._by_name.get(n) is not p:
                    return f"Prefix._by_name[{n!r}] is {Prefix._by_name.get(n)!r}"
                if p.name != n or p.symbol != s:
                    return f"prefix reports name {p.name!r} symbol {p.symbol!r}"
                try:
                    if Prefix.resolve_symbol(s) is not p:
                        return f"resolve_symbol({s!r}) is another prefix"
                except KeyError:
                    return f"resolve_symbol({s!r}) raises KeyError"
                if Prefix(base, e) is not p:
                    return "Prefix(base, exponent) is another object"
                return None
            expect_ok("Prefix(name=...)", how, lambda: Prefix(base, e, name=n, symbol=s), check_prefix)
        elif r < 0.57:
            # dimension: anonymous first, then derive
            k = rng.randint(4, 9)
            anon = rng.choice(dims) ** k / rng.choice(dims) ** rng.randint(1, 3)
            if anon.name:
                continue
            n = fresh("zqdim")
            expect_ok("Dimension.derive", "anonymous-first", lambda: Dimension.derive(anon, n),
                      lambda dd: None if (Dimension._by_name.get(n) is anon and anon.name == n and Dimension.named(n) is anon) else f"Dimension.named({n!r}) / name not bound")
            my_dims.append(anon)
            if rng.random() < 0.5:
                # the declaration is stated again with a symbol (the first one had none of its own): name and object stay,
                # the symbol is the one declared now
                s2 = fresh("zqds")
                expect_ok("Dimension.derive", "same-name-again-with-a-symbol", lambda: Dimension.derive(anon, n, s2),
                          lambda dd: None if (Dimension._by_name.get(n) is anon and anon.name == n and anon.symbol == s2) else
                          f"after Dimension.derive(d, {n!r}, {s2!r}) the dimension reports name {anon.name!r} and symbol {anon.symbol!r}")
        elif r < 0.575 and my_dims:
            # a dimension of the program's own that already has a name is derived under a second one
            d0 = rng.choice(my_dims)
            old_name, n2 = d0.name, fresh("zqdim2")
            try:
                Dimension.derive(d0, n2, fresh("zqds"))
            except ValueError:
                count("successful_calls/Dimension.derive/second-name-refused")
                if Dimension._by_name.get(n2) is not None or d0.name != old_name:
                    violation("C19:failed-definition-changed-registry:Dimension.derive", f"Dimension.derive refused a second name {n2!r} for {old_name!r} but left traces")
            else:
                count("successful_calls/Dimension.derive/second-name")
                count("definition_calls_succeeded")
                if Dimension._by_name.get(n2) is not d0 or d0.name != n2:
                    violation("C19:declared-name-not-bound:Dimension.derive:second-name", f"Dimension.derive(d, {n2!r}) returned normally for the dimension named {old_name!r}, "
                              f"but Dimension.named({n2!r}) is {Dimension._by_name.get(n2)!r} and the dimension reports {d0.name!r}")
                elif Dimension._by_name.get(old_name) is d0:
                    violation("C19:dimension-derived-under-a-second-name-keeps-the-first-registered-but-no-longer-reports-it",
                              f"after Dimension.derive(d, {n2!r}) on the dimension declared as {old_name!r}: Dimension.named({old_name!r}) still returns it, but it reports only {d0.name!r}")
        elif r < 0.62:
            k = rng.randint(10, 14)
            exps = tuple(list((rng.choice(dims) ** k).exponents))
            anon_first = rng.random() < 0.5
            if anon_first:
                Dimension(exps)
            if Dimension(exps).name:
                continue
            n = fresh("zqdimc")
            expect_ok("Dimension(name=...)", "anonymous-first" if anon_first else "fresh", lambda: Dimension(exps, name=n, symbol=n),
                      lambda dd: None if (Dimension._by_name.get(n) is dd and dd.name == n) else f"Dimension(exponents, name={n!r}) left the object unnamed ({dd.name!r}) or unregistered")
        elif r < 0.9:
            # ---- failing calls: every argument position ----------------------------------------------
            kind = rng.choice(["define-dupname", "define-dupsym", "define-space", "unit-dupname", "unit-space", "derive-dupname", "derive-dupsym", "derive-space",
                               "alias-dupname", "alias-dupsym", "alias-space", "scale-dupname", "scale-space", "scale-badzero", "dimderive-dupname",
                               "prefix-dupname", "prefix-dupsym", "equals-self", "equals-zero", "define-badsymboltype", "dimdefine-dupname",
                               "prefix-dupname-identity", "ownname-derive-dupsym", "ownname-derive-space", "ownname-alias-dupsym", "ownname-alias-space",
                               "symbolonly-alias-dupsym", "symbolonly-alias-space", "dimctor-dupname", "prefix-rename", "prefix-resymbol", "scale-foreign-zero", "wrong-kind-of-argument", "wrong-kind-of-argument", "scale-prefixed-zero"])
            dup_n, dup_s = rng.choice(unit_names), rng.choice(unit_symbols)
            target = rng.choice(my_units) if my_units else None
            anon = None
            if my_units:
                a = rng.choice(my_units)
                anon = a ** rng.choice([4, 5, -3])
                if anon.names:
                    anon = None
            for_state = "anonymous-first" if anon is not None and rng.random() < 0.5 else "already-named"
            subject = anon if for_state == "anonymous-first" else target
            if kind == "define-dupname":
                expect_fail("Unit.define", "duplicate name", "fresh", lambda: Unit.define(d, dup_n, fresh("zqs")))
            elif kind == "define-dupsym":
                expect_fail("Unit.define", "duplicate symbol", "fresh", lambda: Unit.define(d, fresh("zqn"), dup_s))
            elif kind == "define-space":
                expect_fail("Unit.define", "symbol with space", "fresh", lambda: Unit.define(d, fresh("zqn"), fresh("zq s")))
            elif kind == "define-badsymboltype":
                expect_fail("Unit.define", "symbol of wrong type", "fresh", lambda: Unit.define(d, fresh("zqn"), 5))
            elif kind == "unit-dupname":
                expect_fail("Dimension.unit", "duplicate name", "fresh", lambda: d.unit(dup_n, fresh("zqs")))
            elif kind == "unit-space":
                expect_fail("Dimension.unit", "symbol with space", "fresh", lambda: d.unit(fresh("zqn"), "zq sp " + fresh()))
            elif kind.startswith("derive-") and subject is not None:
                if kind == "derive-dupname" and Unit._by_name[dup_n] is not subject:
                    expect_fail("Unit.derive", "duplicate name", for_state, lambda: Unit.derive(subject, dup_n, fresh("zqs")))
                elif kind == "derive-dupsym" and Unit._by_symbol[dup_s] is not subject:
                    expect_fail("Unit.derive", "duplicate symbol", for_state, lambda: Unit.derive(subject, fresh("zqn"), dup_s))
                elif kind == "derive-space":
                    expect_fail("Unit.derive", "symbol with space", for_state, lambda: Unit.derive(subject, fresh("zqn"), fresh("zq s")))
            elif kind.startswith("alias-") and subject is not None:
                if kind == "alias-dupname" and Unit._by_name[dup_n] is not subject:
                    expect_fail("Unit.alias", "duplicate name", for_state, lambda: subject.alias(name=dup_n, symbol=fresh("zqs")))
                elif kind == "alias-dupsym" and Unit._by_symbol[dup_s] is not subject:
                    expect_fail("Unit.alias", "duplicate symbol", for_state, lambda: subject.alias(name=fresh("zqn"), symbol=dup_s))
                elif kind == "alias-space":
                    expect_fail("Unit.alias", "symbol with space", for_state, lambda: subject.alias(name=fresh("zqn"), symbol=fresh("zq s")))
            elif kind == "scale-dupname":
                zero = 10 * Unit._by_name["kelvin"] if "kelvin" in Unit._by_name else None
                if zero is not None:
                    expect_fail("Dimension.scale", "duplicate name", "fresh", lambda: measured.Temperature.scale(zero, dup_n, fresh("zqs")))
            elif kind == "scale-space":
                zero = 10 * Unit._by_name["kelvin"] if "kelvin" in Unit._by_name else None
                if zero is not None:
                    expect_fail("Dimension.scale", "symbol with space", "fresh", lambda: measured.Temperature.scale(zero, fresh("zqn"), fresh("zq s")))
            elif kind == "scale-badzero":
                expect_fail("Dimension.scale", "zero point of wrong type", "fresh", lambda: measured.Temperature.scale(273.15, fresh("zqn"), fresh("zqs")))
            elif kind == "scale-prefixed-zero":
                # a zero point written in a prefixed unit (273150 mK), or in a compound one: the library may take it or refuse
                # it - a refusal leaves every registry as it was, an acceptance binds name and symbol
                kelvin = Unit._by_name.get("kelvin")
                if kelvin is not None:
                    pz = rng.choice([p for p in Prefix._by_name.values() if p.name in ("milli", "kilo", "micro")] or [measured.IdentityPrefix])
                    n0, s0 = fresh("zqpz"), fresh("zqpzs")
                    before = snapshot()
                    try:
                        made = measured.Temperature.scale(rng.choice([273150, 100.5]) * (pz * kelvin), n0, s0)
                    except Exception as e:
                        count("failing_calls/Dimension.scale/zero point in a prefixed unit")
                        count("definition_calls_raised")
                        changed = diff(before, snapshot())
                        if changed:
                            violation("C19:failed-call-changed-registry:Dimension.scale:zero point in a prefixed unit",
                                      f"Dimension.scale with a zero point in {pz.name}kelvin raised {type(e).__name__} but changed {changed}", {"label": "Dimension.scale"})
                    else:
                        count("successful_calls/Dimension.scale/zero point in a prefixed unit")
                        problem = unit_bound(made, n0, s0)(made)
                        if problem:
                            violation("C19:declared-name-not-bound:Dimension.scale:prefixed-zero", f"Dimension.scale with a prefixed zero point: {problem}", {})
            elif kind == "wrong-kind-of-argument":
                # the everyday mix-ups: a unit where its dimension was meant, the arguments the wrong way round, a None handed on
                # from a lookup with a typo, a bare number where a quantity was meant.  These calls raise (AttributeError /
                # TypeError) part-way - and like every definition that raises they leave every registry as it was
                u0 = rng.choice(my_units) if my_units else Unit._by_name["meter"]
                d0 = rng.choice(dims) ** rng.randint(20, 26)
                anon_u = u0 / Unit._by_name["second"] ** rng.randint(5, 9)
                q0 = 5 * u0
                n0, s0 = fresh("zqwk"), fresh("zqwks")
                label, fn = rng.choice([
                    ("Dimension.derive(unit, name)", lambda: Dimension.derive(anon_u, n0, s0)),
                    ("Dimension.derive(name, dimension)", lambda: Dimension.derive(n0, d0)),
                    ("Dimension.derive(None, name)", lambda: Dimension.derive(None, n0)),
                    ("Unit.derive(dimension, ...)", lambda: Unit.derive(d0, n0, s0)),
                    ("Unit.derive(quantity, ...)", lambda: Unit.derive(q0, n0, s0)),
                    ("Unit.derive(None, ...)", lambda: Unit.derive(None, n0, s0)),
                    ("Unit.alias(symbol=[list])", lambda: u0.alias(name=n0, symbol=[s0])),
                    ("Dimension.scale(unit, ...)", lambda: d.scale(u0, n0, s0)),
                    ("Dimension.scale(number, ...)", lambda: d.scale(5, n0, s0)),
                    ("Unit.equals(unit)", lambda: u0.equals(Unit._by_name["second"])),
                    ("Unit.equals(number)", lambda: u0.equals(5)),
                    ("conversions.equate(quantity, unit)", lambda: conversions.equate(q0, u0)),
                    ("conversions.translate(unit, number)", lambda: conversions.translate(u0, 5)),
                ])
                expect_fail(label.split("(")[0], "an argument of the wrong kind: " + label, "fresh", fn)
            elif kind == "dimderive-dupname":
                anon_d = rng.choice(dims) ** rng.randint(15, 19)
                taken = rng.choice(sorted(Dimension._by_name))
                if Dimension._by_name[taken] is not anon_d:
                    expect_fail("Dimension.derive", "duplicate name", "anonymous-first", lambda: Dimension.derive(anon_d, taken))
            elif kind == "dimdefine-dupname" and spec.get("allow_dimension_define"):
                taken = rng.choice(sorted(Dimension._by_name))
                expect_fail("Dimension.define", "duplicate name", "fresh", lambda: Dimension.define(taken, fresh("zqD")))
            elif kind == "prefix-dupname":
                taken = rng.choice(sorted(Prefix._by_name)) if Prefix._by_name else None
                if taken:
                    e = uid[0] + 300
                    uid[0] += 1
                    anon_first = rng.random() < 0.5
                    if anon_first:
                        Prefix(11, e)
                    expect_fail("Prefix(name=...)", "duplicate name", "anonymous-first" if anon_first else "fresh", lambda: Prefix(11, e, name=taken, symbol=fresh("zqP")))
            elif kind == "prefix-dupsym":
                taken = rng.choice(sorted(Prefix._by_symbol)) if Prefix._by_symbol else None
                if taken:
                    e = uid[0] + 300
                    uid[0] += 1
                    anon_first = rng.random() < 0.5
                    if anon_first:
                        Prefix(13, e)
                    expect_fail("Prefix(name=...)", "duplicate symbol", "anonymous-first" if anon_first else "fresh", lambda: Prefix(13, e, name=fresh("zqp"), symbol=taken))
            elif kind == "scale-foreign-zero":
                # whether a zero point measured in another dimension is refused or not, a refusal must leave nothing behind
                other_d = rng.choice([x for x in dims if x is not d])
                zero_unit = next((u for u in my_units if u.dimension is other_d), None) or Unit._by_name.get({measured.Length: "meter", measured.Time: "second", measured.Mass: "gram"}.get(other_d, "meter"))
                if zero_unit is not None and zero_unit.dimension is not d:
                    nn, ss = fresh("zqsc"), fresh("zqSC")
                    before = snapshot()
                    try:
                        d.scale(rng.choice([255.372, 1, 32]) * zero_unit, nn, ss)
                        count("definition_calls_succeeded")
                        count("successful_calls/Dimension.scale/zero-point-of-another-dimension")
                    except Exception as e:
                        count("failing_calls/Dimension.scale/zero point of another dimension/fresh")
                        count("definition_calls_raised")
                        changed = diff(before, snapshot())
                        if changed:
                            violation("C19:failed-call-changed-registry:Dimension.scale:zero", f"Dimension.scale with a zero point of another dimension raised {type(e).__name__} but changed {changed}",
                                      {"label": "Dimension.scale", "argpos": "zero"})
            elif kind in ("prefix-rename", "prefix-resymbol"):
                # a prefix has one name and one symbol: declaring an already named prefix under another one is refused
                named = sorted((p for p in Prefix._known.values() if getattr(p, "name", None) and getattr(p, "symbol", None) and p.base), key=lambda p: p.name)
                if named:
                    p0 = rng.choice(named)
                    if kind == "prefix-rename":
                        expect_fail("Prefix(name=...)", "second name for a named prefix", "already-named", lambda: Prefix(p0.base, p0.exponent, name=fresh("zqp"), symbol=p0.symbol))
                    else:
                        expect_fail("Prefix(name=...)", "second symbol for a named prefix", "already-named", lambda: Prefix(p0.base, p0.exponent, name=p0.name, symbol=fresh("zqP")))
            elif kind == "prefix-dupname-identity":
                # exponent 0 denotes the identity prefix for every base: a taken name / symbol must still be refused
                taken_n = rng.choice(sorted(Prefix._by_name)) if Prefix._by_name else None
                taken_s = rng.choice(sorted(Prefix._by_symbol)) if Prefix._by_symbol else None
                if taken_n and rng.random() < 0.5:
                    expect_fail("Prefix(name=...)", "duplicate name, exponent 0", "already-named", lambda: Prefix(rng.choice([10, 2, 7]), 0, name=taken_n, symbol=fresh("zqP")))
                elif taken_s:
                    expect_fail("Prefix(name=...)", "duplicate symbol, exponent 0", "already-named", lambda: Prefix(rng.choice([10, 2, 7]), 0, name=fresh("zqp"), symbol=taken_s))
            elif kind in ("ownname-derive-dupsym", "ownname-derive-space", "ownname-alias-dupsym", "ownname-alias-space") and target is not None and target.names:
                # re-declaring a unit under a name it already has must still validate the symbol
                own = rng.choice(target.names)
                bad = (dup_s if Unit._by_symbol[dup_s] is not target else None) if kind.endswith("dupsym") else fresh("zq s")
                if bad is not None:
                    if "derive" in kind:
                        expect_fail("Unit.derive", "own name + " + ("duplicate symbol" if kind.endswith("dupsym") else "symbol with space"), "already-named", lambda: Unit.derive(target, own, bad))
                    else:
                        expect_fail("Unit.alias", "own name + " + ("duplicate symbol" if kind.endswith("dupsym") else "symbol with space"), "already-named", lambda: target.alias(name=own, symbol=bad))
            elif kind in ("symbolonly-alias-dupsym", "symbolonly-alias-space") and subject is not None:
                bad = (dup_s if Unit._by_symbol[dup_s] is not subject else None) if kind.endswith("dupsym") else fresh("zq s")
                if bad is not None:
                    expect_fail("Unit.alias", "no name + " + ("duplicate symbol" if kind.endswith("dupsym") else "symbol with space"), for_state, lambda: subject.alias(symbol=bad))
            elif kind == "dimctor-dupname":
                taken = rng.choice(sorted(Dimension._by_name))
                exps = tuple((rng.choice(dims) ** rng.randint(20, 29)).exponents)
                anon_first = rng.random() < 0.5
                if anon_first:
                    Dimension(exps)
                if Dimension._by_name[taken] is not Dimension._known.get(exps):
                    expect_fail("Dimension(name=...)", "duplicate name", "anonymous-first" if anon_first else "fresh", lambda: Dimension(exps, name=taken, symbol=fresh("zqD")))
            elif kind == "equals-self" and target is not None:
                expect_fail("Unit.equals", "the unit itself", "already-named", lambda: target.equals(2 * target))
            elif kind == "equals-zero" and target is not None and len(my_units) > 1:
                other = rng.choice([u for u in my_units if u is not target and u.dimension is target.dimension] or [None])
                if other is not None:
                    expect_fail("Unit.equals", "zero magnitude", "already-named", lambda: target.equals(0 * other))
        else:
            # ---- failpoints at real call boundaries --------------------------------------------------
            if spec.get("failpoints", True):
                failpoint_step(rng, measured, conversions, Unit, Dimension, d, fresh, my_units, snapshot, diff, count, violation)
        if step % 10 == 9:
            sweep(f"step {step}")
    if spec.get("force_failpoint_site") and spec.get("failpoints", True):
        failpoint_step(rng, measured, conversions, Unit, Dimension, rng.choice(dims), fresh, my_units, snapshot, diff, count, violation,
                       force=spec["force_failpoint_site"])
    sweep("end of history")
    if len(out["samples"]) < 3:
        out["samples"].append({"seed": spec["seed"], "steps": steps, "units_defined": len(my_units), "counts": {k: v for k, v in counts.items() if not k.startswith("failing_calls")}})


class Injected(Exception):
    pass


def failpoint_step(rng, measured, conversions, Unit, Dimension, d, fresh, my_units, snapshot, diff, count, violation, force=None):
    """Make the callee raise on entry when it is entered from the named definition function
    (sys.monitoring PY_START); the definition call must leave every registry unchanged."""
    mon = sys.monitoring
    tool = 4
    kelvin = Unit._by_name.get("kelvin")
    sites = [
        ("Dimension.scale->conversions.translate", "translate", lambda: measured.Temperature.scale(5 * kelvin, fresh("zqn"), fresh("zqs")) if kelvin else None),
        ("Dimension.unit->Unit.define", "define", lambda: d.unit(fresh("zqn"), fresh("zqs"))),
    ]
    if len(my_units) >= 2:
        a, c = rng.sample(my_units, 2)
        if a.dimension is c.dimension:
            sites.append(("Unit.equals->conversions.equate", "equate", lambda: a.equals(3 * c)))
    if my_units:
        a = rng.choice(my_units)
        anon = a ** rng.choice([6, 7, -4])
        if not anon.names:
            sites.append(("Unit.derive->Unit.alias", "alias", lambda: Unit.derive(anon, fresh("zqn"), fresh("zqs"))))
    label, callee_name, call = rng.choice(sites)
    if force:
        label, callee_name, call = next(x for x in sites if x[0] == force)
    callee = {
        "translate": getattr(conversions.translate, "__wrapped__", conversions.translate),
        "equate": getattr(conversions.equate, "__wrapped__", conversions.equate),
        "define": boot_original("Unit.define", Unit.define.__func__),
        "alias": boot_original("Unit.alias", Unit.alias),
    }[callee_name]
    code = callee.__code__
    fired = []

    def on_start(c, offset):
        if c is code and not fired:
            fired.append(1)
            raise Injected(label)

    try:
        mon.use_tool_id(tool, "vmon-failpoints")
    except ValueError:
        pass
    mon.register_callback(tool, mon.events.PY_START, on_start)
    mon.set_local_events(tool, code, mon.events.PY_START)
    before = snapshot()
    try:
        try:
            call()
            raised = False
        except Injected:
            raised = True
        except Exception as e:
            raised = True
    finally:
        mon.set_local_events(tool, code, 0)
        mon.register_callback(tool, mon.events.PY_START, None)
        mon.free_tool_id(tool)
    if not fired:
        count(f"failpoints_not_reached/{label}")
        return
    count(f"failpoints_fired/{label}")
    count("definition_calls_raised")
    changed = diff(before, snapshot())
    if changed:
        violation(f"C19:exception-part-way-changed-registry:{label}", f"an exception on entry to the callee ({label}) left {changed} changed",
                  {"site": label})


def boot_original(name, fallback):
    from vmon import boot

    b = boot._BOOT
    return b._orig.get(name, fallback) if b is not None else fallback


if __name__ == "__main__":
    main()
