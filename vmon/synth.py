"""Synthetic, exactly-consistent unit systems run in fresh processes, and the generic
parallel runner for worker.py (subprocess.run with a timeout per case; never a Pool)."""
from __future__ import annotations

import json
import os
import subprocess
import sys
from concurrent.futures import ThreadPoolExecutor
from fractions import Fraction

from . import core
from . import model as M

HERE = os.path.dirname(os.path.abspath(__file__))
WORKER = os.path.join(HERE, "worker.py")
REPO = os.environ.get("VERIF_REPO", "/repo")


def child_env():
    env = dict(os.environ)
    env["PYTHONHASHSEED"] = env.get("PYTHONHASHSEED", "0")
    env["PYTHONDONTWRITEBYTECODE"] = "1"
    env["PYTHONPATH"] = os.path.join(REPO, "src") + os.pathsep + os.path.dirname(HERE)
    return env


def run_spec(spec, flags=(), timeout=120):
    """→ log dict, or {"inconclusive": why}"""
    cmd = [sys.executable, "-B", *flags, WORKER]
    try:
        p = subprocess.run(cmd, input=json.dumps(spec), capture_output=True, text=True, timeout=timeout, env=child_env())
    except subprocess.TimeoutExpired:
        return {"inconclusive": f"worker timed out after {timeout}s"}
    if p.returncode != 0:
        return {"inconclusive": f"worker exit {p.returncode}: {p.stderr[-400:]}"}
    try:
        return json.loads(p.stdout)
    except Exception as e:
        return {"inconclusive": f"unparsable worker output: {e}: {p.stdout[:200]!r} {p.stderr[-300:]!r}"}


def run_specs(specs, flags=(), jobs=None, timeout=120):
    jobs = jobs or max(1, min(16, (os.cpu_count() or 4)))
    with ThreadPoolExecutor(max_workers=jobs) as ex:
        return list(ex.map(lambda s: run_spec(s, flags, timeout), specs))


# ---- synthetic systems ---------------------------------------------------------------------

DIMS = {
    "length": (1, 0, 0),
    "time": (0, 1, 0),
    "mass": (0, 0, 1),
    "area": (2, 0, 0),
    "speed": (1, -1, 0),
    "acceleration": (1, -2, 0),
    "force": (1, -2, 1),
    "energy": (2, -2, 1),
    "frequency": (0, -1, 0),
}
FUND = ["length", "time", "mass"]


class System:
    SHIPPED = {"length": "meter", "time": "second", "mass": "gram"}

    def __init__(self, rng, tag, power_of_two=True, n_dims=None, compound=True, bridge=False):
        self.tag = tag
        self.rng = rng
        self.bridge = bridge
        self.shipped = set()
        self.units = {}   # name -> (dimname, size Fraction)
        self.decl_ops = []
        self.edges = []   # (A name, k Fraction, [(B name, exp)])
        self.by_dim = {}
        self.islands = []
        nd = n_dims or rng.choice([1, 2, 3])
        dims = rng.sample(FUND, nd)
        k = 0
        for d in dims:
            for _ in range(rng.randint(3, 7)):
                name = f"zq{tag}u{k}"
                k += 1
                size = Fraction(2) ** rng.randint(-6, 6) if power_of_two else Fraction(rng.randint(1, 4000), rng.randint(1, 400))
                self.units[name] = (d, size)
                self.by_dim.setdefault(d, []).append(name)
            if bridge:
                # user-defined units next to shipped ones: the SI unit of this dimension is one more node (size 1)
                self.units[self.SHIPPED[d]] = (d, Fraction(1))
                self.by_dim[d].append(self.SHIPPED[d])
                self.shipped.add(self.SHIPPED[d])
        # spanning tree per fundamental dimension, in random attachment order
        for d in dims:
            names = list(self.by_dim[d])
            rng.shuffle(names)
            for i in range(1, len(names)):
                a, b = names[i], rng.choice(names[:i])
                self._edge(rng, a, [(b, 1)])
            # redundant consistent edges
            for _ in range(rng.randint(0, 3)):
                a, b = rng.sample(names, 2)
                self._edge(rng, a, [(b, 1)])
        # compound-dimension units defined through products of the others
        if compound:
            for cd in rng.sample([x for x in DIMS if x not in FUND], rng.randint(0, 3)):
                vec = DIMS[cd]
                if any(vec[i] and FUND[i] not in dims for i in range(3)):
                    continue
                for _ in range(rng.randint(1, 2)):
                    name = f"zq{tag}u{k}"
                    k += 1
                    size = Fraction(2) ** rng.randint(-6, 6) if power_of_two else Fraction(rng.randint(1, 4000), rng.randint(1, 400))
                    self.units[name] = (cd, size)
                    self.by_dim.setdefault(cd, []).append(name)
                    rhs = []
                    for i, e in enumerate(vec):
                        if e:
                            if abs(e) == 2 and rng.random() < 0.5:
                                x, y = rng.choice(self.by_dim[FUND[i]]), rng.choice(self.by_dim[FUND[i]])
                                s = 1 if e > 0 else -1
                                if x == y:
                                    rhs.append((x, e))
                                else:
                                    rhs += [(x, s), (y, s)]
                            else:
                                rhs.append((rng.choice(self.by_dim[FUND[i]]), e))
                    self._edge(rng, name, rhs)
        # families of base units living directly in an inverse / mixed-sign dimension and related only
        # among themselves (no product definition to splat into): the planner has to match and
        # cancel them as they are
        if compound:
            for cd in rng.sample(["frequency", "speed", "acceleration", "force"], rng.randint(0, 2)):
                members = []
                for _ in range(rng.randint(2, 3)):
                    name = f"zq{tag}u{k}"
                    k += 1
                    size = Fraction(2) ** rng.randint(-6, 6) if power_of_two else Fraction(rng.randint(1, 4000), rng.randint(1, 400))
                    self.units[name] = (cd, size)
                    self.by_dim.setdefault(cd + "*", []).append(name)   # kept apart from product-defined units
                    members.append(name)
                for i in range(1, len(members)):
                    self._edge(rng, members[i], [(rng.choice(members[:i]), 1)])
                self.islands.append(members)
        rng.shuffle(self.edges)

    def _edge(self, rng, a, rhs):
        k = self.units[a][1]
        for b, e in rhs:
            k /= self.units[b][1] ** e
        self.edges.append((a, k, rhs))

    # ops
    def define_ops(self):
        return [["define", n, n, ["dimname", d]] for n, (d, _) in self.units.items() if n not in self.shipped]

    @staticmethod
    def rhs_term(rhs):
        t = None
        for b, e in rhs:
            f = ["u", b] if e == 1 else ["pow", ["u", b], e]
            t = f if t is None else ["mul", t, f]
        return t

    def declare_op(self, edge, rng=None):
        a, k, rhs = edge
        rng = rng or getattr(self, "rng", None)
        if rng is not None and rng.random() < 0.2:
            # the same equivalence stated from a *prefixed* form of the unit: (2**e * a) = (2**e * k) * rhs - the prefix of
            # the declaring unit counts (binary prefixes keep the system exact)
            e = rng.choice([1, 3, 10, -2])
            return ["declare", ["pfxraw", 2, e, ["u", a]], enc_fraction(k * Fraction(2) ** e), self.rhs_term(rhs)]
        return ["declare", ["u", a], enc_fraction(k), self.rhs_term(rhs)]

    def redeclare_leaf(self, rng):
        """Give a unit that occurs in exactly one declaration another size and return the op that declares
        it again (the declarations stay mutually consistent); None when there is no such unit"""
        mentions = {}
        for a, k, rhs in self.edges:
            for n in [a] + [b for b, _ in rhs]:
                mentions[n] = mentions.get(n, 0) + 1
        cands = [(i, a, rhs) for i, (a, k, rhs) in enumerate(self.edges) if mentions[a] == 1 and a not in self.shipped]
        if not cands:
            return None
        i, a, rhs = rng.choice(cands)
        d, size = self.units[a]
        self.units[a] = (d, size * Fraction(2) ** rng.choice([-3, -1, 1, 2, 5]))
        k = self.units[a][1]
        for b, e in rhs:
            k /= self.units[b][1] ** e
        self.edges[i] = (a, k, rhs)
        return self.declare_op(self.edges[i])

    def size_of_factors(self, factors):
        s = Fraction(1)
        for n, e in factors:
            s *= self.units[n][1] ** e
        return s

    def dim_of_factors(self, factors):
        v = [0, 0, 0]
        for n, e in factors:
            for i, x in enumerate(DIMS[self.units[n][0]]):
                v[i] += x * e
        return tuple(v)

    def random_factors(self, rng, max_factors=3, max_exp=3):
        names = list(self.units)
        island_names = [n for m in self.islands for n in m]
        out = {}
        for _ in range(rng.randint(1, max_factors)):
            n = rng.choice(island_names) if island_names and rng.random() < 0.4 else rng.choice(names)
            e = rng.randint(1, max_exp) * (1 if rng.random() < 0.6 else -1)
            out[n] = e
        return list(out.items())

    def alternative(self, rng, factors):
        out = {}
        for n, e in factors:
            island = next((m for m in self.islands if n in m), None)
            if island is not None:
                b = rng.choice(island)
                out[b] = out.get(b, 0) + e
                continue
            d = self.units[n][0]
            if d not in FUND and rng.random() < 0.5:
                for i, x in enumerate(DIMS[d]):
                    if x:
                        b = rng.choice(self.by_dim[FUND[i]])
                        out[b] = out.get(b, 0) + x * e
            else:
                b = rng.choice(self.by_dim[d])
                out[b] = out.get(b, 0) + e
        return [(n, e) for n, e in out.items() if e] or None

    @staticmethod
    def term(factors):
        t = None
        for n, e in factors:
            f = ["u", n] if e == 1 else ["pow", ["u", n], e]
            t = f if t is None else ["mul", t, f]
        return t


def enc_fraction(k: Fraction):
    """a magnitude the library will see: int when integral, else the float (exact for
    powers of two)"""
    if k.denominator == 1:
        return ["i", int(k)]
    return ["f", core.sf(k).hex()]


def small_mag(rng):
    r = rng.random()
    if r < 0.1:
        return ["i", 0]
    if r < 0.5:
        return ["i", rng.randint(-64, 64)]
    if r < 0.8:
        return ["f", (rng.randint(-4096, 4096) / 16.0).hex()]
    return ["d", str(rng.randint(-4096, 4096) / 16.0)]


def run_systems(ctx, nsys, mode="c04", queries=40):
    """C04 (b): every returned conversion inside a synthetic system must equal
    m·size(src)/size(dst) (hidden ground-truth sizes) within 1e-12 and carry the target unit."""
    rng = ctx.rng
    specs, metas = [], []
    for s in range(nsys):
        bridge = s % 3 == 2
        sysm = System(rng, tag=f"{ctx.shard}x{s}", bridge=bridge)
        ops = sysm.define_ops() + [sysm.declare_op(e) for e in sysm.edges]
        meta = []
        redeclare_at = queries // 2 if s % 3 == 1 else None
        earlier = []
        for qi in range(queries):
            if qi == redeclare_at:
                op = sysm.redeclare_leaf(rng)   # a user corrects one equivalence after conversions were asked
                if op is not None:
                    ops.append(op)
                    ctx.count("synthetic/redeclarations_after_queries")
            if redeclare_at is not None and qi > redeclare_at and earlier and rng.random() < 0.5:
                src, dst = rng.choice(earlier)       # ask again what was asked before the correction
            else:
                src = sysm.random_factors(rng)
                dst = sysm.alternative(rng, src)
                if not dst:
                    continue
                earlier.append((src, dst))
            mag = small_mag(rng)
            ops.append(["convert", mag, sysm.term(src), sysm.term(dst)])
            # the expected value is computed now, from the sizes in force when the query is asked
            meta.append((len(ops) - 1, mag, src, dst, sysm.size_of_factors(src) / sysm.size_of_factors(dst)))
        specs.append({"modules": ["si"] if bridge else [], "ops": ops})
        metas.append((sysm, meta))
        if bridge:
            ctx.count("synthetic/systems_bridged_to_shipped_units")
    logs = run_specs(specs, jobs=max(2, 16 // max(1, ctx.nshards)))
    for (sysm, meta), log, spec in zip(metas, logs, specs):
        ctx.count("synthetic/systems")
        if "inconclusive" in log or log.get("fatal"):
            ctx.count("synthetic/worker_failed")
            ctx.not_reached(f"synthetic worker: {log.get('inconclusive') or log.get('fatal')}")
            continue
        res = log["results"]
        if any("raise" in r for r in res[: len(sysm.units) + len(sysm.edges)]):
            ctx.count("synthetic/declaration_raised")
        for idx, mag, src, dst, ratio_at_query in meta:
            r = res[idx]
            ctx.count("synthetic/conversions")
            if "raise" in r:
                ctx.count(f"synthetic/raised/{r['raise']}")
                continue
            got = M.dec_mag(r["ok"]["mag"])
            expected = Fraction(M.dec_mag(mag)) * ratio_at_query
            ctx.count("synthetic/conversions_checked")
            case = {"system": {n: [d, str(s)] for n, (d, s) in sysm.units.items()},
                    "declarations": [[a, str(k), rhs] for a, k, rhs in sysm.edges],
                    "convert": [mag, src, dst], "got": r["ok"], "expected": str(expected)}
            if not r["ok"].get("unit_is_target", True):
                ctx.violation("C04:wrong-unit:synthetic", f"synthetic conversion returned another unit: {r['ok']}", case)
                continue
            g = Fraction(got)
            if g == expected:
                ctx.count("synthetic/bit_exact")
                ok = True
            else:
                ok = abs(g - expected) <= abs(expected) * Fraction(1, 10**12)
            if src != dst:
                ctx.distinct(("synthetic", tuple(sorted((sysm.units[n][0], e) for n, e in src)), tuple(sorted((sysm.units[n][0], e) for n, e in dst))))
            if not ok:
                ctx.violation("C04:wrong-magnitude:synthetic",
                              f"synthetic system: {mag} {src} -> {dst}: got {got!r}, exact {core.sf(expected)!r}", case)
        if len(ctx.samples) < 9 and meta:
            idx, mag, src, dst, _ = meta[0]
            ctx.sample({"synthetic_system_units": len(sysm.units), "declarations": len(sysm.edges),
                        "first_query": [mag, src, dst], "result": res[idx]})
