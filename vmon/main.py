"""./check <ID> [--tier quick|thorough] [--seed N] [--replay FILE] [--shards N]"""
from __future__ import annotations

import argparse
import importlib
import json
import os
import subprocess
import sys
import tempfile
import time

HERE = os.path.dirname(os.path.abspath(__file__))
VERIF = os.path.dirname(HERE)
sys.path.insert(0, VERIF)
REPO = os.environ.get("VERIF_REPO", "/repo")
# the working tree under test always wins over the editable install
sys.path.insert(0, os.path.join(REPO, "src"))

from vmon import core  # noqa: E402


def child_env():
    env = dict(os.environ)
    env["PYTHONHASHSEED"] = env.get("PYTHONHASHSEED", "0")
    env["PYTHONDONTWRITEBYTECODE"] = "1"
    env["PYTHONPATH"] = os.path.join(REPO, "src") + os.pathsep + VERIF
    return env


def main(argv=None):
    ap = argparse.ArgumentParser()
    ap.add_argument("pid")
    ap.add_argument("--tier", default=os.environ.get("VERIF_TIER", "quick"), choices=["quick", "thorough"])
    ap.add_argument("--seed", type=int, default=int(os.environ.get("VERIF_SEED", "0") or 0))
    ap.add_argument("--replay")
    ap.add_argument("--shard", default=None, help="i/N (internal)")
    ap.add_argument("--partial", default=None, help="file for the shard's partial result (internal)")
    ap.add_argument("--shards", type=int, default=None)
    args = ap.parse_args(argv)

    pid = args.pid.upper()
    mod = importlib.import_module(f"vmon.props.{pid.lower()}")

    if args.shard:
        i, n = (int(x) for x in args.shard.split("/"))
        ctx = core.Ctx(pid, args.tier, args.seed, shard=i, nshards=n)
        if sys.flags.optimize:
            ctx.count("shards_under_python_O" if sys.flags.optimize == 1 else "shards_under_python_OO")
        core.guarded(ctx, mod.run, ctx)
        with open(args.partial, "w") as f:
            json.dump(core.jsonable(ctx.dump_partial()), f)
        return 0

    if args.replay:
        # Replay = re-run the recorded workload (same tier and seed: every random choice is derived from
        # the seed, so the recorded case is generated again) under the same monitors, against the current
        # tree, and report whether the recorded violation class re-appears.  Evidence is not rewritten.
        with open(args.replay) as f:
            rec = json.load(f)
        os.environ["VERIF_EVIDENCE_DIR"] = tempfile.mkdtemp(prefix="vmon-replay-ev-")
        os.environ["VERIF_REPLAY_DIR"] = tempfile.mkdtemp(prefix="vmon-replay-")
        cmd = [sys.executable, "-B", os.path.join(HERE, "main.py"), pid, "--tier", rec.get("tier", "quick"), "--seed", str(rec.get("seed", 0))]
        p = subprocess.run(cmd, env=dict(os.environ), capture_output=True, text=True)
        again = [l for l in p.stdout.splitlines() if l.strip().startswith("key=" + rec.get("key", "\0"))]
        print(f"replay of {args.replay}: recorded key {rec.get('key')}")
        print(f"  recorded: {rec.get('what', '')[:300]}")
        if again:
            print(f"  REPRODUCED: {again[0].strip()[:300]}")
            print(f"VIOLATION property={pid} replay={args.replay}")
            return 1
        print(f"  not reproduced on the current tree (check exit {p.returncode})")
        return 0 if p.returncode == 0 else p.returncode
    ctx = core.Ctx(pid, args.tier, args.seed, replay=None)

    nshards = args.shards or getattr(mod, "SHARDS", {}).get(args.tier, 1)
    if nshards <= 1:
        core.guarded(ctx, mod.run, ctx)
    else:
        tmp = tempfile.mkdtemp(prefix=f"vmon-{pid}-")
        procs = []
        for i in range(nshards):
            part = os.path.join(tmp, f"part{i}.json")
            # configuration coverage: the last shard of every sharded check runs under python -O (assert statements in the
            # library are compiled away there; the harness itself contains none)
            # the last shard of every check runs under `python -O` (asserts stripped), the first of a check with three or
            # more shards under `python -OO` (docstrings gone as well: __doc__ is None everywhere)
            flags = ["-B"]
            if getattr(mod, "OPTIMIZED_SHARD", True):
                if i == nshards - 1:
                    flags = ["-B", "-O"]
                elif i == 0 and nshards >= 3:
                    flags = ["-B", "-OO"]
            cmd = [sys.executable] + flags + [os.path.join(HERE, "main.py"), pid, "--tier", args.tier,
                   "--seed", str(args.seed), "--shard", f"{i}/{nshards}", "--partial", part]
            procs.append((i, part, subprocess.Popen(cmd, env=child_env(), stdout=subprocess.PIPE, stderr=subprocess.STDOUT, text=True)))
        limit = getattr(mod, "SHARD_TIMEOUT", {}).get(args.tier, 3600)
        deadline = time.time() + limit
        for i, part, p in procs:
            try:
                out, _ = p.communicate(timeout=max(1, deadline - time.time()))
            except subprocess.TimeoutExpired:
                p.kill()
                out, _ = p.communicate()
                ctx.not_reached(f"shard {i} hit the {limit}s watchdog")
            if out and out.strip():
                sys.stdout.write(f"[shard {i}] " + out.strip().replace("\n", f"\n[shard {i}] ")[-4000:] + "\n")
            if os.path.exists(part):
                with open(part) as f:
                    ctx.merge_partial(json.load(f))
                os.unlink(part)
            else:
                ctx.not_reached(f"shard {i} produced no result (exit {p.returncode})")
        try:
            os.rmdir(tmp)
        except OSError:
            pass
    if hasattr(mod, "finish"):
        core.guarded(ctx, mod.finish, ctx)
    return core.finish(ctx, mod)


if __name__ == "__main__":
    sys.exit(main())
