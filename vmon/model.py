"""Free-abelian-group normal form (DESIGN.md §2.3) and the JSON term language (§2.4).

The model never calls the library's arithmetic: a unit is
    NF(prefix = {base: Fraction exponent}, factors = {base Unit object: int exponent})
and a dimension is a plain tuple of ints computed from the dimension every base unit was
*declared* with.  Named units enter the model through the factor table captured at boot.

Term language (JSON):
    ["u", name]            registered unit by name
    ["fresh", k]           k-th freshly defined base unit of this process
    ["pfx", name, t]       registered prefix (by name) times t
    ["pfxraw", base, exp, t]  anonymous prefix times t
    ["mul", a, b] ["div", a, b] ["pow", a, n] ["root", a, n]
Magnitudes: ["i", int] ["f", float.hex()] ["d", "decimal string"]
"""
from __future__ import annotations

from decimal import Decimal
from fractions import Fraction


import enum as _enum

Power = _enum.IntEnum("Power", {("M" if k < 0 else "P") + str(abs(k)): k for k in range(-6, 7)})


def int_in_disguise(rng, n):
    """the integer n as people also write it: an IntEnum member (named exponents), True / False for 1 / 0"""
    if isinstance(n, int) and not isinstance(n, bool) and -6 <= n <= 6:
        r = rng.random()
        if r < 0.15:
            return Power(n)
        if r < 0.2 and n in (0, 1):
            return bool(n)
    return n


class ModelError(Exception):
    """the model says the operation is undefined (inexact root)"""


class NF:
    __slots__ = ("prefix", "factors", "mixed")

    def __init__(self, prefix=None, factors=None, mixed=False):
        self.prefix = {b: e for b, e in (prefix or {}).items() if e != 0}
        self.factors = {u: e for u, e in (factors or {}).items() if e != 0}
        self.mixed = mixed or len(self.prefix) > 1

    def key(self):
        return (tuple(sorted(self.prefix.items())), tuple(sorted(((id(u), e) for u, e in self.factors.items()))))

    def mul(self, o):
        p = dict(self.prefix)
        for b, e in o.prefix.items():
            p[b] = p.get(b, 0) + e
        f = dict(self.factors)
        for u, e in o.factors.items():
            f[u] = f.get(u, 0) + e
        return NF(p, f, self.mixed or o.mixed)

    def pow(self, n):
        return NF({b: e * n for b, e in self.prefix.items()}, {u: e * n for u, e in self.factors.items()}, self.mixed)

    def div(self, o):
        return self.mul(o.pow(-1))

    def root(self, n):
        if n == 0:
            return NF()
        for e in list(self.prefix.values()) + list(self.factors.values()):
            if Fraction(e) % n != 0:
                raise ModelError("inexact root")
        return NF({b: Fraction(e) / n for b, e in self.prefix.items()},
                  {u: int(Fraction(e) / n) for u, e in self.factors.items()}, self.mixed)

    def prefix_value(self):
        v = Fraction(1)
        for b, e in self.prefix.items():
            e = Fraction(e)
            if e.denominator != 1:
                v *= Fraction(float(b) ** float(e))
            else:
                v *= Fraction(b) ** int(e)
        return v


class Model:
    def __init__(self, boot):
        self.b = boot
        self.m = boot.measured
        self.One = self.m.One
        self.fresh = []  # freshly defined base units of this process

    # ---- reading real objects into the model ------------------------------------------
    def nf_of_unit(self, unit) -> NF:
        p = unit.prefix
        prefix = {} if p.base == 0 else {p.base: _frac(p.exponent)}
        factors = {f: e for f, e in unit.factors.items() if f is not self.One}
        return NF(prefix, factors, mixed=(p.base != 0 and not _is_int(p.exponent)))

    def nf_of_prefix(self, p) -> NF:
        return NF({} if p.base == 0 else {p.base: _frac(p.exponent)})

    def declared_dimension(self, base_unit):
        d = self.b.base_dimension.get(base_unit)
        if d is None:
            d = base_unit.dimension  # defined outside our sight (should not happen)
        return d

    def dim_of_nf(self, nf: NF):
        n = len(self.m.Number.exponents)
        out = [0] * n
        for u, e in nf.factors.items():
            ex = self.declared_dimension(u).exponents
            for i, x in enumerate(ex):
                out[i] += x * e
        return tuple(out)

    def dim_of_unit(self, unit):
        return self.dim_of_nf(self.nf_of_unit(unit))

    # ---- term evaluation ---------------------------------------------------------------
    def unit_by_name(self, name):
        return self.m.Unit._by_name[name]

    def prefix_by_name(self, name):
        return self.m.Prefix._by_name[name]

    def eval_model(self, t) -> NF:
        op = t[0]
        if op == "u":
            return self.nf_of_unit(self.unit_by_name(t[1]))
        if op == "fresh":
            return NF({}, {self.fresh[t[1]]: 1})
        if op == "pfx":
            return self.nf_of_prefix(self.prefix_by_name(t[1])).mul(self.eval_model(t[2]))
        if op == "pfxraw":
            return NF({t[1]: Fraction(_exp(t[2]))}).mul(self.eval_model(t[3]))
        if op == "mul":
            return self.eval_model(t[1]).mul(self.eval_model(t[2]))
        if op == "div":
            return self.eval_model(t[1]).div(self.eval_model(t[2]))
        if op == "pow":
            return self.eval_model(t[1]).pow(t[2])
        if op == "root":
            return self.eval_model(t[1]).root(t[2])
        raise ValueError(f"unknown term {t!r}")

    def eval_real(self, t):
        op = t[0]
        if op == "u":
            return self.unit_by_name(t[1])
        if op == "fresh":
            return self.fresh[t[1]]
        if op == "pfx":
            return self.prefix_by_name(t[1]) * self.eval_real(t[2])
        if op == "pfxraw":
            return self.m.Prefix(t[1], _exp(t[2])) * self.eval_real(t[3])
        if op == "mul":
            return self.eval_real(t[1]) * self.eval_real(t[2])
        if op == "div":
            return self.eval_real(t[1]) / self.eval_real(t[2])
        if op == "pow":
            return self.eval_real(t[1]) ** self.as_int(t[2])
        if op == "root":
            return self.eval_real(t[1]).root(self.as_int(t[2]))
        raise ValueError(f"unknown term {t!r}")

    def as_int(self, n):
        """how an integer exponent is handed to the library; a check may replace this to hand over the same integer
        as a bool or an IntEnum member (both are ints)"""
        return n


def _exp(e):
    """a prefix exponent in the term language: an int, an integral float, or ["d", "3"] for Decimal"""
    if isinstance(e, list):
        return Decimal(e[1])
    return e


def _is_int(e):
    return isinstance(e, int) or (not isinstance(e, bool) and e == int(e))


def _frac(e):
    if isinstance(e, int):
        return Fraction(e)
    if isinstance(e, Decimal):
        return Fraction(e)
    return Fraction(e)


# ---- magnitudes -------------------------------------------------------------------------

def enc_mag(x):
    if isinstance(x, bool):
        raise TypeError
    if isinstance(x, int):
        return ["i", x]
    if isinstance(x, float):
        return ["f", x.hex()]
    if isinstance(x, Decimal):
        return ["d", str(x)]
    raise TypeError(type(x))


def dec_mag(t):
    if t[0] == "i":
        return int(t[1])
    if t[0] == "f":
        return float.fromhex(t[1])
    if t[0] == "d":
        return Decimal(t[1])
    raise ValueError(t)


def show(t) -> str:
    """compact human-readable rendering of a term"""
    op = t[0]
    if op == "u":
        return t[1].replace(" ", "_")
    if op == "fresh":
        return f"fresh{t[1]}"
    if op == "pfx":
        return f"{t[1]}*{show(t[2])}"
    if op == "pfxraw":
        return f"P({t[1]},{t[2]})*{show(t[3])}"
    if op in ("mul", "div"):
        return f"({show(t[1])}{'*' if op == 'mul' else '/'}{show(t[2])})"
    if op == "pow":
        return f"{show(t[1])}**{t[2]}"
    if op == "root":
        return f"{show(t[1])}.root({t[2]})"
    return repr(t)
