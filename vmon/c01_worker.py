"""C01 worker: one random history of public operations in a fresh interpreter.

Monitors: (i) post-condition on Unit.__init__ at the moment a dimension becomes permanent,
(ii) a sweep of the intern tables after every step, (iii) a probe panel evaluated at the
end, whose dimensions the parent compares across histories.

    python c01_worker.py '{"seed": 1, "steps": 30, "define_dimension": false, "probes": [...terms...]}'
"""
from __future__ import annotations

import json
import os
import random
import sys

HERE = os.path.dirname(os.path.abspath(__file__))
sys.path.insert(0, os.path.dirname(HERE))

from vmon import model as M  # noqa: E402


def main():
    spec = json.loads(sys.argv[1])
    out = {"violations": [], "counts": {}, "probes": {}, "fatal": None, "shape": []}
    try:
        run(spec, out)
    except BaseException as e:  # noqa
        import traceback

        out["fatal"] = f"{type(e).__name__}: {e}\n{traceback.format_exc()[-2000:]}"
    json.dump(out, sys.stdout)


def run(spec, out):
    rng = random.Random(spec["seed"])
    counts = out["counts"]

    def count(k, n=1):
        counts[k] = counts.get(k, 0) + n

    def violation(key, what, case=None):
        count("violations")
        if sum(1 for v in out["violations"] if v["key"] == key) < 2:
            out["violations"].append({"key": key, "what": what, "case": case})

    from vmon import boot, gen

    TEXTS = ("hh", "TR", "cd", "Pa", "ha", "min.", "nmi.", "kn", "Mm", "pt", "ft", "dB", "Gi", "au", "Th")

    def between(name):
        # a program that already parses unit texts while only some of the unit modules are imported
        if spec.get("parse_between_imports"):
            for text in TEXTS:
                try:
                    (m_.Unit.parse if rng.random() < 0.7 else (lambda t: m_.Quantity.parse("3 " + t)))(text)
                    count("texts_parsed_between_imports")
                except Exception:
                    pass

    import measured as m_
    b = boot.boot(order=spec.get("order"), between=between)
    if b.errors:
        out["fatal"] = f"import errors {b.errors[:2]}"
        return
    b.recording = False
    m = b.measured
    Unit, Dimension, Quantity = m.Unit, m.Dimension, m.Quantity
    mdl = M.Model(b)
    pools = gen.Pools(b, mdl, None)
    One = m.One

    def model_dim(factors):
        n = len(m.Number.exponents)
        vec = [0] * n
        for f, e in factors.items():
            if f is One:
                continue
            ex = mdl.declared_dimension(f).exponents
            for i, x in enumerate(ex):
                vec[i] += x * e
        return tuple(vec)

    # ---- (i) invariant at the hook: first initialisation of a unit -------------------------------
    orig_init = Unit.__init__
    measured_file = m.__file__

    def call_site():
        f = sys._getframe(2)
        while f is not None:
            code = f.f_code
            private = (code.co_name.startswith("_") and not code.co_name.endswith("__")) or "<locals>" in getattr(code, "co_qualname", "")  # helpers and wrappers come and go: name the public caller
            if code.co_filename.startswith(os.path.dirname(measured_file)) and code.co_name not in ("__init__", "__new__", "init_monitor") and not private:
                qual = getattr(code, "co_qualname", code.co_name)
                return qual
            f = f.f_back
        return "outside-library"

    def init_monitor(self, prefix, factors, dimension, name=None, symbol=None):
        first = not getattr(self, "_initialized", True)
        r = orig_init(self, prefix, factors, dimension, name, symbol)
        if first and factors:
            site = call_site()
            count(f"registrations/{site}")
            want = model_dim(factors)
            got = tuple(dimension.exponents)
            if want != got:
                violation(f"C01:registered-with-wrong-dimension:{site}",
                          f"{site} registered {self!r}: dimension {dimension} but the factors' dimensions multiply to exponents {want}",
                          {"site": site, "step": state["step"], "op": state["op"]})
        return r

    Unit.__init__ = init_monitor
    state = {"step": -1, "op": None}

    # ---- (ii) sweep ----------------------------------------------------------------------------------
    swept = set()

    def sweep(full=False):
        n = 0
        for key, u in list(Unit._known.items()):
            if not full and id(u) in swept:
                continue
            swept.add(id(u))
            n += 1
            if not getattr(u, "_initialized", False):
                continue
            if len(u.factors) == 1 and next(iter(u.factors)) is u:
                continue  # base units are axioms
            want = model_dim(u.factors)
            if tuple(u.dimension.exponents) != want:
                violation("C01:table-entry-with-wrong-dimension", f"after step {state['step']} ({state['op']}): {u!r} reports {u.dimension} but its factors multiply to {want}",
                          {"step": state["step"], "op": state["op"], "unit": repr(u)})
            if Unit(u.prefix, dict(u.factors), u.dimension) is not u:  # the table answers for this unit's own prefix and factors with another object
                violation("C01:unit-stored-under-foreign-key", f"{u!r}", {"step": state["step"]})
        count("units_swept", n)
        for key, d in list(Dimension._known.items()):
            if tuple(d.exponents) != tuple(key):
                violation("C01:dimension-stored-under-foreign-key", f"{d!r} under {key}", {})

    # ---- operations ------------------------------------------------------------------------------------
    hostile_names = [n for n in (pools.mixed_sign_base + pools.derived_base) if n in pools.units]
    plain = pools.plain_names
    used_terms = []

    def rand_term(depth=2):
        r = rng.random()
        if depth == 0 or r < 0.3:
            name = rng.choice(hostile_names) if (hostile_names and rng.random() < 0.55) else rng.choice(plain)
            t = ["u", name]
            if rng.random() < 0.35:
                t = ["pfx", rng.choice(pools.si_prefixes), t]
            return t
        if r < 0.55:
            return ["mul", rand_term(depth - 1), rand_term(depth - 1)]
        if r < 0.8:
            return ["div", rand_term(depth - 1), rand_term(depth - 1)]
        return ["pow", rand_term(depth - 1), rng.choice([-3, -2, -1, 2, 3])]

    def value(t):
        u = mdl.eval_real(t)
        used_terms.append(t)
        return u

    def q_of(t):
        return Quantity(rng.choice([1, 2.5, -3, 1000]), value(t))

    ops = ["bare_prefix", "as_ratio", "format_ratio", "qformat_ratio", "str", "pretty", "html", "qhtml", "parse_str", "qparse_str", "arith", "root", "in_unit", "eq", "lt",
           "json", "pickle", "cli", "level", "quantify", "qpretty", "add", "render_other", "other_operands", "other_operands"]
    if spec.get("define_dimension"):
        ops += ["define_dimension"]
    foreign = list(spec.get("foreign_pickles", []))
    if foreign:
        ops += ["unpickle_foreign", "unpickle_foreign"]
    other_schema = list(spec.get("other_schema", []))
    if other_schema:
        ops += ["other_schema", "other_schema"]

    from measured.json import MeasuredJSONDecoder, MeasuredJSONEncoder

    def do(op):
        t = rand_term(rng.choice([1, 2, 2, 3]))
        if op == "as_ratio":
            value(t).as_ratio()
        elif op == "format_ratio":
            format(value(t), "/")
        elif op == "qformat_ratio":
            f"{q_of(t)::/}"
        elif op == "str":
            str(value(t))
        elif op == "pretty":
            from IPython.lib.pretty import pretty
            pretty(value(t))
        elif op == "qpretty":
            from IPython.lib.pretty import pretty
            pretty(q_of(t))
        elif op == "html":
            value(t)._repr_html_()
        elif op == "qhtml":
            q_of(t)._repr_html_()
        elif op == "parse_str":
            Unit.parse(str(value(t)))
        elif op == "qparse_str":
            Quantity.parse(str(q_of(t)))
        elif op == "arith":
            a, c = value(t), value(rand_term(2))
            rng.choice([lambda: a * c, lambda: a / c, lambda: c / a, lambda: (a * c) ** -2, lambda: (1 * a) * (2 * c), lambda: (3 * a) / (2 * c)])()
        elif op == "other_operands":
            # every binary operator with a plain number, a prefix, a quantity or a level on either side of a unit: most are
            # refused (TypeError) today; whichever answers, answers with units whose dimension is the product of their factors'
            # (the registration monitor and the table sweep judge what they leave behind)
            from decimal import Decimal as _D
            import operator as _o
            a = value(t)
            other = rng.choice([60, 2.5, _D("1.5"), 6.02214076e23, m.Prefix._by_name[rng.choice(pools.si_prefixes)], q_of(rand_term(2)), True, -1])
            fn = rng.choice([_o.truediv, _o.mul, _o.add, _o.sub, _o.pow, _o.floordiv, _o.mod, _o.matmul])
            for x, y in ((other, a), (a, other)):
                try:
                    r = fn(x, y)
                    count(f"other_operand_operations/{fn.__name__}/answered")
                    u = getattr(r, "unit", r)
                    if isinstance(u, Unit):
                        want = model_dim(u.factors) if not (len(u.factors) == 1 and next(iter(u.factors)) is u) else tuple(u.dimension.exponents)
                        if tuple(u.dimension.exponents) != want:
                            violation("C01:operator-result-with-wrong-dimension", f"{x!r} {fn.__name__} {y!r} gave {r!r}: its unit reports {u.dimension}, the factors multiply to {want}",
                                      {"operator": fn.__name__})
                except Exception as e:
                    count(f"other_operand_operations/{fn.__name__}/{type(e).__name__}")
        elif op == "bare_prefix":
            # units whose base-unit factors have all cancelled but which still carry a prefix ((k*m)/m,
            # Prefix*One), used as either operand of further arithmetic
            a, c = value(t), value(rand_term(2))
            p1 = m.Prefix._by_name[rng.choice(pools.si_prefixes)]
            bare = rng.choice([lambda: (p1 * a) / a, lambda: p1 * One, lambda: a / (p1 * a), lambda: (p1 * a) ** 2 / a**2])()
            rng.choice([lambda: bare * c, lambda: c * bare, lambda: bare / c, lambda: c / bare, lambda: bare**2 * c, lambda: (bare * c) ** -1,
                        lambda: (2 * bare) * (3 * c), lambda: (bare * c).as_ratio(), lambda: str(bare * c)])()
        elif op == "root":
            u = value(t)
            k = rng.choice([2, 3, -2, -1])
            rng.choice([lambda: (u**k).root(k), lambda: u.root(k), lambda: (u ** abs(k) / u).root(k), lambda: (4 * u**2).root(2)])()
        elif op == "in_unit":
            fa = pools.random_factors(rng, hostile=0.7)
            fb = pools.same_dimension_alternative(rng, fa, compose_prob=0.4)
            ta, tb = pools.factors_term(fa), pools.factors_term(fb)
            (2 * value(ta)).in_unit(value(tb))
        elif op in ("eq", "lt", "add"):
            fa = pools.random_factors(rng, hostile=0.7, max_factors=2)
            fb = pools.same_dimension_alternative(rng, fa, compose_prob=0.3)
            a, c = 2 * value(pools.factors_term(fa)), 3 * value(pools.factors_term(fb))
            (a == c) if op == "eq" else (a < c) if op == "lt" else (a + c)
        elif op == "json":
            u = value(t)
            json.loads(json.dumps(u, cls=MeasuredJSONEncoder), cls=MeasuredJSONDecoder)
            json.loads(json.dumps(2 * u, cls=MeasuredJSONEncoder), cls=MeasuredJSONDecoder)
        elif op == "pickle":
            import copy
            import pickle
            u = value(t)
            pickle.loads(pickle.dumps(u, rng.choice([2, 3, 4, 5])))
            copy.deepcopy(5 * u)
        elif op == "cli":
            import contextlib
            import io
            from measured import cli
            if rng.random() < 0.3:
                # the program works in natural units: an equivalence across dimensions (c = 1: a second is 299792458 metres;
                # or a mass is an energy) is a legal public declaration - equate never checks dimensions
                a_, b_, k_ = rng.choice([("second", "meter", 299792458), ("gram", "joule", 89875517873681.764), ("kelvin", "joule", 1.380649e-23), ("meter", "second", 3.3e-9)])
                try:
                    Unit._by_name[a_].equals(k_ * Unit._by_name[b_])
                    count("cross_dimension_equivalences_declared")
                except Exception as e:
                    count(f"cross_dimension_equivalence_refused/{type(e).__name__}")
            texts = ["mile", "g-force", "BTU", "m^2", "lbf/in.^2", "hp", "acre", "kg", "J/s", "ft.^3", "N", "W", "cal"]
            texts += [f"{s_}^{e_}" for s_ in ("s", "m", "g", "K", "J", "sr", "rad", "ft.") for e_ in (2, 3, 5, -1, -2, 7)]
            with contextlib.redirect_stdout(io.StringIO()):
                for _ in range(3):
                    try:
                        cli.print_quantity(f"{rng.choice([1, 5, 2.5])} " + rng.choice(texts))
                        count("command_line_listings")
                    except SystemExit:
                        pass
                    except Exception as e:
                        count(f"command_line_raised/{type(e).__name__}")
        elif op == "render_other":
            # every other rendering that takes a unit apart: the unit's dimension and prefix, measurements (all
            # uncertainty styles), levels and logarithmic units, as text, format(), pretty and MathML
            from IPython.lib.pretty import pretty
            u = value(t)
            q = q_of(t)
            mm = m.Measurement(q, rng.choice([0, 0.5, 2]))
            ref = rng.choice([1 * m.Unit._by_name["watt"], 1 * m.Unit._by_name["volt"]])
            lu = rng.choice([m.Decibel, m.Bel, m.Neper])[ref]
            lv = (rng.choice([2, 10, 0.5]) * ref).level(lu)
            things = [u.dimension, u.prefix, mm, lv, lu, lu.logarithm]
            x = rng.choice(things)
            rng.choice([lambda: str(x), lambda: repr(x), lambda: pretty(x), lambda: x._repr_html_(), lambda: format(mm, rng.choice(["", "::/", ":±:", ":%:", ".3f:±.1f:/", ".2f:%.1f:"])),
                        lambda: format(u.dimension), lambda: f"{q:.3f:/}", lambda: (mm.uncertainty_ratio, mm.uncertainty_percent)])()
        elif op == "level":
            ref = rng.choice([1 * m.Unit._by_name["watt"], 1 * m.Unit._by_name["volt"], 20 * (m.Prefix._by_name["micro"] * m.Unit._by_name["pascal"])])
            lu = rng.choice([m.Decibel, m.Bel, m.Neper])[ref]
            (rng.choice([2, 10, 0.5]) * ref).level(lu).quantify()
        elif op == "quantify":
            u = value(t)
            u.quantify()
            (7 * u).unprefixed()
        elif op == "unpickle_foreign":
            # a compound unit pickled in ANOTHER process and never built here: it enters the intern table
            # through __new__ + restored slot state, without __init__
            import base64
            import pickle
            if not foreign:
                return
            item = foreign.pop()
            term, blob, codec = item if len(item) == 3 else (item[0], item[1], "pickle")
            before = len(Unit._known)
            if codec == "json":
                how = rng.choice(["decoder", "pydantic"])
                if how == "decoder":
                    u = json.loads(blob, cls=MeasuredJSONDecoder)
                else:
                    from pydantic import TypeAdapter
                    u = TypeAdapter(Unit).validate_python(json.loads(blob))
                count(f"foreign_json_documents_loaded/{how}")
            else:
                u = pickle.loads(base64.b64decode(blob))
            count("foreign_pickles_loaded")
            if len(Unit._known) > before:
                count("registrations/unpickled-from-another-process")
            want = mdl.dim_of_nf(mdl.eval_model(term))
            if tuple(u.dimension.exponents) != tuple(want):
                violation("C01:unpickled-unit-has-wrong-dimension", f"unit unpickled from another process {u!r}: model dimension {want}", {"term": term})
            again = mdl.eval_real(term)
            if again is not u:
                violation("C01:unpickled-unit-is-not-the-singleton", f"{M.show(term)} evaluated after unpickling is another object than the unpickled one", {"term": term})
            used_terms.append(term)
        elif op == "other_schema":
            # stored data of a program that declared a unit of this name as a pure number is read first; then this program
            # declares the unit of that name as a length (time, mass).  Whatever the library makes of the two - one object or
            # two - every unit anybody holds afterwards reports the product of its factors' dimensions
            import base64
            import pickle
            if not other_schema:
                return
            name, symbol, blob = other_schema.pop()
            try:
                stored = pickle.loads(base64.b64decode(blob))
                count("other_schema_data_loaded")
            except Exception as e:
                count(f"other_schema_data_refused/{type(e).__name__}")
                return
            try:
                mine = Unit.define(rng.choice([m.Length, m.Time, m.Mass]), name, symbol)
                count("declared_after_loading_other_schema_data")
            except Exception as e:
                count(f"declaration_after_other_schema_data_refused/{type(e).__name__}")
                mine = None
            held = [getattr(x, "unit", x) for x in stored]
            if mine is not None:
                held += [mine, mine / Unit._by_name["second"], mine ** 2 * Unit._by_name["meter"], (5 * mine / Unit._by_name["second"]).unit]
            for u in held:
                want = model_dim(u.factors) if not (len(u.factors) == 1 and next(iter(u.factors)) is u) else tuple(u.dimension.exponents)
                count("units_checked_after_other_schema_data")
                if tuple(u.dimension.exponents) != want:
                    violation("C01:dimension-differs-from-product-of-factors:after-loading-data-of-another-schema",
                              f"{u!r} reports {u.dimension} but its factors multiply to exponents {want} (stored data declared {name!r} as a number, this program as a "
                              f"{getattr(getattr(mine, 'dimension', None), 'name', None)})", {"name": name})
        elif op == "define_dimension":
            k = counts.get("dimensions_defined", 0)
            d = Dimension.define(f"zqc01dim{k}", f"Zq{k}")
            d.unit(f"zqc01unit{k}", f"zqc01unit{k}")
            count("dimensions_defined")

    steps = spec.get("steps", 30)
    for step in range(steps):
        op = rng.choice(ops)
        state["step"], state["op"] = step, op
        out["shape"].append(op)
        try:
            do(op)
            count(f"ops/{op}/ok")
        except Exception as e:
            count(f"ops/{op}/{type(e).__name__}")
        sweep()
    state["step"], state["op"] = steps, "final"
    sweep(full=True)
    count("units_in_table_at_end", len(Unit._known))

    # ---- (iii) probe panel --------------------------------------------------------------------------------
    width = len(b.measured.Number.exponents)
    base_width = spec.get("base_width", width)
    for t in spec.get("probes", []) + [t for t in used_terms if rng.random() < 0.25][:40]:
        key = json.dumps(t)
        try:
            u = mdl.eval_real(t)
            got = list(u.dimension.exponents)[:base_width]
            want = list(mdl.dim_of_nf(mdl.eval_model(t)))[:base_width]
            out["probes"][key] = got
            count("probes_evaluated")
            if got != want:
                violation("C01:expression-has-wrong-dimension", f"{M.show(t)} evaluates to dimension exponents {got}, model {want}", {"term": t})
        except M.ModelError:
            pass
        except Exception as e:
            out["probes"][key] = f"raise {type(e).__name__}"
    # the same for unit *texts*: what a text parses to (its dimension) after everything is imported does not depend on
    # what was parsed while only part of the modules were there
    for text in TEXTS:
        try:
            u = Unit.parse(text)
            out["probes"]["text:" + text] = list(u.dimension.exponents)[:base_width]
            count("text_probes_evaluated")
        except Exception as e:
            out["probes"]["text:" + text] = f"raise {type(e).__name__}"
    Unit.__init__ = orig_init


if __name__ == "__main__":
    main()
