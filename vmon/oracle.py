"""Exact unit-size oracle (DESIGN.md §2.2).

Built from the intercepted declaration log only: it never reads `conversions._ratios` and
never calls `convert`.  A unit's size is  value × Π root^q  where the roots are the free
base units of each connected component (SI base units first) and `value` is an exact
`Fraction` (or an 80-digit decimal turned into a Fraction when a k-th root is irrational).

Where the declared numbers are mutually inconsistent the oracle reports an *interval*
[lo, hi] per base unit: the set of sizes obtained from every neighbouring spanning tree
(tree − f + e for a non-tree declaration e and a tree declaration f).
"""
from __future__ import annotations

import functools
from decimal import Context, Decimal, localcontext
from fractions import Fraction

# the harness's own high-precision arithmetic runs in a *local* context: the process-wide decimal context stays the
# default one (28 digits), because the library under test computes Decimal magnitudes under whatever is ambient
HP = Context(prec=80)


def high_precision(fn):
    @functools.wraps(fn)
    def wrapper(*a, **k):
        with localcontext(HP):
            return fn(*a, **k)
    return wrapper

CONSISTENT_EPS = 5e-6  # smaller disagreements (per unit of degree) are absorbed by the 1e-5-per-degree tolerance


def F(x) -> Fraction:
    if isinstance(x, Fraction):
        return x
    if isinstance(x, Decimal):
        return Fraction(x)
    return Fraction(x)  # int exact; float -> the exact binary rational it is


@high_precision
def prefix_value(p) -> Fraction:
    """Exact value of a Prefix object (read from its fields, not from quantify())."""
    if p.base == 0:
        return Fraction(1)
    e = p.exponent
    if isinstance(e, int) or (isinstance(e, float) and e == int(e)):
        return Fraction(p.base) ** int(e)
    if isinstance(e, Decimal):
        if e == e.to_integral_value():
            return Fraction(p.base) ** int(e)
        return Fraction(Decimal(p.base) ** e)
    try:
        return Fraction(float(p.base) ** float(e))
    except OverflowError:
        return Fraction(Decimal(p.base) ** Decimal(repr(float(e))))


def prefix_is_exact(p) -> bool:
    e = p.exponent
    return p.base == 0 or isinstance(e, int) or e == int(e)


@high_precision
def exact_root(val: Fraction, k: int) -> Fraction:
    """k-th root of a positive Fraction, exact when it exists, else to 80 digits."""
    neg = k < 0
    k = abs(k)
    if k == 1:
        return 1 / val if neg else val

    def iroot(n):
        if n == 0:
            return 0
        r = int(Decimal(n) ** (Decimal(1) / Decimal(k)))
        for c in (r - 1, r, r + 1, r + 2):
            if c >= 0 and c**k == n:
                return c
        return None

    a, b = iroot(val.numerator), iroot(val.denominator)
    if a is not None and b is not None and b != 0:
        r = Fraction(a, b)
    else:
        d = (Decimal(val.numerator) / Decimal(val.denominator)) ** (Decimal(1) / Decimal(k))
        r = Fraction(d)
    return 1 / r if neg else r


def _log10(fr: Fraction) -> float:
    import math

    return (math.log10(fr.numerator) if fr.numerator > 0 else 0.0) - math.log10(fr.denominator)


class Size:
    __slots__ = ("value", "roots")

    def __init__(self, value, roots=None):
        self.value = value
        self.roots = roots or {}

    def pow(self, e):
        if isinstance(e, int):
            return Size(self.value**e, {r: q * e for r, q in self.roots.items()})
        # rational exponent 1/k
        return Size(exact_root(self.value, int(1 / e)), {r: q * e for r, q in self.roots.items()})

    def mul(self, o):
        roots = dict(self.roots)
        for r, q in o.roots.items():
            roots[r] = roots.get(r, 0) + q
            if roots[r] == 0:
                del roots[r]
        return Size(self.value * o.value, roots)

    def scaled(self, c):
        return Size(self.value * c, self.roots)


def equation(au, am, bu, bm, One):
    """am·au = bm·bu   →   Π size(f)^e = const   over base-unit factors f"""
    terms = {}
    const = F(bm) / F(am)
    const *= prefix_value(bu.prefix) / prefix_value(au.prefix)
    for f, e in au.factors.items():
        terms[f] = terms.get(f, 0) + e
    for f, e in bu.factors.items():
        terms[f] = terms.get(f, 0) - e
    terms = {f: e for f, e in terms.items() if e and f is not One}
    return terms, const


def _solve(eqs, preferred_roots, order=None, auto_roots=True):
    """eqs: list of (terms, const, idx).  Returns (size dict, tree idx list, nontree, roots)."""
    size = {}
    roots = []
    for r in preferred_roots:
        size[r] = Size(Fraction(1), {r: Fraction(1)})
        roots.append(r)
    tree = []
    pending = list(eqs if order is None else [eqs[i] for i in order])
    while True:
        progress = True
        while progress:
            progress = False
            rest = []
            for terms, const, idx in pending:
                unk = [f for f in terms if f not in size]
                if len(unk) == 1:
                    u = unk[0]
                    e = terms[u]
                    val = Size(const)
                    for f, ee in terms.items():
                        if f is not u:
                            val = val.mul(size[f].pow(-ee))
                    if e == 1:
                        size[u] = val
                    elif e == -1:
                        size[u] = val.pow(-1)
                    else:
                        size[u] = val.pow(Fraction(1, e))
                    tree.append(idx)
                    progress = True
                elif unk:
                    rest.append((terms, const, idx))
                else:
                    rest.append((terms, const, idx))
            pending = rest
        unsolved = [(t, c, i) for t, c, i in pending if any(f not in size for f in t)]
        if not unsolved or not auto_roots:
            break
        # open a new component: the first unknown of the first unsolved equation is free
        t, c, i = unsolved[0]
        r = next(f for f in t if f not in size)
        size[r] = Size(Fraction(1), {r: Fraction(1)})
        roots.append(r)
    nontree = [(t, c, i) for t, c, i in pending if all(f in size for f in t)]
    unsolved = [(t, c, i) for t, c, i in pending if any(f not in size for f in t)]
    return size, tree, nontree, unsolved, roots


def residual(terms, const, size):
    """(Π size^e)/const as (Fraction value, root vector); consistent ⇔ value==1, roots=={}"""
    lhs = Size(Fraction(1))
    for f, e in terms.items():
        lhs = lhs.mul(size[f].pow(e))
    return lhs.value / const, lhs.roots


class Oracle:
    def __init__(self, measured, decls, scales=(), base_units=None, preferred_roots=None, intervals=True):
        self.m = measured
        One = measured.One
        self.One = One
        self.decls = list(decls)
        self.scales = list(scales)
        self.eqs = []
        self.eq_decl = {}
        for d in self.decls:
            terms, const = equation(d["au"], d["am"], d["bu"], d["bm"], One)
            if not terms:
                continue  # One = 1 One and other dimensionless-number identities
            idx = len(self.eqs)
            self.eqs.append((terms, const, idx))
            self.eq_decl[idx] = d
        self.offset_units = set()
        for s in self.scales:
            if s["zero_u"] is None:
                continue
            terms, const = equation(s["scale"], 1, s["zero_u"], 1, One)
            idx = len(self.eqs)
            self.eqs.append((terms, const, idx))
            self.eq_decl[idx] = dict(seq=s["seq"], mod=s["mod"], am=1, au=s["scale"], bm=1, bu=s["zero_u"], scale=True)
            self.offset_units.add(s["scale"])
        if preferred_roots is None:
            preferred_roots = []
            for name in ("meter", "second", "gram", "coulomb", "kelvin", "mole", "candela", "radian", "bit"):
                u = measured.Unit._by_name.get(name)
                if u is not None:
                    preferred_roots.append(u)
        self.size, self.tree, self.nontree, self.unsolved, self.roots = _solve(self.eqs, preferred_roots)
        self.solved_units = set(self.size)
        # any base unit never mentioned in a declaration is its own root
        for u in (base_units if base_units is not None else measured.Unit._base):
            if u not in self.size and u is not One:
                self.size[u] = Size(Fraction(1), {u: Fraction(1)})
                self.roots.append(u)
        self.lo = {u: s.value for u, s in self.size.items()}
        self.hi = dict(self.lo)
        self.residuals = {}
        self.resolves = 0
        self.root_mismatch = []
        for terms, const, idx in self.nontree:
            r, rootvec = residual(terms, const, self.size)
            self.residuals[idx] = r
            if rootvec:
                self.root_mismatch.append(idx)
        if intervals:
            self._intervals()

    def _intervals(self):
        for terms, const, idx in self.nontree:
            r = self.residuals[idx]
            if idx in self.root_mismatch or abs(float(r) - 1) < CONSISTENT_EPS:
                continue
            for drop in self.tree:
                order = [idx] + [i for i in range(len(self.eqs)) if i != idx and i != drop]
                s2, t2, _, uns2, roots2 = _solve(self.eqs, self.roots, order, auto_roots=False)
                self.resolves += 1
                if any(u not in s2 for u in self.solved_units):
                    continue  # dropping this declaration disconnects something
                for u, v in s2.items():
                    if u in self.lo and v.roots == self.size[u].roots:
                        if v.value < self.lo[u]:
                            self.lo[u] = v.value
                        if v.value > self.hi[u]:
                            self.hi[u] = v.value

    # ---- queries -------------------------------------------------------------------
    def knows(self, unit) -> bool:
        return all(f in self.size or f is self.One for f in unit.factors)

    def unit_size(self, unit):
        """(lo, hi, rootvec) of a unit read from its prefix and factors"""
        p = prefix_value(unit.prefix)
        lo = hi = p
        roots = {}
        for f, e in unit.factors.items():
            if f is self.One:
                continue
            s = self.size[f]
            if e > 0:
                lo *= self.lo[f] ** e
                hi *= self.hi[f] ** e
            else:
                lo *= self.hi[f] ** e
                hi *= self.lo[f] ** e
            for r, q in s.roots.items():
                roots[r] = roots.get(r, 0) + q * e
        roots = {r: q for r, q in roots.items() if q != 0}
        return lo, hi, roots

    def without_dimensionless(self, unit, declared_dimension):
        """(prefix, factors) of `unit` with every non-One base factor of declared
        dimension Number removed"""
        class _U:  # minimal stand-in with the two fields unit_size reads
            pass
        u = _U()
        u.prefix = unit.prefix
        u.factors = {f: e for f, e in unit.factors.items() if f is self.One or any(declared_dimension(f).exponents)}
        return u

    def dynamic_range(self, unit) -> float:
        """Σ |e|·|log10 size(f)| + |log10 prefix|: an upper bound (in decades) on any partial
        product the planner can form from this unit's factors"""
        import math

        p = prefix_value(unit.prefix)
        total = abs(math.log10(p)) if p > 0 else 0.0
        for f, e in unit.factors.items():
            if f is self.One:
                continue
            v = self.size[f].value
            total += abs(e) * abs(_log10(v))
        return total

    def ratio(self, src, dst):
        """size(src)/size(dst) as an interval (lo, hi), or None when the declarations do
        not connect the two units."""
        if not (self.knows(src) and self.knows(dst)):
            return None
        a_lo, a_hi, ar = self.unit_size(src)
        b_lo, b_hi, br = self.unit_size(dst)
        if ar != br:
            return None
        return a_lo / b_hi, a_hi / b_lo

    def si_value(self, magnitude, unit):
        """(lo, hi, rootvec): the physical value in units of the component roots"""
        lo, hi, roots = self.unit_size(unit)
        m = F(magnitude)
        if m >= 0:
            return m * lo, m * hi, roots
        return m * hi, m * lo, roots

    def degree(self, *units) -> int:
        return max(1, sum(abs(e) for u in units for f, e in u.factors.items() if f is not self.One))

    def uses_offset(self, unit) -> bool:
        return any(f in self.offset_units for f in unit.factors)


def within(value, lo, hi, rel, abs_=0):
    """lo·(1−rel) − abs ≤ value ≤ hi·(1+rel) + abs, sign-aware, exact arithmetic"""
    v = F(value)
    rel = F(rel)
    a = F(abs_)
    lo2 = lo * (1 - rel) if lo >= 0 else lo * (1 + rel)
    hi2 = hi * (1 + rel) if hi >= 0 else hi * (1 - rel)
    return lo2 - a <= v <= hi2 + a


_ORACLE = None


def shipped_oracle(b):
    global _ORACLE
    if _ORACLE is None:
        _ORACLE = Oracle(b.measured, b.decls, b.scales)
    return _ORACLE
