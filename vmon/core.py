"""Shared run context: counters, verdicts, evidence, known findings, sharding, replay files.

A property module exposes

    ID, LEVEL, RULE, ASSUMPTIONS            constants
    run(ctx)                                 the workload + monitors
    SHARDS = {"quick": n, "thorough": m}     optional: number of independent sub-runs
    finish(ctx)                              optional: run once after shards are merged

Nothing here imports the library under test.
"""
from __future__ import annotations

import hashlib
import json
import os
import random
import sys
import time
import traceback

VERIF = os.path.dirname(os.path.dirname(os.path.abspath(__file__)))
REPO = os.environ.get("VERIF_REPO", "/repo")
# self-tests against mutated scratch trees must not overwrite the committed evidence
EVIDENCE_DIR = os.environ.get("VERIF_EVIDENCE_DIR") or os.path.join(VERIF, "evidence")
REPLAY_DIR = os.environ.get("VERIF_REPLAY_DIR") or os.path.join(VERIF, "replays")
KNOWN_FILE = os.path.join(VERIF, "known_findings.json")

MAX_SAMPLES = 12
MAX_VIOLATION_RECORDS = 40


class Inconclusive(Exception):
    pass


def sf(x):
    """float(x) that cannot raise: used when a (possibly mutated) tree produced an absurd number"""
    try:
        return float(x)
    except OverflowError:
        return float("inf") if x > 0 else float("-inf")
    except (TypeError, ValueError):
        return float("nan")


def safe_repr(x):
    """str(x) for a sample or a message; an object the library cannot render (a known finding or not the property at
    hand) must not take the harness down"""
    try:
        return str(x)
    except Exception as e:
        return f"<{type(x).__name__} that cannot be rendered: {type(e).__name__}>"


def short_hash(obj) -> str:
    return hashlib.sha1(repr(obj).encode("utf-8", "backslashreplace")).hexdigest()[:14]


def jsonable(x):
    """Best-effort conversion of a case description into JSON."""
    from decimal import Decimal
    from fractions import Fraction

    if isinstance(x, (str, int, bool)) or x is None:
        return x
    if isinstance(x, float):
        if x != x or x in (float("inf"), float("-inf")):
            return repr(x)
        return x
    if isinstance(x, (Decimal, Fraction)):
        return f"{type(x).__name__}({x})"
    if isinstance(x, dict):
        return {str(k): jsonable(v) for k, v in x.items()}
    if isinstance(x, (list, tuple, set, frozenset)):
        return [jsonable(v) for v in x]
    return repr(x)


def load_known(pid):
    try:
        with open(KNOWN_FILE) as f:
            data = json.load(f)
    except FileNotFoundError:
        return []
    return [e for e in data.get("findings", []) if e.get("property") == pid]


class Ctx:
    def __init__(self, pid, tier, seed, shard=0, nshards=1, replay=None):
        self.pid = pid
        self.tier = tier
        self.seed = seed
        self.shard = shard
        self.nshards = nshards
        self.replay = replay
        self.rng = random.Random((seed * 1000003 + shard * 7919 + 17) & 0xFFFFFFFF)
        self.cov: dict = {}
        self.distinct_keys: set = set()
        self.samples: list = []
        self.violations: list = []  # dicts: key, what, case
        self.violation_count = 0
        self.known_hits: dict = {}  # key -> count
        self.known_witness: dict = {}  # key -> True/False (witness re-observed)
        self.inconclusive: list = []
        self.lines: dict = {}  # function qualname -> set(lines reached)
        self.lines_total: dict = {}
        self.t0 = time.time()
        self.known = load_known(pid)
        self.known_keys = {e["key"] for e in self.known if e.get("status") == "known"}
        self.extra: dict = {}

    # ---- budgets -------------------------------------------------------------------
    def scale(self, quick, thorough):
        """Number of cases for this shard."""
        total = quick if self.tier == "quick" else thorough
        env = os.environ.get("VERIF_SCALE")
        if env:
            total = max(1, int(total * float(env)))
        return max(1, total // self.nshards)

    def time_left(self, quick_s, thorough_s):
        budget = quick_s if self.tier == "quick" else thorough_s
        return budget - (time.time() - self.t0)

    # ---- counters ------------------------------------------------------------------
    def count(self, name, n=1):
        d = self.cov
        parts = name.split("/")
        for p in parts[:-1]:
            d = d.setdefault(p, {})
        d[parts[-1]] = d.get(parts[-1], 0) + n

    def get(self, name, default=0):
        d = self.cov
        for p in name.split("/"):
            if not isinstance(d, dict) or p not in d:
                return default
            d = d[p]
        return d

    def maxi(self, name, value):
        value = float(value)
        key = "max_" + name if not name.startswith("max_") else name
        cur = self.cov.get(key)
        if cur is None or value > cur:
            self.cov[key] = value

    def distinct(self, key, nontrivial=True):
        if nontrivial:
            self.distinct_keys.add(short_hash(key))

    def sample(self, case, force=False):
        if len(self.samples) < MAX_SAMPLES or force:
            self.samples.append(jsonable(case))

    def maybe_sample(self, case, every=997):
        n = self.get("evaluations")
        if len(self.samples) < MAX_SAMPLES and (n % every == 1 or n < 3):
            self.samples.append(jsonable(case))

    # ---- verdicts ------------------------------------------------------------------
    def violation(self, key, what, case=None):
        """Record one observed violation.  `key` is a mechanism key produced by the
        property's classifier; violations whose key is a listed known finding are counted
        but not reported."""
        if key in self.known_keys:
            self.known_hits[key] = self.known_hits.get(key, 0) + 1
            return False
        self.violation_count += 1
        self.extra.setdefault("violations_by_key", {})
        self.extra["violations_by_key"][key] = self.extra["violations_by_key"].get(key, 0) + 1
        if sum(1 for v in self.violations if v["key"] == key) < 2 and len(self.violations) < MAX_VIOLATION_RECORDS:
            self.violations.append({"key": key, "what": what, "case": jsonable(case)})
        return True

    def witness(self, key, still_fails: bool):
        """Result of re-running a known finding's recorded witness."""
        self.known_witness[key] = bool(still_fails)

    def not_reached(self, why):
        self.inconclusive.append(why)

    def require(self, name, minimum=1):
        """The deciding monitor must have been reached; otherwise inconclusive."""
        if self.get(name) < minimum:
            self.not_reached(f"monitor counter {name} = {self.get(name)} < {minimum}")

    # ---- partial results (shards) --------------------------------------------------
    def dump_partial(self):
        return {
            "cov": self.cov,
            "distinct": sorted(self.distinct_keys),
            "samples": self.samples,
            "violations": self.violations,
            "violation_count": self.violation_count,
            "known_hits": self.known_hits,
            "known_witness": self.known_witness,
            "inconclusive": self.inconclusive,
            "lines": {k: sorted(v) for k, v in self.lines.items()},
            "lines_total": self.lines_total,
            "extra": self.extra,
        }

    def merge_partial(self, p):
        _merge_cov(self.cov, p["cov"])
        self.distinct_keys.update(p["distinct"])
        for s in p["samples"]:
            if len(self.samples) < MAX_SAMPLES:
                self.samples.append(s)
        for v in p["violations"]:
            if sum(1 for x in self.violations if x["key"] == v["key"]) < 2 and len(self.violations) < MAX_VIOLATION_RECORDS:
                self.violations.append(v)
        self.violation_count += p["violation_count"]
        for k, v in p["known_hits"].items():
            self.known_hits[k] = self.known_hits.get(k, 0) + v
        for k, v in p["known_witness"].items():
            self.known_witness[k] = self.known_witness.get(k, False) or v
        self.inconclusive.extend(p["inconclusive"])
        for k, v in p["lines"].items():
            self.lines.setdefault(k, set()).update(v)
        self.lines_total.update(p["lines_total"])
        for k, v in p.get("extra", {}).items():
            if isinstance(v, dict):
                _merge_cov(self.extra.setdefault(k, {}), v)
            elif isinstance(v, list):
                self.extra.setdefault(k, []).extend(v)
            else:
                self.extra[k] = v


def _merge_cov(a, b):
    for k, v in b.items():
        if isinstance(v, dict):
            _merge_cov(a.setdefault(k, {}), v)
        elif isinstance(v, bool):
            a[k] = a.get(k, True) and v
        elif isinstance(v, (int, float)):
            if k.startswith("max_"):
                a[k] = max(a.get(k, v), v)
            elif k.startswith("min_"):
                a[k] = min(a.get(k, v), v)
            else:
                a[k] = a.get(k, 0) + v
        elif isinstance(v, list):
            cur = a.setdefault(k, [])
            for x in v:
                if x not in cur and len(cur) < 64:
                    cur.append(x)
        else:
            a[k] = v


def finish(ctx: Ctx, mod) -> int:
    """Write evidence, print verdict lines, return the exit code."""
    os.makedirs(EVIDENCE_DIR, exist_ok=True)
    wall = time.time() - ctx.t0

    # KNOWN-FINDING lines: one per listed (status known) finding
    for e in ctx.known:
        if e.get("status") != "known":
            continue
        key = e["key"]
        seen = ctx.known_witness.get(key)
        hits = ctx.known_hits.get(key, 0)
        if seen is False and hits == 0:
            print(f"NOTE: property={ctx.pid} known finding {key} was not re-observed in this run")
        else:
            print(f"KNOWN-FINDING: property={ctx.pid} {key}: {e.get('description', '')} (observed {hits}x)")

    cov = dict(ctx.cov)
    cov.setdefault("evaluations", 0)
    cov["distinct_nontrivial"] = len(ctx.distinct_keys)
    cov["rule"] = getattr(mod, "RULE", "")
    cov["samples"] = ctx.samples[:MAX_SAMPLES] or ["(no case was generated)"]
    if ctx.lines_total:
        cov["lines_reached"] = {
            fn: f"{len(ctx.lines.get(fn, ()))}/{total}" for fn, total in sorted(ctx.lines_total.items())
        }
    if ctx.known_hits:
        cov["known_finding_hits"] = dict(ctx.known_hits)
    if ctx.extra:
        for k, v in ctx.extra.items():
            cov.setdefault(k, v if not isinstance(v, list) else v[:32])
    if getattr(mod, "LEVEL", "exploration") == "translation_validation":
        cov.setdefault("programs", cov.get("evaluations", 0))
        cov.setdefault("disagreements_checked", ctx.violation_count)
    evidence = {
        "property_id": ctx.pid,
        "tier": ctx.tier,
        "seed": ctx.seed,
        "level": getattr(mod, "LEVEL", "exploration"),
        "coverage": jsonable(cov),
        "assumptions": list(getattr(mod, "ASSUMPTIONS", [])),
        "wall_s": round(wall, 2),
        "violations": ctx.violation_count,
        "verdict": "violated" if ctx.violation_count else ("inconclusive" if ctx.inconclusive else "held"),
    }
    if ctx.inconclusive:
        evidence["inconclusive_because"] = ctx.inconclusive[:10]

    code = 0
    os.makedirs(REPLAY_DIR, exist_ok=True)
    if not ctx.replay:
        for old in os.listdir(REPLAY_DIR):
            if old.startswith(ctx.pid + "-") and old.endswith(".json"):
                os.unlink(os.path.join(REPLAY_DIR, old))
    if ctx.violation_count:
        seen_keys = set()
        for v in ctx.violations:
            if v["key"] in seen_keys and len(seen_keys) > 0:
                continue
            seen_keys.add(v["key"])
            path = os.path.join(REPLAY_DIR, f"{ctx.pid}-{short_hash((v['key'], v['case']))}.json")
            with open(path, "w") as f:
                json.dump({"property": ctx.pid, "seed": ctx.seed, "tier": ctx.tier, **v}, f, indent=1, ensure_ascii=False)
            print(f"VIOLATION property={ctx.pid} replay={path}")
            print(f"  key={v['key']} :: {v['what']}")
        print(f"property {ctx.pid}: {ctx.violation_count} violation(s) by class: {ctx.extra.get('violations_by_key')}")
        code = 1
    elif ctx.inconclusive:
        print(f"INCONCLUSIVE property={ctx.pid} {ctx.inconclusive[0]}")
        code = 2
    else:
        print(
            f"HELD property={ctx.pid} tier={ctx.tier} seed={ctx.seed} evaluations={cov.get('evaluations')} "
            f"distinct_nontrivial={cov['distinct_nontrivial']} wall={wall:.1f}s"
        )

    with open(os.path.join(EVIDENCE_DIR, f"{ctx.pid}.json"), "w") as f:
        json.dump(evidence, f, indent=1, ensure_ascii=False, sort_keys=True)
        f.write("\n")
    return code


def guarded(ctx, fn, *a, **k):
    """Run a workload section; an unexpected harness exception is inconclusive, not a
    verdict (the traceback is printed)."""
    try:
        return fn(*a, **k)
    except Inconclusive as e:
        ctx.not_reached(str(e))
    except Exception as e:  # harness bug or tree that cannot be driven
        traceback.print_exc()
        ctx.not_reached(f"harness exception {type(e).__name__}: {e}")
