"""Contract kit (DESIGN.md §2.5): post-conditions installed on the *real* functions from
outside.  Conditions record and never change the control flow of the code under test;
while a condition or an oracle runs, all contracts are switched off (re-entrancy guard).
Plain wrappers (no `assert`, no `__debug__`), so they also work under `python -O`.
"""
from __future__ import annotations

import functools
import math
import threading
from decimal import Decimal

from . import boot as B
from . import core, gen, model, oracle

_state = threading.local()


def in_monitor() -> bool:
    return getattr(_state, "depth", 0) > 0


class monitor_section:
    """while a condition runs: contracts off, and the harness's own Decimal arithmetic in a local high-precision
    context (the ambient context - the one the library computes under - is left alone)"""

    def __enter__(self):
        import decimal
        _state.depth = getattr(_state, "depth", 0) + 1
        self._lc = decimal.localcontext(oracle.HP)
        self._lc.__enter__()

    def __exit__(self, *a):
        self._lc.__exit__(*a)
        _state.depth -= 1


class Kit:
    def __init__(self, ctx):
        self.ctx = ctx
        self.installed = []

    def post(self, owner, name, cond, label=None):
        """cond(args, kwargs, result, exc) is called after every call of owner.name"""
        label = label or f"{getattr(owner, '__name__', owner)}.{name}"
        raw = owner.__dict__[name] if isinstance(owner, type) else getattr(owner, name)
        kind = None
        fn = raw
        if isinstance(raw, staticmethod):
            kind, fn = staticmethod, raw.__func__
        elif isinstance(raw, classmethod):
            kind, fn = classmethod, raw.__func__
        ctx = self.ctx

        @functools.wraps(fn)
        def wrapper(*a, **k):
            if in_monitor():
                return fn(*a, **k)
            try:
                r = fn(*a, **k)
            except BaseException as e:
                with monitor_section():
                    ctx.count(f"contract_evaluations/{label}")
                    cond(a, k, None, e)
                raise
            with monitor_section():
                ctx.count(f"contract_evaluations/{label}")
                cond(a, k, r, None)
            return r

        wrapper.__vmon_wrapped__ = fn
        setattr(owner, name, kind(wrapper) if kind else wrapper)
        self.installed.append((owner, name, raw))
        return wrapper

    def uninstall(self):
        for owner, name, raw in reversed(self.installed):
            setattr(owner, name, raw)
        self.installed.clear()


class Env:
    """boot + model + oracle + pools, shared by most property modules"""

    def __init__(self, ctx, need_oracle=True, modules="all", order=None):
        self.ctx = ctx
        try:
            self.b = B.boot(modules=modules, order=order)
        except Exception as e:
            raise core.Inconclusive(f"the tree under test does not import: {type(e).__name__}: {e}")
        if self.b.errors:
            raise core.Inconclusive(f"unit modules failed to import: {self.b.errors[:3]}")
        self.m = self.b.measured
        self.conv = self.b.conversions
        self.mdl = model.Model(self.b)
        self.orc = oracle.shipped_oracle(self.b) if need_oracle else None
        self.pools = gen.Pools(self.b, self.mdl, self.orc)
        self.kit = Kit(ctx)


def finite(x) -> bool:
    if isinstance(x, Decimal):
        return x.is_finite()
    if isinstance(x, float):
        return math.isfinite(x)
    return True


def numeric_type_ok(x) -> bool:
    return isinstance(x, (int, float, Decimal)) and not isinstance(x, bool)


# ---- line coverage of anchored mechanisms (DESIGN.md §2.6) --------------------------------

def aliasing_probe(ctx, m, key, rounds=1):
    """What a long-lived program does with the objects it is handed: it keeps them under a second name and updates that
    name with augmented assignment (x *= 2, total += reading), and it rounds or accumulates in place on quantities that the
    library returned to it as new objects (.magnitude is a plain attribute).  Neither may change what the library itself
    goes on using: the quantity a unit stands for (Unit.quantify()), the constants in measured.physics, and the operand
    that was aliased.  Violations are reported under `key`; the conversions the calling check makes afterwards see the
    damage as well."""
    import copy as _copy
    import operator as _op

    Q, Unit, P = m.Quantity, m.Unit, m.Prefix
    U, PN = Unit._by_name, P._by_name
    units = []
    for pn, un in (("kilo", "meter"), ("milli", "second"), ("kilo", "gram"), ("mebi", "bit"), (None, "hour"), (None, "foot"), ("kilo", "watt"), (None, "celsius")):
        if un in U and (pn is None or pn in PN):
            units.append(PN[pn] * U[un] if pn else U[un])
    if "watt" in U and "hour" in U and "kilo" in PN:
        units.append(PN["kilo"] * U["watt"] * U["hour"])
    try:
        import measured.physics as physics
        constants = [(n, v) for n, v in sorted(vars(physics).items()) if isinstance(v, Q)]
    except Exception:
        constants = []

    def same(q, mag, unit):
        return q.unit is unit and type(q.magnitude) is type(mag) and (q.magnitude == mag or (q.magnitude != q.magnitude and mag != mag))

    inplace = [("*=", _op.imul, 3), ("/=", _op.itruediv, 4), ("*=", _op.imul, 0.5), ("**=", _op.ipow, 2)]
    for _ in range(rounds):
        for label, subject in [(f"({u}).quantify()", u.quantify()) for u in units] + [(f"physics.{n}", v) for n, v in constants]:
            mag0, unit0 = subject.magnitude, subject.unit
            for sym, fn, k in inplace:
                ctx.count("aliasing/augmented_assignments_on_an_alias")
                alias = subject
                try:
                    alias = fn(alias, k)
                except Exception:
                    ctx.count("aliasing/augmented_assignment_refused")
                    continue
                if not same(subject, mag0, unit0):
                    ctx.violation(f"{key}:object-handed-out-by-the-library-changed-through-an-alias", f"y = {label}; y {sym} {k} changed the object the library handed out: it was "
                                  f"{mag0!r} {unit0}, it is {subject.magnitude!r} {subject.unit}", {"object": label, "operator": sym, "operand": k})
                    subject.magnitude = mag0   # put it back: the calling check goes on with a sane library
            for sym, fn in (("+=", _op.iadd), ("-=", _op.isub)):
                ctx.count("aliasing/augmented_assignments_on_an_alias")
                alias = subject
                try:
                    alias = fn(alias, Q(250, unit0))
                except Exception:
                    ctx.count("aliasing/augmented_assignment_refused")
                    continue
                if not same(subject, mag0, unit0):
                    ctx.violation(f"{key}:object-handed-out-by-the-library-changed-through-an-alias", f"y = {label}; y {sym} 250 {unit0} changed the object the library handed "
                                  f"out: it was {mag0!r}, it is {subject.magnitude!r}", {"object": label, "operator": sym})
                    subject.magnitude = mag0
        # quantities the library returned as results are the caller's own: rounding / accumulating on them in place must
        # not reach anything the library still uses
        for u in units:
            std = u.quantify()
            mag0, unit0 = std.magnitude, std.unit
            results = []
            for make in (lambda: Q(1, u).unprefixed(), lambda: Q(1.0, u).unprefixed(), lambda: Q(1, u).in_unit(u), lambda: Q(1, u).in_unit(unit0), lambda: Q(1, u) * 1,
                         lambda: Q(1, u) + Q(0, u), lambda: _copy.copy(Q(1, u)), lambda: 1 * u, lambda: Q.parse(f"1 {u}") if str(u).isascii() else Q(1, u)):
                try:
                    results.append(make())
                except Exception:
                    ctx.count("aliasing/result_not_available")
            for r in results:
                ctx.count("aliasing/results_updated_in_place")
                if r is std:
                    ctx.violation(f"{key}:result-is-the-librarys-own-object", f"an operation on 1 {u} returned the very object Unit.quantify() keeps for {u}", {"unit": str(u)})
                    continue
                try:
                    r.magnitude = r.magnitude * 3 + 1
                except Exception:
                    continue
                now = u.quantify()
                if not same(now, mag0, unit0):
                    ctx.violation(f"{key}:object-handed-out-by-the-library-changed-through-an-alias", f"updating .magnitude of a quantity returned for 1 {u} changed what "
                                  f"{u} stands for: {mag0!r} {unit0} became {now.magnitude!r} {now.unit}", {"unit": str(u)})
                    now.magnitude = mag0


def with_little_stack(fn, free):
    """fn() as a program would call it from deep inside its own recursion: only `free` interpreter frames are left.
    -> ("answered", value) | ("ran-out-of-stack", None) | ("raised", exception)"""
    import sys

    depth, f = 0, sys._getframe()
    while f is not None:
        depth, f = depth + 1, f.f_back
    old = sys.getrecursionlimit()
    sys.setrecursionlimit(depth + free)
    try:
        return ("answered", fn())
    except RecursionError:
        return ("ran-out-of-stack", None)
    except Exception as e:
        return ("raised", e)
    finally:
        sys.setrecursionlimit(old)


def module_functions(mod, prefix=None):
    """[(label, function)] for every function defined at the top level of `mod` as it is today (memoising wrappers
    unwrapped): monitors that want 'the planner's functions' ask for them by module, not by a list of private names"""
    import inspect

    out = []
    prefix = prefix or mod.__name__.rsplit(".", 1)[-1]
    for name, f in sorted(vars(mod).items()):
        g = getattr(f, "__vmon_wrapped__", f)
        g = getattr(g, "__wrapped__", g)
        if inspect.isfunction(g) and getattr(g, "__module__", None) == mod.__name__ and getattr(g, "__code__", None) is not None \
                and g.__code__.co_filename == getattr(mod, "__file__", None):
            out.append((f"{prefix}.{name}", f))
    return out


class LineWatch:
    """sys.monitoring LINE events with DISABLE after the first hit: which lines of the
    anchored functions the workload actually executed."""

    def __init__(self, ctx, functions):
        import sys

        self.ctx = ctx
        self.mon = sys.monitoring
        self.tool = 3
        self.codes = {}
        for label, fn in functions:
            if fn is None:
                continue   # a private helper that this tree does not have (renamed, merged): nothing to watch, nothing to report
            fn = getattr(fn, "__vmon_wrapped__", fn)
            fn = getattr(fn, "__wrapped__", fn)
            fn = getattr(fn, "__func__", fn)
            code = getattr(fn, "__code__", None)
            if code is None:
                continue
            self.codes[code] = label
            import dis
            lines = {ln for _, ln in dis.findlinestarts(code) if ln is not None and ln != code.co_firstlineno}
            ctx.lines_total[label] = len(lines)
            ctx.lines.setdefault(label, set())
        try:
            self.mon.use_tool_id(self.tool, "vmon-lines")
        except ValueError:
            pass
        self.mon.register_callback(self.tool, self.mon.events.LINE, self._line)
        for code in self.codes:
            self.mon.set_local_events(self.tool, code, self.mon.events.LINE)

    def _line(self, code, line):
        label = self.codes.get(code)
        if label is not None and line != code.co_firstlineno:
            self.ctx.lines[label].add(line)
        return self.mon.DISABLE

    def never_entered(self):
        return [label for label in self.ctx.lines_total if not self.ctx.lines.get(label)]

    def close(self):
        try:
            for code in self.codes:
                self.mon.set_local_events(self.tool, code, 0)
            self.mon.register_callback(self.tool, self.mon.events.LINE, None)
            self.mon.free_tool_id(self.tool)
        except Exception:
            pass
