from . import cover as _cover

_cover.install()
