"""Seeded generators over the registered units/prefixes (DESIGN.md §2.4).  No Hypothesis."""
from __future__ import annotations

from decimal import Decimal

from . import model as M


def refused_operation(rng, m, unit):
    """one call that the library is right to refuse (or to answer with another type), made on a live unit: a power that
    is numerically whole but not an int, a root of non-int degree, arithmetic with a string, a unit plus a unit...
    Whatever it does, it must leave no trace: the callers go on to judge the ordinary operations that follow."""
    from decimal import Decimal
    from fractions import Fraction

    k = rng.choice([2, 3, -1, 4, 1, 0, -2])
    q = m.Quantity(rng.choice([2, 2.5, Decimal("3")]), unit)
    choices = [lambda: unit ** float(k), lambda: unit ** Decimal(k), lambda: unit ** Fraction(k), lambda: unit ** str(k), lambda: unit ** None,
               lambda: q ** float(k), lambda: q ** Decimal(k), lambda: unit.root(float(k or 2)), lambda: q.root(2.0), lambda: unit * "m", lambda: unit / None,
               lambda: unit + unit ** 2, lambda: q + 5, lambda: 5 - q, lambda: q < 5, lambda: unit ** (k + 0.5), lambda: unit ** True,
               lambda: m.Unit.parse(str(unit) + "^2.0"), lambda: q.in_unit("not a unit"), lambda: q == "text", lambda: unit * (1, 2)]
    try:
        rng.choice(choices)()
        return "answered"
    except BaseException as e:  # noqa
        if isinstance(e, (KeyboardInterrupt, SystemExit)):
            raise
        return type(e).__name__


class Pools:
    def __init__(self, boot, mdl: M.Model, orc=None):
        self.b = boot
        self.mdl = mdl
        m = boot.measured
        self.m = m
        Unit, Prefix = m.Unit, m.Prefix
        self.offset_units = {s["scale"] for s in boot.scales}
        # name -> unit for every registered name (primary name only, deterministic)
        self.units = {}
        seen = set()
        for name in sorted(Unit._by_name):
            u = Unit._by_name[name]
            if id(u) in seen:
                continue
            seen.add(id(u))
            self.units[name] = u
        self.unit_names = sorted(self.units)
        self.plain_names = [n for n in self.unit_names if self.units[n] not in self.offset_units and self.units[n] is not m.One]
        self.prefixes = {}
        seen = set()
        for name in sorted(Prefix._by_name):
            p = Prefix._by_name[name]
            if id(p) in seen:
                continue
            seen.add(id(p))
            self.prefixes[name] = p
        self.prefix_names = sorted(self.prefixes)
        self.si_prefixes = [n for n in self.prefix_names if self.prefixes[n].base == 10]
        self.iec_prefixes = [n for n in self.prefix_names if self.prefixes[n].base == 2]
        # by model dimension
        self.by_dim = {}
        for n in self.plain_names:
            d = mdl.dim_of_unit(self.units[n])
            self.by_dim.setdefault(d, []).append(n)
        nd = len(m.Number.exponents)
        self.fund = {}  # index of fundamental dimension -> names of units with exactly that dimension
        for i in range(1, nd):
            d = tuple(1 if j == i else 0 for j in range(nd))
            self.fund[i] = self.by_dim.get(d, [])
        self.number_dim = tuple([0] * nd)
        # base units whose declared dimension is derived (≥2 fundamental exponents, or |e|>1)
        self.derived_base = []
        self.mixed_sign_base = []
        for n in self.plain_names:
            u = self.units[n]
            if len(u.factors) == 1 and next(iter(u.factors)) is u:
                ex = mdl.declared_dimension(u).exponents
                if sum(abs(e) for e in ex) > 1:
                    self.derived_base.append(n)
                    if any(e < 0 for e in ex) and any(e > 0 for e in ex):
                        self.mixed_sign_base.append(n)
        self.named_compound = [n for n in self.plain_names if len(self.units[n].factors) > 1
                               or next(iter(self.units[n].factors.values())) != 1]
        # units whose float size is moderate (avoid overflow in powers)
        self.moderate = self.plain_names
        if orc is not None:
            mod = []
            for n in self.plain_names:
                u = self.units[n]
                if not orc.knows(u):
                    continue
                lo, hi, _ = orc.unit_size(u)
                if 1e-30 < float(lo) < 1e30:
                    mod.append(n)
            self.moderate = mod
            self.by_dim_moderate = {}
            ms = set(mod)
            for d, names in self.by_dim.items():
                self.by_dim_moderate[d] = [n for n in names if n in ms]

    def _moderate_set(self):
        ms = getattr(self, "_ms", None)
        if ms is None:
            ms = self._ms = set(self.moderate)
            self.physical_moderate = [n for n in self.moderate if any(self.mdl.dim_of_unit(self.units[n]))]
        return ms

    # ---- magnitudes ---------------------------------------------------------------------
    def magnitude(self, rng, kind=None, allow_zero=True, positive=False):
        kind = kind or rng.choice(["int", "float", "float", "decimal"])
        if rng.random() < 0.08:
            # boundary and round values: the ones a special case is written for
            v = rng.choice([1, 1, 2, 10, 100, 1000, 12, 60, 0.5, 0.1, 0.25, 1e15, 1e16, 1e-15, 2**53, 1e3, 1e6, 1e-3, 3])
            if not positive and rng.random() < 0.3:
                v = -v
            if kind == "int":
                return int(v) if abs(v) >= 1 else (1 if v > 0 else -1)
            if kind == "float":
                return float(v)
            return Decimal(repr(v)) if isinstance(v, float) else Decimal(v)
        if rng.random() < 0.04:
            # unusual representations of ordinary values: integers beyond 2**53, integral floats, Decimals in
            # exponent notation or with trailing zeros
            special = {"int": [2**53 + 1, 10**18 + 7, -(2**60), 123456789012345678], "float": [5.0, -12.0, 1e15, 2.0**60, 1e-5],
                       "decimal": [Decimal("1E+3"), Decimal("5"), Decimal("2.50"), Decimal("-1.2E-4"), Decimal("1234567890123456789.5")]}[kind]
            v = rng.choice(special)
            if positive and v < 0:
                v = -v
            return v
        r = rng.random()
        if allow_zero and r < 0.04:
            v = 0
        elif r < 0.5:
            v = rng.randint(1, 1000)
        else:
            v = 10 ** rng.uniform(-6, 6)
        if not positive and rng.random() < 0.35:
            v = -v
        if kind == "int":
            return int(v) if abs(v) >= 1 or v == 0 else (1 if v > 0 else -1)
        if kind == "float":
            return float(v)
        return Decimal(repr(round(float(v), 6))) if v else Decimal(0)

    # ---- unit terms ---------------------------------------------------------------------
    # the units and prefixes people actually write: a uniformly random choice among ~350 units and 24 prefixes meets
    # "kilometre per hour" about once in a million cases, and those are the expressions a special case is written for
    EVERYDAY_UNITS = ["meter", "second", "gram", "kilogram", "foot", "inch", "mile", "yard", "hour", "minute", "day", "liter", "newton", "joule",
                      "watt", "pascal", "hertz", "volt", "ampere", "ohm", "coulomb", "byte", "bit", "pound", "ounce", "gallon", "acre", "kelvin",
                      "mole", "candela", "radian", "degree", "calorie", "horsepower", "knot", "bar", "hectare", "tonne", "week", "year"]
    EVERYDAY_PREFIXES = ["kilo", "milli", "centi", "mega", "micro", "nano", "giga", "deci", "hecto"]

    def everyday(self, names):
        cache = getattr(self, "_everyday", None)
        if cache is None:
            cache = self._everyday = {}
        key = id(names)
        if key not in cache:
            allowed = set(names)
            cache[key] = [n for n in self.EVERYDAY_UNITS if n in allowed]
        return cache[key]

    def factor(self, rng, names=None, max_exp=3, prefix_prob=0.4, neg_prob=0.4, prefixes=None):
        pool = names or self.moderate
        common = self.everyday(pool) if rng.random() < 0.2 else None
        name = rng.choice(common or pool)
        exp = rng.randint(1, max_exp) if rng.random() < 0.7 else 1
        if rng.random() < neg_prob:
            exp = -exp
        pfx = None
        if rng.random() < prefix_prob:
            plist = prefixes or self.si_prefixes
            commonp = [x for x in self.EVERYDAY_PREFIXES if x in plist] if rng.random() < 0.4 else None
            pfx = rng.choice(commonp or plist)
        return (pfx, name, exp)

    def factors_term(self, factors):
        """[(prefix name|None, unit name, exp)] -> term"""
        t = None
        for pfx, name, exp in factors:
            f = ["u", name]
            if pfx:
                f = ["pfx", pfx, f]
            if exp != 1:
                f = ["pow", f, exp]
            t = f if t is None else ["mul", t, f]
        return t if t is not None else ["u", "one"]

    def random_factors(self, rng, max_factors=3, max_exp=3, hostile=0.35, prefix_prob=0.4, physical_only=False):
        n = rng.randint(1, max_factors)
        out = []
        used = set()
        mod = self._moderate_set()
        for _ in range(n):
            pool = None
            if self.derived_base and rng.random() < hostile:
                pool = [x for x in (self.mixed_sign_base if rng.random() < 0.6 else self.derived_base) if x in mod] or None
            if pool is None and physical_only:
                pool = self.physical_moderate
            f = self.factor(rng, names=pool, max_exp=max_exp, prefix_prob=prefix_prob)
            if self.mdl.dim_of_unit(self.units[f[1]])[-2] != 0 and f[0] and rng.random() < 0.5 and self.iec_prefixes:
                f = (rng.choice(self.iec_prefixes), f[1], f[2])  # information units: binary prefixes too
            if f[1] in used:
                continue
            used.add(f[1])
            out.append(f)
        return out

    def same_dimension_alternative(self, rng, factors, compose_prob=0.3, prefix_prob=0.4, keep_dimensionless_choice=False):
        """Replace every factor by another offset-free unit of the same dimension, or by a
        composition of units of the fundamental dimensions."""
        out = []
        for pfx, name, exp in factors:
            u = self.units[name]
            d = self.mdl.dim_of_unit(u)
            if d == self.number_dim and not keep_dimensionless_choice:
                out.append((pfx, name, exp))  # 'one' and angle units are not interchangeable by any declaration
                continue
            pool = getattr(self, "by_dim_moderate", self.by_dim).get(d, [])
            if d != self.number_dim and (rng.random() < compose_prob or len(pool) < 2):
                comp = []
                ok = True
                for i, e in enumerate(d):
                    if e == 0:
                        continue
                    fpool = [n for n in self.fund.get(i, []) if n in self._moderate_set()]
                    if not fpool:
                        ok = False
                        break
                    p2 = rng.choice(self.si_prefixes) if rng.random() < prefix_prob * 0.5 else None
                    comp.append((p2, rng.choice(fpool), e * exp))
                # stay inside the properties' space: |exponent| <= 3 per factor
                if ok and comp and all(abs(e2) <= 3 for _, _, e2 in comp):
                    out.extend(comp)
                    continue
            if not pool:
                out.append((pfx, name, exp))
                continue
            p2 = rng.choice(self.si_prefixes) if rng.random() < prefix_prob else None
            out.append((p2, rng.choice(pool), exp))
        rng.shuffle(out)
        # merge duplicates (same prefix+unit) so the term stays a product of distinct factors
        merged = {}
        for pfx, name, exp in out:
            merged[(pfx, name)] = merged.get((pfx, name), 0) + exp
        result = [(p, n, e) for (p, n), e in merged.items() if e != 0]
        if not result:
            return list(factors)  # everything cancelled: keep the expression as it was written
        if len(result) > 4 or any(abs(e) > 3 for _, _, e in result):
            # too wide for the stated space (and for the float range): plain one-for-one replacement
            return self.same_dimension_alternative(rng, factors, compose_prob=0.0, prefix_prob=prefix_prob, keep_dimensionless_choice=keep_dimensionless_choice) if compose_prob else result
        return result

    def shape_class(self, factors):
        """structural key used for distinctness: multiset of (dimension, sign, |exp|,
        derived-dimension base unit?, has prefix?)"""
        key = []
        for pfx, name, exp in factors:
            u = self.units[name]
            d = self.mdl.dim_of_unit(u)
            key.append((d, exp > 0, abs(exp), name in self.derived_base, bool(pfx)))
        return tuple(sorted(key))
