"""The C04 post-condition on the real `conversions.convert`, shared by every workload that
converts (C04, C05, C06, C12, C14 …): a returned result must carry exactly the requested
unit and a magnitude inside  m · [size(src)/size(dst)]  (oracle interval, widened by
1e-5 × degree on shipped definitions)."""
from __future__ import annotations

from fractions import Fraction

from . import core, kit, oracle

SHIPPED_REL = Fraction(1, 100000)


def classify(env, src, dst):
    """mechanism class of a wrong conversion (used for violation keys)"""
    pools = env.pools
    derived_neg = False
    derived = False
    for u in (src, dst):
        for f, e in u.factors.items():
            ex = env.mdl.declared_dimension(f).exponents
            if f is not env.m.One and not any(ex) and len(u.factors) > 1 or (not any(ex) and f is not env.m.One and e != 1):
                return "DIMLESS"
            if sum(abs(x) for x in ex) > 1 and len(f.factors) == 1:
                derived = True
                if e < 0:
                    derived_neg = True
    if derived_neg:
        return "derived-dimension-base-unit-under-negative-exponent"
    if derived:
        return "derived-dimension-base-unit"
    if src.prefix.base or dst.prefix.base:
        return "prefixed"
    return "plain"


def _dimensionless_factors(env, unit):
    out = []
    for f, e in unit.factors.items():
        if f is not env.m.One and not any(env.mdl.declared_dimension(f).exponents):
            out.append((f, e))
    return out


class ConvertMonitor:
    def __init__(self, env, ctx, rel_per_degree=SHIPPED_REL, orc=None, key_prefix="C04"):
        self.env = env
        self.ctx = ctx
        self.orc = orc or env.orc
        self.rel = rel_per_degree
        self.key_prefix = key_prefix
        self.last = None  # outcome of the most recent checked conversion
        env.kit.post(env.conv, "convert", self._post, label="conversions.convert")

    def explained_by_dimensionless_factors(self, src, dst, mf, got, rel):
        """the known mechanism files Number-dimension factors under one bucket whatever the sign of their exponent and
        drops the unmatched ones: the returned value then equals the conversion of the physical part times some
        product of powers (bounded by the exponents present) of the sizes of the dimensionless units involved"""
        import itertools

        env, orc = self.env, self.orc
        dd = env.mdl.declared_dimension
        r0 = orc.ratio(orc.without_dimensionless(src, dd), orc.without_dimensionless(dst, dd))
        if r0 is None or mf == 0:
            return True   # nothing to compare against: keep the conservative classification
        dims = {}
        for f, e in _dimensionless_factors(env, src) + _dimensionless_factors(env, dst):
            dims[f] = dims.get(f, 0) + abs(e)
        if len(dims) > 4:
            return True
        try:
            sizes = {f: orc.size[f].value for f in dims}
        except Exception:
            return True
        g = oracle.F(got)
        base_lo, base_hi = sorted((mf * r0[0], mf * r0[1]))
        tol = Fraction(rel) + Fraction(1, 10**9)
        for ks in itertools.product(*[range(-n, n + 1) for n in dims.values()]):
            factor = Fraction(1)
            for (f, _), k in zip(dims.items(), ks):
                factor *= sizes[f] ** k
            lo, hi = sorted((base_lo * factor, base_hi * factor))
            if oracle.within(g, lo, hi, tol, abs_=Fraction(0)):
                return True
        return False

    def _post(self, a, k, result, exc):
        ctx = self.ctx
        quantity, other_unit = a[0], a[1]
        self.last = None
        if getattr(self, "paused", False):
            return   # a section that declares units of its own (outside the declaration log) and judges its conversions itself
        if exc is not None:
            ctx.count(f"convert/raised/{type(exc).__name__}")
            return
        ctx.count("convert/returned")
        src = quantity.unit
        if result.unit is not other_unit:
            ctx.violation(f"{self.key_prefix}:wrong-unit", f"convert({quantity!r}, {other_unit!r}) returned unit {result.unit!r}",
                          {"src": repr(quantity), "dst": repr(other_unit), "got": repr(result)})
            return
        orc = self.orc
        if orc.uses_offset(src) or orc.uses_offset(other_unit):
            ctx.count("convert/skipped_offset_scale")
            return
        r = orc.ratio(src, other_unit)
        if r is None:
            ctx.count("convert/oracle_has_no_route")
            dd = self.env.mdl.declared_dimension
            if orc.knows(src) and orc.knows(other_unit) and orc.ratio(orc.without_dimensionless(src, dd), orc.without_dimensionless(other_unit, dd)) is not None:
                ctx.violation(f"{self.key_prefix}:dimensionless-factor-dropped-or-inverted",
                              f"{quantity.magnitude!r} {src} -> {other_unit} returned {result.magnitude!r}: dimensionless factors with no declared route were dropped",
                              {"src": repr(quantity), "dst": repr(other_unit), "got": repr(result.magnitude)})
                return
            # the library converted between units the declarations do not connect
            ctx.violation(f"{self.key_prefix}:converted-without-declared-route",
                          f"{quantity!r} -> {other_unit!r} returned {result.magnitude!r} but no chain of declarations links them",
                          {"src": repr(quantity), "dst": repr(other_unit), "got": repr(result.magnitude)})
            return
        lo, hi = r
        m = quantity.magnitude
        if not kit.finite(m):
            ctx.count("convert/skipped_nonfinite")
            return
        mf = oracle.F(m)
        elo, ehi = (mf * lo, mf * hi) if mf >= 0 else (mf * hi, mf * lo)
        big = max(abs(elo), abs(ehi))
        if big != 0 and not (Fraction(1, 10**250) < big < 10**250):
            ctx.count("convert/skipped_out_of_float_range")
            return
        import math

        decades = orc.dynamic_range(src) + orc.dynamic_range(other_unit) + (abs(math.log10(abs(core.sf(m)))) if m else 0)
        if decades > 280:
            # some partial product of the plan may leave the float range: not a unit question
            ctx.count("convert/skipped_intermediate_may_leave_float_range")
            return
        if not kit.finite(result.magnitude):
            # a finite magnitude whose exact image is finite and every partial product of which stays far inside
            # the float range came back as NaN or an infinity: that is a returned value, and it is not the right one
            is_nan = result.magnitude != result.magnitude
            if is_nan or decades < 150:
                ctx.violation(f"{self.key_prefix}:wrong-magnitude:not-a-finite-number",
                              f"{m!r} {src} -> {other_unit}: got {result.magnitude!r}, oracle [{core.sf(elo)!r}, {core.sf(ehi)!r}]",
                              {"src_mag": repr(m), "src": repr(src), "dst": repr(other_unit), "got": repr(result.magnitude)})
            else:
                ctx.count("convert/skipped_nonfinite")
            return
        degree = orc.degree(src, other_unit)
        rel = self.rel * degree
        got = result.magnitude
        ok = oracle.within(got, elo, ehi, rel, abs_=Fraction(0))
        if lo != hi:
            ctx.count("convert/checked_with_interval")
        ctx.count("convert/checked")
        if big:
            mid = (elo + ehi) / 2
            if mid:
                err = abs(core.sf((oracle.F(got) - mid) / mid))
                ctx.maxi("rel_error_vs_oracle_mid", err)
        self.last = ok
        if not ok:
            cls = classify(self.env, src, other_unit)
            if cls == "DIMLESS" and not self.explained_by_dimensionless_factors(src, other_unit, mf, got, rel):
                # units of dimension Number are present, but the returned value is not what dropping or inverting
                # them gives: this is not the known mechanism, it is some other wrong answer
                cls = "with-dimensionless-factors-but-not-explained-by-them"
            try:
                plan = self.env.conv._plan_conversion(src, other_unit)
                plan_s = repr(plan)[:600]
            except Exception as e:  # pragma: no cover
                plan_s = f"<{type(e).__name__}>"
            ctx.violation(
                f"{self.key_prefix}:dimensionless-factor-dropped-or-inverted" if cls == "DIMLESS" else f"{self.key_prefix}:wrong-magnitude:{cls}",
                f"{m!r} {src} -> {other_unit}: got {got!r}, oracle [{core.sf(elo)!r}, {core.sf(ehi)!r}] (rel tol {core.sf(rel):g})",
                {"src_mag": repr(m), "src": repr(src), "dst": repr(other_unit), "got": repr(got),
                 "oracle_lo": core.sf(elo), "oracle_hi": core.sf(ehi), "plan": plan_s},
            )
