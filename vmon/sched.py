"""Deterministic line-granularity thread scheduler (DESIGN.md §2.8).

Worker threads run the real library code; at every `line` event inside the traced
functions the thread parks until the scheduler hands it the token.  A schedule is the
list of choices made at the decision points, so every execution is replayable.
Exploration is iterative preemption bounding: all schedules with at most `max_preempt`
forced switches away from a thread that could have continued (complete within the bound),
plus seeded random schedules beyond it.
"""
from __future__ import annotations

import hashlib
import sys
import threading
import time

BLOCK_TIMEOUT = 0.5


class Everywhere:
    """a target 'file' that contains every file except the harness's own and the threading module: the threads are stopped
    before each line they execute anywhere (the library, lark, the standard library's pure-Python modules)"""

    def __contains__(self, filename):
        return "/vmon/" not in filename and not filename.endswith(("threading.py", "<string>")) and not filename.startswith("<frozen")


EVERYWHERE = Everywhere()


class Run:
    def __init__(self, funcs, traced, target_file, prefix=(), rng=None, switch_prob=0.3):
        self.funcs = funcs
        self.traced = traced
        self.target_file = target_file
        self.prefix = list(prefix)
        self.rng = rng
        self.switch_prob = switch_prob
        self.choices = []       # (chosen index, number runnable, default index or None)
        self.cv = threading.Condition()
        self.current = None
        self.alive = set()
        self.blocked = set()
        self.trace = []
        self.results = {}
        self.errors = {}
        self.blocked_events = 0
        self.progress = 0
        self.watchdog_fired = False

    # ---- tracing -----------------------------------------------------------------------------------
    def _tracer(self, tid):
        def local(frame, event, arg):
            if event == "line":
                self.trace.append((tid, frame.f_code.co_qualname, frame.f_lineno))
                self._yield(tid)
            return local

        def glob(frame, event, arg):
            code = frame.f_code
            files = self.target_file if isinstance(self.target_file, (tuple, list, set, Everywhere)) else (self.target_file,)
            if code.co_filename in files and (self.traced is None or code.co_qualname in self.traced):
                return local
            return None

        return glob

    # ---- scheduling (always called with self.cv held) ---------------------------------------------------
    def _pick(self):
        runnable = sorted(self.alive - self.blocked)
        if not runnable:
            runnable = sorted(self.alive)  # everyone is blocked: let them race, the watchdog decides
            self.blocked.clear()
        if not runnable:
            self.current = None
        else:
            step = len(self.choices)
            default = runnable.index(self.current) if self.current in runnable else None
            if step < len(self.prefix):
                c = min(self.prefix[step], len(runnable) - 1)
            elif self.rng is not None:
                if default is not None and self.rng.random() > self.switch_prob:
                    c = default
                else:
                    c = self.rng.randrange(len(runnable))
            else:
                c = default if default is not None else 0
            self.choices.append((c, len(runnable), default))
            self.current = runnable[c]
        self.progress += 1
        self.cv.notify_all()

    def _yield(self, tid):
        with self.cv:
            self.blocked.discard(tid)
            self._pick()
            while self.current != tid:
                self.cv.wait()

    def go(self, timeout=20.0):
        def worker(tid, fn):
            with self.cv:
                while self.current != tid:
                    self.cv.wait()
            sys.settrace(self._tracer(tid))
            try:
                self.results[tid] = fn()
            except BaseException as e:  # noqa
                self.errors[tid] = e
            finally:
                sys.settrace(None)
                with self.cv:
                    self.alive.discard(tid)
                    self.blocked.discard(tid)
                    if self.current == tid or self.current is None:
                        self._pick()

        threads = []
        for tid, fn in enumerate(self.funcs):
            self.alive.add(tid)
            threads.append(threading.Thread(target=worker, args=(tid, fn), daemon=True))
        for t in threads:
            t.start()
        with self.cv:
            self._pick()
        deadline = time.time() + timeout
        # supervise: a running thread that makes no progress for BLOCK_TIMEOUT (it is blocked on a
        # lock a repair may have added) is marked blocked and another runnable thread gets the token
        last = -1
        while True:
            living = [t for t in threads if t.is_alive()]
            if not living:
                break
            living[0].join(BLOCK_TIMEOUT)
            if time.time() > deadline:
                self.watchdog_fired = True
                break
            if living[0].is_alive():
                with self.cv:
                    if self.progress == last and self.current is not None and len(self.alive) > 1:
                        self.blocked.add(self.current)
                        self.blocked_events += 1
                        self._pick()
                    last = self.progress
        for t in threads:
            t.join(0.01)
        return self

    def trace_hash(self):
        return hashlib.sha1(repr(self.trace).encode()).hexdigest()[:16]

    def preemptions(self):
        return sum(1 for c, n, d in self.choices if d is not None and c != d)


def discover(func, target_file):
    """Runs `func` once in this thread and returns the qualified names of every function of the target file(s) that it
    entered - the call graph as it is today, whatever the helpers are called."""
    files = target_file if isinstance(target_file, (tuple, list, set)) else (target_file,)
    found = set()

    def glob(frame, event, arg):
        if frame.f_code.co_filename in files:
            found.add(frame.f_code.co_qualname)
        return None

    old = sys.gettrace()
    sys.settrace(glob)
    try:
        try:
            func()
        except Exception:
            pass
    finally:
        sys.settrace(old)
    return found


def explore(make_funcs, traced, target_file, check, max_preempt=None, limit=100000, deadline=None):
    """Depth-first enumeration of schedules, complete within the preemption bound.
    make_funcs(trial) -> list of thunks using a key never built before; check(run, trial) is
    called after every execution.  Returns (executions, distinct traces, complete?)"""
    stack = [[]]
    seen = set()
    n = 0
    while stack:
        if n >= limit or (deadline is not None and time.time() > deadline):
            return n, seen, False
        prefix = stack.pop()
        run = Run(make_funcs(n), traced, target_file, prefix=prefix).go()
        n += 1
        seen.add(run.trace_hash())
        check(run, n)
        used = 0
        for i, (c, k, default) in enumerate(run.choices):
            if i >= len(prefix):
                for alt in range(k):
                    if alt != c:
                        cost = used + (1 if (default is not None and alt != default) else 0)
                        if max_preempt is None or cost <= max_preempt:
                            stack.append([x[0] for x in run.choices[:i]] + [alt])
            if default is not None and c != default:
                used += 1
    return n, seen, True


def random_schedules(make_funcs, traced, target_file, check, rng, count, seen, start_trial=0, deadline=None):
    n = 0
    for i in range(count):
        if deadline is not None and time.time() > deadline:
            break
        run = Run(make_funcs(start_trial + i), traced, target_file, rng=rng, switch_prob=rng.choice([0.1, 0.3, 0.6])).go()
        n += 1
        seen.add(run.trace_hash())
        check(run, start_trial + i)
    return n
