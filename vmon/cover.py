"""Which lines of the library did the workloads actually execute?  (reach evidence, DESIGN.md §2.6)

Switched on by VERIF_COVER_DIR: every harness process (checks, shards, history workers) records the executed lines
of files under <repo>/src/measured with sys.monitoring LINE events (each location reports once, then is disabled)
and writes them to a file in that directory at exit.  tools/reach.py merges the files and lists, per function of
the library, the lines no check ever executed - a change there cannot be seen by any monitor."""
from __future__ import annotations

import atexit
import json
import os
import sys
import time

_seen = {}


def install():
    out = os.environ.get("VERIF_COVER_DIR")
    if not out or getattr(sys, "_vmon_cover", False) or not hasattr(sys, "monitoring"):
        return
    sys._vmon_cover = True
    mon = sys.monitoring
    tool = mon.COVERAGE_ID
    root = os.path.join(os.environ.get("VERIF_REPO", "/repo"), "src", "measured") + os.sep
    try:
        mon.use_tool_id(tool, "vmon-reach")
    except ValueError:
        return

    def line(code, lineno):
        fn = code.co_filename
        if fn.startswith(root):
            _seen.setdefault(fn[len(root):], set()).add(lineno)
        return mon.DISABLE

    mon.register_callback(tool, mon.events.LINE, line)
    mon.set_events(tool, mon.events.LINE)

    def dump():
        try:
            os.makedirs(out, exist_ok=True)
            with open(os.path.join(out, f"reach-{os.getpid()}-{int(time.time() * 1000) % 10**9}.json"), "w") as f:
                json.dump({"argv": sys.argv[:3], "optimize": sys.flags.optimize, "lines": {k: sorted(v) for k, v in _seen.items()}}, f)
        except Exception:
            pass

    atexit.register(dump)
