"""Boot the library under test with declaration interception (DESIGN.md §2.1).

`boot()` imports `measured`, wraps `conversions.equate/translate` and the definition API
with recording pass-through wrappers, then imports the unit modules.  The result is the
*declaration log*: everything the shipped modules declared, in order, including
declarations the library later silently overwrites.
"""
from __future__ import annotations

import importlib
import sys

ALL_MODULES = [
    "si", "iec", "us", "avoirdupois", "troy", "energy", "astronomical", "natural", "metric",
    "iso", "eu", "fff", "apocrypha", "computing", "acoustics", "electronics", "music",
    "geometry", "physics",
]


class Boot:
    def __init__(self):
        self.decls = []       # dict(seq, mod, am, au, bm, bu)
        self.scales = []      # dict(seq, mod, scale, zero_m, zero_u)
        self.defined = []     # dict(kind, name, symbol, obj, mod, dimension)
        self.aliases = []     # dict(unit, name, symbol, mod)
        self.base_dimension = {}  # base Unit -> Dimension it was *declared* with
        self.measured = None
        self.conversions = None
        self.modules = []
        self.errors = []
        self._orig = {}
        self.recording = True


_BOOT = None


def _caller_module(depth=2):
    try:
        f = sys._getframe(depth)
        while f is not None:
            name = f.f_globals.get("__name__", "")
            if name.startswith("measured.") and name not in ("measured.conversions",):
                return name
            if not name.startswith("measured"):
                return name
            f = f.f_back
    except ValueError:
        pass
    return "?"


def boot(modules="all", order=None, between=None) -> Boot:
    """Import the library with recording wrappers.  Idempotent per process."""
    global _BOOT
    if _BOOT is not None:
        return _BOOT
    b = Boot()
    import measured
    from measured import conversions

    b.measured = measured
    b.conversions = conversions
    Unit, Dimension = measured.Unit, measured.Dimension

    orig_equate = conversions.equate
    orig_translate = conversions.translate
    b._orig["equate"] = orig_equate
    b._orig["translate"] = orig_translate

    def rec_equate(a, b_):
        if b.recording:
            b.decls.append(dict(seq=len(b.decls) + len(b.scales), mod=_caller_module(), am=a.magnitude, au=a.unit,
                                bm=b_.magnitude, bu=b_.unit))
        return orig_equate(a, b_)

    def rec_translate(scale, zero):
        if b.recording:
            b.scales.append(dict(seq=len(b.decls) + len(b.scales), mod=_caller_module(), scale=scale,
                                 zero_m=getattr(zero, "magnitude", None), zero_u=getattr(zero, "unit", None)))
        return orig_translate(scale, zero)

    rec_equate.__wrapped__ = orig_equate
    rec_translate.__wrapped__ = orig_translate
    conversions.equate = rec_equate
    conversions.translate = rec_translate

    orig_define = Unit.define.__func__
    orig_derive = Unit.derive.__func__
    orig_alias = Unit.alias

    def rec_define(cls, dimension, name, symbol):
        unit = orig_define(cls, dimension, name, symbol)
        if b.recording:
            b.defined.append(dict(kind="unit.define", name=name, symbol=symbol, obj=unit, mod=_caller_module(), dimension=dimension))
        b.base_dimension.setdefault(unit, dimension)
        return unit

    def rec_derive(cls, unit, name, symbol):
        result = orig_derive(cls, unit, name, symbol)
        if b.recording:
            b.defined.append(dict(kind="unit.derive", name=name, symbol=symbol, obj=result, mod=_caller_module(), dimension=None))
        return result

    def rec_alias(self, name=None, symbol=None):
        result = orig_alias(self, name=name, symbol=symbol)
        if b.recording and (name or symbol) and getattr(self, "_initialized", False):
            b.aliases.append(dict(unit=self, name=name, symbol=symbol, mod=_caller_module()))
        return result

    Unit.define = classmethod(rec_define)
    Unit.derive = classmethod(rec_derive)
    Unit.alias = rec_alias
    b._orig["Unit.define"] = orig_define
    b._orig["Unit.derive"] = orig_derive
    b._orig["Unit.alias"] = orig_alias

    # `One` was defined while importing measured, before the wrappers existed
    b.base_dimension[measured.One] = measured.Number

    names = ALL_MODULES if modules == "all" else list(modules)
    if order is not None:
        names = list(order)
    b.import_order = list(names)
    for name in names:
        try:
            importlib.import_module(f"measured.{name}")
            b.modules.append(name)
            if between is not None:
                between(name)  # what a program does between two imports (lookups, parsing)
        except Exception as e:  # a tree that cannot import is inconclusive for the caller
            b.errors.append((name, f"{type(e).__name__}: {e}"))
    if modules == "all":
        try:
            importlib.import_module("measured.systems")
        except Exception as e:
            b.errors.append(("systems", f"{type(e).__name__}: {e}"))
    _BOOT = b
    return b


def unit_modules(b: Boot):
    """name -> module object for the imported unit modules"""
    return {n: sys.modules[f"measured.{n}"] for n in b.modules}


def named_units(b: Boot):
    """All units that carry at least one registered name, in a deterministic order."""
    Unit = b.measured.Unit
    seen, out = set(), []
    for name in sorted(Unit._by_name):
        u = Unit._by_name[name]
        if id(u) not in seen:
            seen.add(id(u))
            out.append(u)
    return out


def registered_prefixes(b: Boot):
    Prefix = b.measured.Prefix
    seen, out = set(), []
    for name in sorted(Prefix._by_name):
        p = Prefix._by_name[name]
        if id(p) not in seen:
            seen.add(id(p))
            out.append(p)
    return out
