"""Text generators for the parser properties (C16, C17): grammar-derived valid inputs,
token-level mutations, random strings over the grammar's alphabet (plus registered
symbols), arbitrary Unicode, and a boundary list."""
from __future__ import annotations

SUPER = "⁰¹²³⁴⁵⁶⁷⁸⁹"
SYMBOL_CHARS = "1abcdefghijklmnopqrstuvwxyzABCDEFGHIJKLMNOPQRSTUVWXYZÅₐₑₒₓₕₖₗₘₙₚₛₜΑΒΓΔΩαβγδμπω☉.°-()"
ALPHABET = list(SYMBOL_CHARS) + list("0123456789+-.eE^*/⋅ \t\n\r\f") + list(SUPER) + ["⁻"]
COMMON_SYMBOLS = ["m", "s", "g", "kg", "A", "K", "mol", "cd", "Hz", "N", "Pa", "J", "W", "C", "V", "Ω", "ft.", "in.", "lb.", "°C", "°F", "km", "μm",
                  "KiB", "MB", "b", "B", "h", "min", "d", "L", "mL", "rad", "°", "eV", "mₑ", "M☉", "Å", "meter", "second", "hertz", "ohm", "1"]


# every character of the grammar's ignored WS terminal (space, tab, form feed, carriage return, line feed), alone
# and in runs; multi-line input is ordinary for text read from files and forms
WHITESPACE = [" ", " ", " ", "  ", "\t", "\n", " \n", "\n ", "\r\n", "\f", "\r", "\n\n\t ", " \t \n"]


class TextGen:
    def __init__(self, rng, symbols=None):
        self.rng = rng
        self.symbols = list(symbols) if symbols else list(COMMON_SYMBOLS)

    # ---- tokens -----------------------------------------------------------------------------------
    def symbol(self):
        r = self.rng
        if r.random() < 0.8:
            return r.choice(self.symbols)
        return "".join(r.choice(SYMBOL_CHARS) for _ in range(r.randint(1, 6)))

    def exponent(self):
        r = self.rng
        n = r.choice([1, 2, 3, -1, -2, -3, 0, 10, 222, -45, r.randint(-999, 999)])
        if r.random() < 0.5:
            return "^" + (r.choice(["", "+"]) if n >= 0 and r.random() < 0.2 else "") + str(n)
        s = str(abs(n)).translate(str.maketrans("0123456789", SUPER))
        return ("⁻" if n < 0 else "") + s

    def magnitude(self):
        r = self.rng
        k = r.random()
        if k < 0.4:
            return str(r.randint(-10**6, 10**6))
        if k < 0.5:
            return r.choice(["+", "-", ""]) + str(r.randint(0, 10**r.randint(1, 40)))
        if k < 0.8:
            return repr(r.uniform(-1e6, 1e6))
        if k < 0.9:
            return f"{r.randint(1, 9)}.{r.randint(0, 999)}e{r.randint(-320, 320)}"
        return r.choice([".5", "5.", "1e5", "1E-5", "-.5e+3", "+3.", "0", "-0", "00012", "1e400", "-1e400"])

    def tokens_unit(self):
        r = self.rng

        def seq():
            n = r.choice([1, 1, 2, 2, 3, 4])
            terms = []
            for _ in range(n):
                t = self.symbol()
                if r.random() < 0.5:
                    t += self.exponent()
                terms.append(t)
            style = r.choice(["mul", "mul", "juxt"])
            out = [terms[0]]
            for t in terms[1:]:
                if style == "mul":
                    out.append(r.choice(["*", "⋅"]))
                out.append(t)
            return out

        toks = seq()
        if r.random() < 0.35:
            toks += ["/"] + seq()
        return toks

    def join(self, toks):
        r = self.rng
        out = []
        for i, t in enumerate(toks):
            out.append(t)
            if i + 1 < len(toks):
                nxt = toks[i + 1]
                need_space = t[-1] in SYMBOL_CHARS and nxt[0] in SYMBOL_CHARS
                if need_space or r.random() < 0.3:
                    out.append(r.choice(WHITESPACE))
        text = "".join(out)
        if r.random() < 0.08:   # ignored whitespace is legal before and after the text as well
            text = r.choice(WHITESPACE) + text if r.random() < 0.5 else text + r.choice(WHITESPACE)
        return text

    # ---- generators -------------------------------------------------------------------------------
    def valid_unit(self):
        return self.join(self.tokens_unit())

    def valid_quantity(self):
        return self.join([self.magnitude()] + self.tokens_unit())

    def mutated(self):
        r = self.rng
        toks = ([self.magnitude()] if r.random() < 0.5 else []) + self.tokens_unit()
        for _ in range(r.randint(1, 3)):
            k = r.random()
            i = r.randrange(len(toks)) if toks else 0
            if k < 0.25 and toks:
                del toks[i]
            elif k < 0.45 and toks:
                toks.insert(i, toks[i])
            elif k < 0.6 and len(toks) > 1:
                j = r.randrange(len(toks))
                toks[i], toks[j] = toks[j], toks[i]
            elif k < 0.8:
                toks.insert(i, r.choice(["*", "/", "⋅", "^", "^2", "⁻", "²", "+", "-", ".", "e", "(", ")", "1", "5", "5.0", " ", "//", "**"]))
            elif toks:
                t = toks[i]
                if t:
                    p = r.randrange(len(t))
                    toks[i] = t[:p] + r.choice(ALPHABET) + t[p + (r.random() < 0.5):]
        return self.join(toks) if r.random() < 0.8 else "".join(toks)

    def random_alphabet(self):
        r = self.rng
        n = r.choice([0, 1, 2, 3, 5, 8, 13, 30])
        parts = []
        for _ in range(n):
            parts.append(r.choice(self.symbols) if r.random() < 0.25 else r.choice(ALPHABET))
        return "".join(parts)

    def unicode_text(self):
        r = self.rng
        n = r.choice([0, 1, 2, 5, 20])
        out = []
        for _ in range(n):
            k = r.random()
            if k < 0.4:
                out.append(chr(r.randint(0x20, 0x7E)))
            elif k < 0.7:
                out.append(chr(r.choice([0x00B5, 0x03BC, 0x2126, 0x00B2, 0x00B3, 0x00B9, 0x2070, 0x207B, 0x22C5, 0x00B7, 0x2212, 0x00C5, 0x212B, 0x2009, 0x00A0, 0xFEFF, 0x0660, 0xFF11,
                                         0x1D7D0, 0x0301, 0x200B, 0x2028, 0x0085, 0x0000, 0x000B, 0x001C])))
            else:
                c = r.randint(0x80, 0x2FFFF)
                if 0xD800 <= c <= 0xDFFF:
                    c = 0x4E00
                out.append(chr(c))
        return "".join(out)

    def any_text(self):
        k = self.rng.random()
        if k < 0.3:
            return self.valid_unit(), "valid_unit"
        if k < 0.5:
            return self.valid_quantity(), "valid_quantity"
        if k < 0.75:
            return self.mutated(), "mutated"
        if k < 0.92:
            return self.random_alphabet(), "random_alphabet"
        return self.unicode_text(), "unicode"


BOUNDARY = [
    "", " ", "\t\n", "1", "m", "m^", "m^-", "m^+2", "m^--2", "^2", "⁻", "²", "m⁻", "m⁻⁻¹", "m²²²", "m^222", "5", "5 ", "5.", ".5 m", "5..0 m", "5e m", "5e5 m", "1e999 m", "-1e999 m",
    "nan m", "inf m", "-inf m", "NaN m", "5 m/", "/m", "m/", "m//s", "m/s/s", "m*", "*m", "m**s", "m⋅", "⋅m", "m ⋅ ⋅ s", "5 5 m", "5m5", "+5 m", "-5 m", "--5 m", "+-5 m", "5 -m",
    "5 m^-0", "5 m^0", "5 m⁰", "5 1", "1", "11", "1 1", "5 (m)", "5 m)", "(", ")", "°", "°C", "5 °C", "5 °", "5 .", ". m", "5 ft.", "5 ft..", "5 Ω", "5 μm", "5 µm", "5 µ", "5 Å", "5 Å",
    "5 m\x00", "\x005 m", "5 m", "5 m", "５ m", "5 m²⋅A³/s^3", "5 m²A³s⁻³", "m" * 5000, "5 " + "m " * 3000, "5 " + "m*" * 3000 + "m", "5 m^" + "9" * 40,
    "9" * 400 + " m", "5 m" + "²" * 300, "5 " + "/".join(["m"] * 50), "1e5", "e5 m", "5e5", "5 e5", "5 E", "0x10 m", "1_000 m", "5 m^2^2", "5 m²^2", "5 m^2²",
    # exponents at the edge of what int() accepts (4300 digits) times a prefix exponent, mixed bases
    "km^" + "4" * 4300 + "⋅KiB", "KiB/km^" + "7" * 4299, "5 Mm^" + "3" * 4200 + " B", "km^" + "9" * 4300 + "*KiB", "2 kB^" + "9" * 4300, "KiB^" + "1" * 4300 + "/km",
    # 308-digit exponents: a float prefix exponent becomes inf, and inf - inf is nan, before another base joins
    "kB^2" + "0" * 307 + "⋅km^-2" + "0" * 307, "1.5 kB^2" + "0" * 307 + "*km^-2" + "0" * 307, "kB^2" + "0" * 307 + "⋅kB^-2" + "0" * 307 + "⋅km",
    "MB^15" + "0" * 306 + "/MB^15" + "0" * 306 + "*KiB", "kB^17" + "9" * 306, "3 kB^-2" + "0" * 307 + " km^2" + "0" * 307,
    "km*B^1" + "0" * 400, "B^1" + "0" * 400 + "*km", "km/B^1" + "0" * 400, "KiB*km^1" + "0" * 400, "5 km/B^-1" + "0" * 400, "KiB^10000000*km",
    "km/KiB^10000000", "3.5 ms*MiB" + "⁹" * 350, "m/kB^-" + "9" * 400, "Mb^7" + "0" * 309 + "/Kib",
    "dB^" + "9" * 400, "kB^" + "9" * 400, "kB" + "⁹" * 400, "5 kB^-" + "9" * 330, "kB^" + "9" * 310, "MiB^1" + "0" * 320, "kB^" + "9" * 30,
    "5 m^" + "9" * 5000, "m^" + "9" * 5000, "m" + "⁹" * 5000, "m^-" + "9" * 4400, "5 m" + "⁹" * 5000, "9" * 5000 + " m", "5 m^-" + "9" * 4301, "1" * 4301 + " 1",
]
