"""C12 — comparisons are coherent: symmetric ==, physical total order, hash agrees."""
from __future__ import annotations

from decimal import Decimal
from fractions import Fraction

from .. import core, kit, model, oracle, synth

ID = "C12"
LEVEL = "exploration"
RULE = ("pairs and lists of quantities of one dimension in convertible units and prefixes (int/float/Decimal), values "
        "placed by the oracle at chosen SI ratios (equal, +-1e-3, x2, x10...); all six comparison operators in both "
        "argument orders, hash on every pair found equal, sorted() on lists of 3..12; levels over several logarithmic "
        "units and measurements with uncertainties from 0 to larger than the measurand (nested, disjoint, touching, "
        "cross-unit intervals) for the symmetry clause.  distinct = (type pair, shapes / unit pair, ordering of the SI "
        "values or interval relation); non-trivial = the operands are not the same object"
        " Plus exact int/Decimal magnitudes beyond float, temperature scales judged by exact kelvin values, \"ladders\" of small round readings in everyday units (neighbours such as -1/-2 side by side, pairs 1e-10 apart across units) compared back to back and sorted, and incomparable partners (other dimension, plain numbers) for measurements and levels."
        " Unit pairs with a conversion in one direction only are found by probing (shipped units and a crate = span**3 family of the program's own): both argument orders rest on the one conversion, so every operator must mirror exactly."
        " Plus equivalences declared from a prefixed side, and operator coherence inside the tie band."
        " Quantities hashed by another process before it stored them (pickled list/dict/set) and quantities hashed here before an in-place edit or a copy hash like equal fresh ones; levels in different logarithmic units denoting quantities 1e-15..1e-6 apart compare the same in both orders.")
ASSUMPTIONS = [
    "physical order is judged by oracle SI values; pairs within the tie band (1e-5 per degree + size-interval width) "
    "are only required to be consistent (never both < and >), not to be == ",
    "Measurement and Level are unhashable by design; the hash clause is checked for Quantity only",
]
SHARDS = {"quick": 4, "thorough": 14}
TOL = Fraction(1, 100000)
R9 = Fraction(1, 10**9)


def hash_key(a, b):
    if a.unit is b.unit and type(a.magnitude) is type(b.magnitude) and a.magnitude == b.magnitude:
        return "C12:identical-quantities-unequal-or-hash-differs"
    return "C12:equal-but-written-differently-hash-differs"


def run(ctx):
    env = kit.Env(ctx)
    kit.aliasing_probe(ctx, env.m, "C12")   # before anything else: what follows runs in a process whose program aliases and updates in place
    m, mdl, pools, rng, orc = env.m, env.mdl, env.pools, ctx.rng, env.orc
    Q, Measurement, approximately = m.Quantity, m.Measurement, m.approximately
    CNF = env.conv.ConversionNotFound

    def express(value, factors, kind="float"):
        u = mdl.eval_real(pools.factors_term(factors))
        lo, hi, _ = orc.unit_size(u)
        x = value / ((lo + hi) / 2)
        if kind == "int" and x.denominator == 1:
            return Q(int(x), u)
        if kind == "decimal":
            return Q(Decimal(repr(core.sf(x))), u)
        return Q(core.sf(x), u)

    def si(q):
        return orc.si_value(q.magnitude, q.unit)[:2]

    def ordering(a, b):
        """-1, +1 or 0 (tie band)"""
        sa, sb = si(a), si(b)
        scale = max(abs(sa[0]), abs(sa[1]), abs(sb[0]), abs(sb[1]))
        band = scale * (TOL * orc.degree(a.unit, b.unit) + R9)
        if sa[1] + band < sb[0]:
            return -1
        if sb[1] + band < sa[0]:
            return 1
        return 0

    import math

    def ok_mag(q, zero_ok=False):
        # keep every partial product of a conversion well inside the float range: under/overflow
        # (a magnitude collapsing to 0.0 or inf) is not a comparison question
        if not kit.finite(q.magnitude):
            return False
        if q.magnitude == 0:
            return zero_ok
        if not (1e-40 < abs(q.magnitude) < 1e40):
            return False
        return orc.dynamic_range(q.unit) + abs(math.log10(abs(float(q.magnitude)))) < 150

    def truth(a, b):
        """all six operators, both orders; None when an ordering raises TypeError (no route)"""
        try:
            return {"eq": a == b, "ne": a != b, "lt": a < b, "le": a <= b, "gt": a > b, "ge": a >= b,
                    "req": b == a, "rne": b != a, "rlt": b < a, "rle": b <= a, "rgt": b > a, "rge": b >= a}
        except TypeError:
            return None
        except Exception as e:  # an internal error of the planner is C07's business: no answer here
            ctx.count(f"comparisons_other_exception/{type(e).__name__}")
            return "error"

    # ---- exact equal pairs from integer-ratio declarations (hash clause) ---------------------
    exact_pairs = []
    for d in env.b.decls:
        if d["am"] == 1 and isinstance(d["bm"], int) and not isinstance(d["bm"], bool) and d["au"] is not d["bu"] and 0 < d["bm"] < 10**6:
            exact_pairs.append((Q(1, d["au"]), Q(d["bm"], d["bu"])))
    for name in ("meter", "gram", "second", "watt", "joule", "bit"):
        u = m.Unit._by_name[name]
        exact_pairs.append((Q(1, pools.prefixes["kilo"] * u), Q(1000, u)))
        exact_pairs.append((Q(5, pools.prefixes["mega"] * u), Q(5000, pools.prefixes["kilo"] * u)))
    if ctx.shard == 0:
        for a, b in exact_pairs:
            ctx.count("evaluations")
            ctx.count("pairs/Q-Q/declared_equal")
            t = truth(a, b)
            if t is None or t == "error":
                ctx.count("declared_equal_pairs_without_route")
                continue
            ctx.distinct(("declared-equal", str(a.unit), str(b.unit)))
            if t["eq"] and t["req"]:
                ctx.count("hash_checks")
                if hash(a) != hash(b):
                    key = hash_key(a, b)
                    ctx.violation(key, f"{a} == {b} but hash differs", {"a": repr(a), "b": repr(b)})
            elif t["eq"] != t["req"]:
                ctx.violation("C12:eq-not-symmetric", f"{a!r} == {b!r} is {t['eq']} but reverse is {t['req']}", {"a": repr(a), "b": repr(b)})

    # ---- generated quantity pairs ---------------------------------------------------------------
    n = ctx.scale(12000, 500_000)
    ratios = [Fraction(1), Fraction(1), Fraction(1001, 1000), Fraction(999, 1000), Fraction(2), Fraction(1, 2), Fraction(10), Fraction(-1), Fraction(-3), Fraction(0)]
    for i in range(n):
        ctx.count("evaluations")
        fa = pools.random_factors(rng, max_factors=rng.choice([1, 1, 2, 3]), hostile=0.2, physical_only=True)
        try:
            ua = mdl.eval_real(pools.factors_term(fa))
        except Exception:
            continue
        if not orc.knows(ua):
            continue
        a = Q(pools.magnitude(rng, allow_zero=True), ua)
        if not ok_mag(a, zero_ok=True):
            continue
        alo, ahi = si(a)
        base = (alo + ahi) / 2
        r = rng.choice(ratios)
        fb = pools.same_dimension_alternative(rng, fa, compose_prob=0.2) if rng.random() < 0.85 else fa
        try:
            b = express(base * r if base else Fraction(r), fb, kind=rng.choice(["float", "float", "int", "decimal"]))
        except Exception:
            continue
        if not ok_mag(b, zero_ok=(base == 0 or r == 0)):
            ctx.count("skipped_magnitude_out_of_range")
            continue
        case = {"a": [model.enc_mag(a.magnitude), pools.factors_term(fa)], "b": [model.enc_mag(b.magnitude), pools.factors_term(fb)]}
        ctx.count("pairs/Q-Q/generated")
        # reflexive
        if not (a == a) or (a != a) or a < a or a > a or not (a <= a) or not (a >= a):
            ctx.violation("C12:not-reflexive", f"{a!r} compared with itself", case)
        t = truth(a, b)
        if t == "error":
            continue
        if t is None:
            ctx.count("pairs_without_route")
            # == must still answer (False) without raising, symmetrically
            try:
                if (a == b) or (b == a):
                    ctx.violation("C12:eq-true-without-route", f"{a!r} == {b!r}", case)
            except Exception as e:
                ctx.count(f"comparisons_other_exception/{type(e).__name__}")
            continue
        o = ordering(a, b)
        ctx.distinct(("Q-Q", pools.shape_class(fa), pools.shape_class(fb), o), a is not b)
        if t["eq"] == t["ne"] or t["req"] == t["rne"]:
            ctx.violation("C12:eq-and-ne-agree", f"{a!r} vs {b!r}: {t}", case)
        if o != 0 and (t["eq"] != t["req"] or t["ne"] != t["rne"]):
            ctx.violation("C12:eq-not-symmetric", f"{a!r} vs {b!r}: {t}", case)
        if o != 0 and (t["le"] != t["rge"] or t["ge"] != t["rle"] or t["lt"] != t["rgt"] or t["gt"] != t["rlt"]):
            ctx.violation("C12:order-operators-do-not-mirror", f"{a!r} vs {b!r}: {t}", case)
        if o == 0:
            ctx.count("ties")
            if t["lt"] and t["gt"]:
                ctx.violation("C12:both-less-and-greater", f"{a!r} vs {b!r}: {t}", case)
            # inside the tie band rounding decides WHICH of < == > holds, but what == says binds the others in the same
            # argument order: equal is neither less nor greater, and <= is < or ==
            for eq_, lt_, gt_, le_, ge_ in (("eq", "lt", "gt", "le", "ge"), ("req", "rlt", "rgt", "rle", "rge")):
                if (t[eq_] and (t[lt_] or t[gt_])) or t[le_] != (t[lt_] or t[eq_]) or t[ge_] != (t[gt_] or t[eq_]):
                    ctx.violation("C12:operators-contradict-each-other-at-a-tie", f"{a!r} vs {b!r}: {({k: t[k] for k in (eq_, lt_, gt_, le_, ge_)})}", case)
                    break
        else:
            ctx.count("away_from_ties")
            want = {"eq": False, "ne": True, "lt": o < 0, "le": o < 0, "gt": o > 0, "ge": o > 0}
            if any(t[k] is not v for k, v in want.items()):
                ctx.violation("C12:order-disagrees-with-physical-values", f"{a!r} vs {b!r}: got {({k: t[k] for k in want})}, SI order {o}", case)
        if t["eq"] and t["req"]:
            ctx.count("hash_checks")
            if hash(a) != hash(b):
                ctx.violation(hash_key(a, b), f"{a!r} == {b!r} but hash(a) != hash(b)", case)
        # two separately built quantities with the same magnitude and unit are equal and hash equal
        twin = Q(type(a.magnitude)(a.magnitude), mdl.eval_real(pools.factors_term(fa)))
        ctx.count("hash_checks_identical_twins")
        if not (twin == a) or hash(twin) != hash(a):
            ctx.violation("C12:identical-quantities-unequal-or-hash-differs", f"{a!r} built twice: == {twin == a}, hashes {hash(a)} {hash(twin)}", case)
        if i % 600 == 11 and a.unit is not b.unit:
            ctx.sample({"a": str(a), "b": str(b), "si_order": o, "lt": t["lt"], "eq": t["eq"]})

        # sorted() of a mixed-unit list
        if rng.random() < 0.15:
            items = [a, b]
            for _ in range(rng.randint(1, 10)):
                try:
                    f2 = pools.same_dimension_alternative(rng, fa, compose_prob=0.1)
                    x = express(base * Fraction(rng.randint(-2000, 4000), 1000) if base else Fraction(rng.randint(-5, 5)), f2)
                    if ok_mag(x):
                        items.append(x)
                except Exception:
                    pass
            rng.shuffle(items)
            try:
                s = sorted(items)
            except TypeError:
                ctx.count("sorted_without_route")
                s = None
            except Exception as e:
                ctx.count(f"comparisons_other_exception/{type(e).__name__}")
                s = None
            if s is not None:
                ctx.count("sorted_lists")
                ctx.distinct(("sorted", len(items), pools.shape_class(fa)))
                for x, y in zip(s, s[1:]):
                    if ordering(x, y) > 0:
                        ctx.violation("C12:sorted-not-physical", f"sorted() put {x!r} before {y!r}", {"items": [repr(q) for q in items]})
                        break

        # measurements and approximately(): symmetry of == and !=
        am_, bm_ = abs(core.sf(a.magnitude)), abs(core.sf(b.magnitude))
        sig_a = rng.choice([0, 0, am_ * 0.01, am_ * 0.5, am_ * 3, 1])
        sig_b = rng.choice([0, 0, bm_ * 0.001, bm_ * 0.2, bm_ * 5, 1])
        try:
            ma, mb = Measurement(a, sig_a), Measurement(b, sig_b)
            objs = [("Q-M", a, mb), ("M-M", ma, mb), ("Q-M", b, ma)]
            if core.sf(a.magnitude) != 0:
                objs.append(("Q-approx", b, approximately(a, rng.choice([1e-7, 1e-3, 0.5]))))
                objs.append(("M-approx", mb, approximately(a, rng.choice([1e-7, 0.3]))))
        except Exception as e:
            ctx.count(f"measurement_construction_failed/{type(e).__name__}")
            objs = []
        for label, x, y in objs:
            ctx.count(f"pairs/{label}")
            try:
                e1, e2, n1, n2 = x == y, y == x, x != y, y != x
            except Exception as e:
                ctx.violation(f"C12:{label}:comparison-raised:{type(e).__name__}", f"{x!r} == {y!r} raised {e}", case)
                continue
            rel = "sym"
            ctx.distinct((label, pools.shape_class(fa), pools.shape_class(fb), bool(sig_a), bool(sig_b), o, e1))
            if e1 != e2 or n1 != n2 or e1 == n1:
                ctx.violation(f"C12:{label}:eq-not-symmetric", f"{x!r} == {y!r} is {e1}, reverse {e2}; != {n1}/{n2}", {**case, "sig_a": repr(sig_a), "sig_b": repr(sig_b)})

    one_way_routes(ctx, env)
    declared_from_a_prefixed_side(ctx, env)
    temperatures(ctx, env)
    levels(ctx, env)
    levels_written_in_other_logarithmic_units(ctx, env)
    hashes_after_storage_and_editing(ctx, env)
    exact_magnitudes(ctx, env)
    ladders(ctx, env)
    for e in ctx.known:
        if e.get("status") == "known":
            ctx.witness(e["key"], ctx.known_hits.get(e["key"], 0) > 0)
    # the same questions asked by two threads at once (deterministic line scheduler, units of the scenario's own with exact
    # ratios, the temperature scales, levels): what this property says about an answer holds for every thread's answer
    if ctx.shard == 0:
        from .. import concurrent_conv
        _mon = locals().get("mon")
        if _mon is not None:
            _mon.paused = True
        try:
            concurrent_conv.section(ctx, env, trials=(36 if ctx.tier == "quick" else 600), key="C12")
        finally:
            if _mon is not None:
                _mon.paused = False
    ctx.require("away_from_ties", 100)
    ctx.require("hash_checks", 5)
    ctx.require("pairs/M-M", 100)


HASHING_WRITER = r"""
import sys, json, base64, pickle
from vmon import boot
b = boot.boot()
m = b.measured
U, P, Q = m.Unit._by_name, m.Prefix._by_name, m.Quantity
cases = json.loads(sys.stdin.read())
qs = []
for mag, prefix, unit, exponent in cases:
    u = U[unit] ** exponent
    if prefix:
        u = P[prefix] * u
    qs.append(Q(mag, u))
hashes = [hash(q) for q in qs]                    # the writer used them as keys before it stored them
as_keys = {q: i for i, q in enumerate(qs)}
as_set = set(qs)
print(base64.b64encode(pickle.dumps({"list": qs, "dict": as_keys, "set": as_set}, int(sys.argv[1]))).decode())
"""


def hashes_after_storage_and_editing(ctx, env):
    """equal quantities hash equal also when one of them was hashed earlier: by another process that then stored it
    (a pickled dict keyed by quantities, a pickled set), or by this one before the quantity was edited in place or copied"""
    import base64, copy, json, pickle, subprocess, sys
    m, rng = env.m, ctx.rng
    U, P, Q = m.Unit._by_name, m.Prefix._by_name, m.Quantity
    names = [n for n in ("meter", "second", "gram", "newton", "joule", "watt", "volt", "foot", "hour", "byte", "pascal") if n in U]
    prefixes = [None, None, "kilo", "milli", "micro", "mega", "kibi"]
    cases = []
    for _ in range(40 if ctx.tier == "quick" else 400):
        cases.append([rng.choice([1, 2, 5, 1000, 0.5, 2.25, -3, 10 ** 6]), rng.choice(prefixes), rng.choice(names), rng.choice([1, 1, 2, -1])])

    def fresh(case):
        mag, prefix, unit, exponent = case
        u = U[unit] ** exponent
        return Q(mag, P[prefix] * u if prefix else u)

    # (a) written by another process, after it had hashed them
    for protocol in (2, 5):
        try:
            p = subprocess.run([sys.executable, "-B", "-c", HASHING_WRITER, str(protocol)], input=json.dumps(cases), capture_output=True, text=True, timeout=300, env=synth.child_env())
            stored = pickle.loads(base64.b64decode(p.stdout))
        except Exception as e:
            ctx.count(f"hashing_writer_failed/{type(e).__name__}")
            continue
        ctx.count("stores_written_by_another_process")
        for i, case in enumerate(cases):
            f, loaded = fresh(case), stored["list"][i]
            ctx.count("evaluations")
            ctx.count("hash_checks_on_stored_quantities")
            c = {"case": case, "protocol": protocol}
            if not (loaded == f and f == loaded):
                ctx.violation("C12:stored-quantity-unequal-to-the-same-quantity-built-here", f"{loaded!r} read from a store != {f!r}", c)
                continue
            if hash(loaded) != hash(f):
                ctx.violation("C12:equal-but-hash-differs:hashed-before-it-was-stored", f"{loaded!r} (hashed by the writer, then pickled) == {f!r} but the hashes differ", c)
                continue
            if f not in stored["set"] or f not in stored["dict"] or loaded not in {f}:
                ctx.violation("C12:equal-but-not-found-in-a-stored-set-or-dict", f"{f!r} is not found among the keys read from the store although an equal key is there", c)
    # (b) hashed here, then edited in place / copied and edited
    for case in cases:
        q = fresh(case)
        hash(q)
        {q: 1}
        other = rng.choice([7, 0.125, case[0] * 2])
        how = rng.choice(["edit-magnitude", "copy-then-edit", "deepcopy-then-edit", "edit-unit"])
        try:
            if how == "copy-then-edit":
                q = copy.copy(q)
            elif how == "deepcopy-then-edit":
                q = copy.deepcopy(q)
            if how == "edit-unit":
                q.unit = U["candela"]
                f = Q(case[0], U["candela"])
            else:
                q.magnitude = other
                f = fresh([other] + case[1:])
        except AttributeError:
            ctx.count("quantities_that_refuse_in_place_edits")
            continue
        ctx.count("evaluations")
        ctx.count("hash_checks_after_in_place_edits")
        ctx.distinct(("hash-after", how))
        if q == f and f == q and hash(q) != hash(f):
            ctx.violation("C12:equal-but-hash-differs:hashed-before-it-was-edited", f"{q!r} ({how} after hash()) == {f!r} but the hashes differ", {"case": case, "how": how})


def levels_written_in_other_logarithmic_units(ctx, env):
    """two levels that denote nearly the same quantity, written in different logarithmic units (dB, B, Np; other
    references): whatever == answers, it answers the same in both orders, and != is its negation"""
    import math
    m, rng = env.m, ctx.rng
    U = m.Unit._by_name
    P = env.pools.prefixes
    refs = [1 * U["watt"], 1 * (P["milli"] * U["watt"]), 1 * U["volt"], 20 * (P["micro"] * U["pascal"])]
    logs = [m.Decibel, m.Bel, m.Neper]
    for _ in range(400 if ctx.tier == "quick" else 20000):
        ref = rng.choice(refs)
        ref2 = rng.choice([r for r in refs if r.unit.dimension is ref.unit.dimension])
        la, lb = rng.choice(logs)[ref], rng.choice(logs)[ref2]
        x = rng.choice([0, 0, 3, 10, -20, 6.5, 30, 1e-9, 0.25]) * la
        try:
            q = x.quantify()
            eps = rng.choice([0, 1e-15, 1e-13, 1e-12, 1e-11, 1e-10, 5e-10, 1e-9, 2e-9, 1e-8, 1e-7, 1e-6]) * rng.choice([1, -1, 2.5])
            y = (q * (1 + eps)).level(lb)
            if rng.random() < 0.3 and abs(y.magnitude) < 1e-6:
                y = rng.choice([5e-10, -5e-10, 2e-10, 9e-10, 1.5e-9, 1e-10]) * lb      # written directly, next to a level of 0
        except Exception as e:
            ctx.count(f"near_levels_not_built/{type(e).__name__}")
            continue
        ctx.count("evaluations")
        ctx.count("pairs/L-L-nearly-equal")
        try:
            e1, e2, n1, n2 = x == y, y == x, x != y, y != x
        except Exception as e:
            ctx.violation(f"C12:L-L:comparison-raised:{type(e).__name__}", f"{x!r} == {y!r} raised {type(e).__name__}: {e}", {"x": repr(x), "y": repr(y)})
            continue
        ctx.distinct(("near-levels", str(la), str(lb), e1))
        if e1 != e2 or n1 != n2 or e1 == n1:
            ctx.violation("C12:L-L:eq-not-symmetric", f"{x!r} == {y!r} is {e1}, reverse {e2}; != {n1}/{n2}", {"x": repr(x), "y": repr(y), "eps": eps})


def declared_from_a_prefixed_side(ctx, env):
    """equivalences of the user's own stated with a prefix on the left-hand side ((kilo*pace).equals(1 * mile'),
    conversions.equate(1 * (kilo*a), 5 * b)) or on the right: the two units then compare coherently in both argument
    orders - exact binary ratios, values placed well away from ties"""
    m, rng = env.m, ctx.rng
    Q, P = m.Quantity, env.pools.prefixes
    for k in range(6 if ctx.tier == "quick" else 200):
        a = m.Unit.define(m.Length, f"zqc12pl{ctx.shard}a{k}", f"zqc12pl{ctx.shard}a{k}")
        b = m.Unit.define(m.Length, f"zqc12pl{ctx.shard}b{k}", f"zqc12pl{ctx.shard}b{k}")
        pname = rng.choice(["kilo", "mega", "kibi", "milli"])
        p = P[pname]
        pv = float(oracle.prefix_value(p))
        j = rng.choice([1, 2, 4, 0.5])
        side = rng.choice(["left", "left", "right"])
        how = rng.choice(["equals", "equate"])
        if side == "left":
            (p * a).equals(Q(j, b)) if how == "equals" else env.conv.equate(Q(1, p * a), Q(j, b))
            a_in_b = j / pv               # 1 a = j/pv b
        else:
            a.equals(Q(j, p * b)) if how == "equals" else env.conv.equate(Q(1, a), Q(j, p * b))
            a_in_b = j * pv
        for x, y_factor in ((8.0, 1.0), (8.0, 2.0), (3.0, 0.5), (1.0, 1.0)):
            qa, qb = Q(x, a), Q(x * a_in_b * y_factor, b)      # qb is y_factor times qa
            want = {"eq": y_factor == 1.0, "ne": y_factor != 1.0, "lt": y_factor > 1.0, "le": y_factor >= 1.0, "gt": y_factor < 1.0, "ge": y_factor <= 1.0}
            import operator as _op
            ctx.count("evaluations")
            ctx.count("pairs/Q-Q/declared_from_a_prefixed_side")
            ctx.distinct(("prefixed-side", side, how, pname, y_factor), True)
            case = {"prefix": pname, "side": side, "how": how, "a": repr(qa), "b": repr(qb)}
            try:
                got = {n: getattr(_op, n)(qa, qb) for n in want}
                mirrored = {"eq": qb == qa, "ne": qb != qa, "lt": qb > qa, "le": qb >= qa, "gt": qb < qa, "ge": qb <= qa}
            except Exception as e:
                ctx.violation(f"C12:comparison-raised:{type(e).__name__}", f"{qa!r} against {qb!r} after the equivalence was declared with a prefix on the {side}: {e}", case)
                continue
            if got != want or mirrored != want:
                ctx.violation("C12:order-disagrees-with-physical-values", f"after an equivalence declared with a prefix on the {side}-hand side ({how}): {qa!r} vs {qb!r} "
                              f"(the second is {y_factor} times the first): {got}, with the operands swapped {mirrored}", case)


def one_way_routes(ctx, env):
    """pairs of units between which the planner finds a conversion in one direction only (a named volume against a unit
    declared as the cube of a length, ...).  Both a == b and b == a then rest on the one conversion there is - Python hands
    the comparison to the other operand when the first one cannot convert - so whatever the rounding, the answers of the
    two argument orders are one answer: == symmetric, != its negation, < mirrored by >, exactly one of < == > true.  The
    pairs are found by probing (shipped units of a few dimensions, and the program's own crate = span**3 family); b is a
    converted by the library itself, so the two are equal as far as the library can tell"""
    m, pools, rng = env.m, env.pools, ctx.rng
    Q, CNF = m.Quantity, env.conv.ConversionNotFound

    def converts(x, u):
        try:
            return Q(x, u[0]).in_unit(u[1])
        except CNF:
            return None
        except Exception:
            return "error"

    tag = f"zqc12ow{ctx.shard}"
    span = m.Unit.define(m.Length, f"{tag}span", f"{tag}sp")
    span.equals(2 * m.Unit._by_name["meter"])
    own = [m.Unit.derive(span**3, f"{tag}crate", f"{tag}cr"), m.Unit.derive(span**2, f"{tag}plot", f"{tag}pl"),
           m.Unit.derive(span / m.Unit._by_name["second"], f"{tag}pace", f"{tag}pc")]
    candidates = []
    for o in own:
        for nm in pools.by_dim_moderate.get(env.mdl.dim_of_unit(o), []):
            candidates.append((o, pools.units[nm]))
    for dim_units in pools.by_dim_moderate.values():
        us = [pools.units[n] for n in dim_units]
        if 3 <= len(us) <= 60:
            for _ in range(40 if ctx.tier == "quick" else 400):
                candidates.append(tuple(rng.sample(us, 2)))
    rng.shuffle(candidates)
    found = 0
    for ua, ub in candidates[: (1500 if ctx.tier == "quick" else 30000)]:
        ctx.count("unit_pairs_probed_for_one_way_routes")
        there, back = converts(3, (ua, ub)), converts(3, (ub, ua))
        if "error" in (there, back) or (there is None) == (back is None):
            continue
        if there is None:
            ua, ub, there = ub, ua, back
        found += 1
        a, b = Q(3, ua), there          # a converts into b's unit; b's unit does not convert back
        case = {"a": repr(a), "b": repr(b)}
        ctx.count("evaluations")
        ctx.count("pairs/Q-Q/one_way_route")
        ctx.distinct(("one-way", str(ua), str(ub)), True)
        try:
            t = {"eq": a == b, "ne": a != b, "lt": a < b, "le": a <= b, "gt": a > b, "ge": a >= b,
                 "req": b == a, "rne": b != a, "rlt": b < a, "rle": b <= a, "rgt": b > a, "rge": b >= a}
        except Exception as e:
            ctx.violation(f"C12:comparison-raised:{type(e).__name__}:one-way-route", f"{a!r} against {b!r} (its own conversion): {e}", case)
            continue
        if t["eq"] != t["req"] or t["ne"] != t["rne"] or t["eq"] == t["ne"]:
            ctx.violation("C12:eq-not-symmetric", f"{a!r} and {b!r} (the library's own conversion of it; only this direction converts): == {t['eq']}, reversed {t['req']}, "
                          f"!= {t['ne']}, reversed {t['rne']}", case)
        if t["lt"] != t["rgt"] or t["gt"] != t["rlt"] or t["le"] != t["rge"] or t["ge"] != t["rle"]:
            ctx.violation("C12:order-operators-do-not-mirror", f"{a!r} and {b!r} (only one direction converts): {t}", case)
        if sum(1 for k in ("lt", "eq", "gt") if t[k]) != 1 or sum(1 for k in ("rlt", "req", "rgt") if t[k]) != 1:
            ctx.violation("C12:not-exactly-one-of-lt-eq-gt", f"{a!r} and {b!r} (only one direction converts): {t}", case)
        if t["le"] != (t["lt"] or t["eq"]) or t["rle"] != (t["rlt"] or t["req"]):
            ctx.violation("C12:le-is-not-lt-or-eq", f"{a!r} and {b!r} (only one direction converts): {t}", case)
    ctx.count("one_way_routes_found", found)


def ladders(ctx, env):
    """what people actually sort: a handful of small round readings (-3 .. 3, halves, tens; int, float, Decimal) of one
    kind in two or three everyday units with exact ratios (m / ft / in / km / yd, s / min / h, g / kg / lb), every pair
    compared in sequence with all six operators and the whole list sorted.  Exact rational values decide; consecutive
    comparisons of neighbouring small numbers are the point (values that collide in a hash, 0 and -0.0, 1 and 1.0)"""
    m, rng = env.m, ctx.rng
    U, P = m.Unit._by_name, env.pools.prefixes
    Q = m.Quantity
    families = [
        [(U["meter"], Fraction(1)), (U["foot"], Fraction(3048, 10000)), (U["inch"], Fraction(254, 10000)), (P["kilo"] * U["meter"], Fraction(1000)), (U["yard"], Fraction(9144, 10000))],
        [(U["second"], Fraction(1)), (U["minute"], Fraction(60)), (U["hour"], Fraction(3600)), (P["milli"] * U["second"], Fraction(1, 1000))],
        [(U["gram"], Fraction(1)), (P["kilo"] * U["gram"], Fraction(1000)), (U["pound"], Fraction(45359237, 100000))],
    ]
    families = [f for f in families if all(u is not None for u, _ in f)]
    readings = [-3, -2, -1, 0, 1, 2, 3, 5, 10, 12, -0.5, 0.5, 1.5, -1.0, -2.0, 2.0, 0.0, 100, Decimal("-1"), Decimal("-2"), Decimal("2.5"), Decimal("0")]
    rounds = 120 if ctx.tier == "quick" else 4000
    for _ in range(rounds):
        fam = rng.choice(families)
        units = rng.sample(fam, rng.choice([2, 2, 3]))
        items = []
        for _ in range(rng.randint(3, 6)):
            u, size = rng.choice(units)
            x = rng.choice(readings)
            items.append((Q(x, u), oracle.F(x) * size))
        # neighbours in one unit, side by side: -1 and -2 (equal hashes in CPython), 1 and 1.0, 0 and -0.0
        u, size = rng.choice(units)
        for x in rng.choice([(-1, -2), (-2.0, -1.0), (Decimal("-1"), Decimal("-2")), (1, 1.0, 2), (0, -0.0, 1), (-1, -2.0, -3)]):
            items.append((Q(x, u), oracle.F(x) * size))
        # two readings a few parts in 10**10 apart, written in two different units with an exact ratio (1.0 mi and
        # 1609.3440005 m): a million float steps apart, so no floating-point tie - exactly one of <, ==, > holds
        if len(units) >= 2 and rng.random() < 0.6:
            (u1, s1), (u2, s2) = rng.sample(units, 2)
            x = rng.choice([1.0, 2.5, 100.0, 0.75, 12.0])
            y = core.sf(Fraction(x) * s1 / s2) * (1 + rng.choice([3e-10, -3e-10, 2e-11, -5e-12]))
            items.append((Q(x, u1), Fraction(x) * s1))
            items.append((Q(y, u2), Fraction(y) * s2))
        ctx.count("evaluations")
        ctx.count("ladders")
        ctx.distinct(("ladder", tuple(sorted(str(q.unit) for q, _ in items)), tuple(sorted(str(q.magnitude) for q, _ in items))))
        # all ordered pairs, one straight after the other
        for (a, va) in items:
            for (b, vb) in items:
                if a is b:
                    continue
                ctx.count("pairs/Q-Q/ladder")
                o = (va > vb) - (va < vb)
                if o == 0 and (a.unit is not b.unit or type(a.magnitude) is not type(b.magnitude)):
                    # equal values written in different units, or as a float and a Decimal under a fractional prefix
                    # (-1.0 ms is -0.001, Decimal(-1) ms is Decimal(0.001) exactly): rounding may tie-break either way
                    ctx.count("ties")
                    continue
                try:
                    t = {"eq": a == b, "ne": a != b, "lt": a < b, "le": a <= b, "gt": a > b, "ge": a >= b}
                except Exception as e:
                    ctx.violation(f"C12:ladder:comparison-raised:{type(e).__name__}", f"{a!r} vs {b!r}: {e}", {"a": repr(a), "b": repr(b)})
                    continue
                want = {"eq": o == 0, "ne": o != 0, "lt": o < 0, "le": o <= 0, "gt": o > 0, "ge": o >= 0}
                ctx.count("away_from_ties")
                if any(t[k] is not v for k, v in want.items()):
                    ctx.violation("C12:order-disagrees-with-physical-values", f"small readings {a!r} vs {b!r} (asked right after the other pairs of {[str(q) for q, _ in items]}): got {t}, exact order {o}",
                                  {"a": repr(a), "b": repr(b), "items": [repr(q) for q, _ in items]})
        try:
            s_ = sorted(q for q, _ in items)
        except Exception as e:
            ctx.violation(f"C12:ladder:sorted-raised:{type(e).__name__}", f"{[repr(q) for q, _ in items]}: {e}", {})
            continue
        ctx.count("sorted_lists")
        val = {id(q): v for q, v in items}
        for x, y in zip(s_, s_[1:]):
            if val[id(x)] > val[id(y)]:
                ctx.violation("C12:sorted-not-physical", f"sorted() of small readings put {x!r} before {y!r}: {[str(q) for q in s_]}", {"items": [repr(q) for q, _ in items]})
                break


def exact_magnitudes(ctx, env):
    """int and Decimal magnitudes that no float can hold (beyond 2**53, beyond 1e308, infinities) in one
    unit or in non-negative decimal/binary prefixes of one unit: nothing here is a floating-point tie, every
    step the library needs is exact integer/Decimal arithmetic, so the exact values decide every operator"""
    m, rng = env.m, ctx.rng
    U, P = m.Unit._by_name, env.pools.prefixes
    Q = m.Quantity
    bases = [U[n] for n in ("meter", "second", "gram", "bit", "joule", "foot", "ampere") if n in U]
    pfx = [None, None, "kilo", "mega", "giga", "deca", "hecto", "kibi", "mebi"]
    pfx = [p for p in pfx if p is None or p in P]
    anchors = [2**53, 2**53 + 1, 2**64, 10**16, 10**22, 10**30, 3 * 10**40, 10**400, 7 * 10**310, 12345678901234567890123]
    n = 600 if ctx.tier == "quick" else 40000

    def make(value, kind, unit, pv):
        """value is the exact value in the unprefixed unit"""
        x = value / pv
        if x.denominator != 1:
            return None
        x = int(x)
        if kind == "decimal":
            if len(str(abs(x)).rstrip("0")) > 22 or abs(x) >= 10**300:
                return None  # keep inside the default Decimal context: the library's products stay exact
            return Q(Decimal(x), unit)
        return Q(x, unit)

    for i in range(n):
        u = rng.choice(bases)
        pa, pb = rng.choice(pfx), rng.choice(pfx)
        if pa and pb and (P[pa].base != P[pb].base):
            pb = pa  # cross-base prefix products go through floats: C11's business
        ua = u if pa is None else P[pa] * u
        ub = u if pb is None else P[pb] * u
        pva = Fraction(1) if pa is None else oracle.prefix_value(P[pa])
        pvb = Fraction(1) if pb is None else oracle.prefix_value(P[pb])
        lcm = pva * pvb
        va = Fraction(rng.choice(anchors) + rng.choice([0, 0, 1, 2, 10**10])) * lcm * rng.choice([1, 1, -1])
        vb = va + rng.choice([0, 0, 1, -1, 2, 10**10, -(10**10)]) * lcm
        ka, kb = rng.choice(["int", "int", "decimal"]), rng.choice(["int", "int", "decimal"])
        a, b = make(va, ka, ua, pva), make(vb, kb, ub, pvb)
        if a is None or b is None:
            ctx.count("exact_magnitude_pairs_skipped")
            continue
        ctx.count("evaluations")
        ctx.count("pairs/Q-Q/exact_magnitudes")
        case = {"a": repr(a), "b": repr(b)}
        o = (va > vb) - (va < vb)
        ctx.distinct(("exact", ka, kb, pa or "-", pb or "-", o, abs(va) > 10**308), a is not b)
        try:
            t = {"eq": a == b, "ne": a != b, "lt": a < b, "le": a <= b, "gt": a > b, "ge": a >= b,
                 "req": b == a, "rne": b != a, "rlt": b < a, "rle": b <= a, "rgt": b > a, "rge": b >= a,
                 "refl": (a == a) and (b == b) and not (a != a)}
        except Exception as e:
            ctx.violation(f"C12:exact-magnitudes:comparison-raised:{type(e).__name__}", f"{a!r} vs {b!r}: {e}", case)
            continue
        ctx.count("away_from_ties")
        want = {"eq": o == 0, "ne": o != 0, "lt": o < 0, "le": o <= 0, "gt": o > 0, "ge": o >= 0,
                "req": o == 0, "rne": o != 0, "rlt": o > 0, "rle": o >= 0, "rgt": o < 0, "rge": o <= 0, "refl": True}
        if any(t[k] is not v for k, v in want.items()):
            ctx.violation("C12:order-disagrees-with-physical-values", f"exact magnitudes {a!r} vs {b!r}: got {t}, exact order {o}", case)
        if t["eq"] and t["req"]:
            ctx.count("hash_checks")
            if hash(a) != hash(b):
                key = "C12:identical-quantities-unequal-or-hash-differs" if a.unit is b.unit else "C12:equal-but-written-differently-hash-differs"
                ctx.violation(key, f"{a!r} == {b!r} but hash(a) != hash(b)", case)
    inf = float("inf")
    for u in bases:
        for x, y, same in ((inf, inf, True), (-inf, -inf, True), (inf, -inf, False), (Decimal("Infinity"), inf, True), (inf, 10**400, False)):
            a, b = Q(x, u), Q(y, u)
            ctx.count("evaluations")
            ctx.count("pairs/Q-Q/infinite_magnitudes")
            try:
                got = (a == b, b == a, a != b)
            except Exception as e:
                ctx.violation(f"C12:exact-magnitudes:comparison-raised:{type(e).__name__}", f"{a!r} vs {b!r}: {e}", {"a": repr(a), "b": repr(b)})
                continue
            if got != (same, same, not same):
                ctx.violation("C12:order-disagrees-with-physical-values", f"infinite magnitudes {a!r} == {b!r}: got (==, reversed ==, !=) = {got}", {"a": repr(a), "b": repr(b)})


def temperatures(ctx, env):
    """temperature scales are convertible units of one dimension too: coherence of the comparison
    operators across K / °C / °F / R (with prefixes), judged by exact kelvin values"""
    from . import c10

    m, rng = env.m, ctx.rng
    U, P = m.Unit._by_name, env.pools.prefixes
    if not all(s in U for s in c10.SCALES):
        return
    Q = m.Quantity
    n = 400 if ctx.tier == "quick" else 40000
    prefix_names = [None, None, None, "kilo", "milli", "micro", "mega"]

    def make(same_reading_as=None):
        scale, pfx = rng.choice(c10.SCALES), rng.choice(prefix_names)
        mag = same_reading_as if same_reading_as is not None else rng.choice([0, 0.0, 1, -10, 100, -40, 37.5, 273.15, -273.15, 300, 5, -459.67, 491.67, rng.uniform(-500, 3000), rng.randint(-300, 1000)])
        unit = U[scale] if pfx is None else P[pfx] * U[scale]
        pv = Fraction(1) if pfx is None else oracle.prefix_value(P[pfx])
        return Q(mag, unit), c10.to_kelvin(scale, oracle.F(mag) * pv)

    for _ in range(n):
        items = [make() for _ in range(rng.randint(2, 6))]
        if rng.random() < 0.25:
            items[1] = make(same_reading_as=items[0][0].magnitude)  # the same reading on (usually) another scale
        (a, ka), (b, kb) = items[0], items[1]
        ctx.count("evaluations")
        ctx.count("pairs/Q-Q/temperature_scales")
        ctx.distinct(("temperature", str(a.unit), str(b.unit), ka < kb, a.magnitude < 0, b.magnitude < 0), a.unit is not b.unit)
        case = {"a": repr(a), "b": repr(b), "kelvin": [float(ka), float(kb)]}
        try:
            t = {"eq": a == b, "ne": a != b, "lt": a < b, "le": a <= b, "gt": a > b, "ge": a >= b,
                 "req": b == a, "rne": b != a, "rlt": b < a, "rle": b <= a, "rgt": b > a, "rge": b >= a}
        except Exception as e:
            ctx.violation(f"C12:temperature:comparison-raised:{type(e).__name__}", f"{a!r} vs {b!r}: {e}", case)
            continue
        tie = abs(ka - kb) <= max(abs(ka), abs(kb), Fraction(273)) * Fraction(1, 10**9)
        if tie:
            ctx.count("ties")
            if t["lt"] and t["gt"]:
                ctx.violation("C12:both-less-and-greater", f"{a!r} vs {b!r}: {t}", case)
            continue
        ctx.count("away_from_ties")
        o = -1 if ka < kb else 1
        want = {"eq": False, "ne": True, "lt": o < 0, "le": o < 0, "gt": o > 0, "ge": o > 0,
                "req": False, "rne": True, "rlt": o > 0, "rle": o > 0, "rgt": o < 0, "rge": o < 0}
        if any(t[k] is not v for k, v in want.items()):
            ctx.violation("C12:order-disagrees-with-physical-values", f"temperatures {a!r} vs {b!r}: got {t}, kelvin values {float(ka)!r} vs {float(kb)!r}", case)
        try:
            s_ = sorted(q for q, _ in items)
        except Exception as e:
            ctx.violation(f"C12:temperature:sorted-raised:{type(e).__name__}", f"{[repr(q) for q, _ in items]}: {e}", case)
            continue
        ctx.count("sorted_lists")
        kel = {id(q): k for q, k in items}
        for x, y in zip(s_, s_[1:]):
            if kel[id(x)] - kel[id(y)] > max(abs(kel[id(x)]), Fraction(273)) * Fraction(1, 10**9):
                ctx.violation("C12:sorted-not-physical", f"sorted() put {x!r} before {y!r} (kelvin {float(kel[id(x)])!r} > {float(kel[id(y)])!r})", {"items": [repr(q) for q, _ in items]})
                break


def levels(ctx, env):
    m, rng = env.m, ctx.rng
    U = m.Unit._by_name
    P = env.pools.prefixes
    Q, Measurement = m.Quantity, m.Measurement
    refs = [1 * U["watt"], 1 * (P["milli"] * U["watt"]), 1 * U["volt"], 20 * (P["micro"] * U["pascal"]), 2.5 * (P["kilo"] * U["watt"])]
    logs = [m.Decibel, m.Bel, m.Neper]
    n = 150 if ctx.tier == "quick" else 5000
    for _ in range(n):
        ref = rng.choice(refs)
        lu = rng.choice(logs)[ref]
        lu2 = rng.choice(logs)[rng.choice([r for r in refs if r.unit.dimension is ref.unit.dimension])]
        lv = rng.choice([0, 3, 10, -20, 6.5, 30]) * lu
        lv2 = rng.choice([0, 3, 10, -20, 6.5, 30]) * lu2
        q = lv.quantify() if rng.random() < 0.5 else Q(rng.choice([1, 10, 1000, 0.5]), ref.unit)
        if rng.random() < 0.5:
            q = Q(q.magnitude * 1000, P["milli"] * q.unit) if q.unit.prefix.base == 0 else q
        mm = Measurement(q, rng.choice([0, 0.1 * abs(q.magnitude), 2 * abs(q.magnitude)]))
        # approximately() of a level, a measurement against something of another dimension or no quantity at all:
        # == answers (False where nothing can be compared) and answers the same in both orders
        other_dim = Q(rng.choice([1, 2.5]), U["second"] if q.unit.dimension is not U["second"].dimension else U["meter"])
        extras = [("L-approx(L)", lv2, m.approximately(lv, rng.choice([1e-6, 0.2]))), ("Q-approx(L)", q, m.approximately(lv, rng.choice([1e-6, 0.2]))),
                  ("M-Q-other-dimension", mm, other_dim), ("M-M-other-dimension", mm, Measurement(other_dim, 0.5)),
                  ("M-number", mm, rng.choice([5, 2.5, "text", None])), ("L-Q-other-dimension", lv, other_dim)]
        for label, x, y in [("Q-L", q, lv), ("L-L", lv, lv2), ("L-M", lv, mm)] + extras:
            ctx.count("evaluations")
            ctx.count(f"pairs/{label}")
            try:
                e1, e2, n1, n2 = x == y, y == x, x != y, y != x
            except Exception as e:
                ctx.violation(f"C12:{label}:comparison-raised:{type(e).__name__}", f"{x!r} == {y!r} raised {type(e).__name__}: {e}", {"x": repr(x), "y": repr(y)})
                continue
            ctx.distinct((label, str(lu), str(lu2), str(q.unit), e1))
            if ("other-dimension" in label or label == "M-number") and (e1 or e2):
                ctx.violation(f"C12:{label}:equal-although-incomparable", f"{x!r} == {y!r} is {e1}, reverse {e2}", {"x": repr(x), "y": repr(y)})
            if e1 != e2 or n1 != n2 or e1 == n1:
                ctx.violation(f"C12:{label}:eq-not-symmetric", f"{x!r} == {y!r} is {e1}, reverse {e2}; != {n1}/{n2}", {"x": repr(x), "y": repr(y)})
