"""C19 — declared names/symbols bind faithfully; failed definitions change nothing."""
from __future__ import annotations

import json
import os
import subprocess
import sys
from concurrent.futures import ThreadPoolExecutor

from .. import boot as B
from .. import core, synth

ID = "C19"
LEVEL = "fault_enumeration"
RULE = ("each case is one fresh interpreter (every fourth one started with python -O): import of the shipped modules under a random module order with every "
        "declaration replayed as an assertion (name -> object, object reports name, symbol resolves), then a random "
        "history of definition calls (define / unit / derive / alias / scale / Prefix(name=) / Dimension.derive / "
        "Dimension(name=) / equals) mixing anonymous-first and fresh construction and symbols that were already resolved "
        "earlier in the process as prefix + symbol (through resolve_symbol, Unit.parse, Quantity.parse, also between two "
        "module imports), each declaration then looked up through registries, resolvers and the parser, failing calls in every argument "
        "position (duplicate name, duplicate symbol, spaced symbol, wrong type, self/zero equivalence) and failpoints "
        "on entry to the callee at real call boundaries, with a full registry snapshot before and after every call and "
        "a bijection sweep every 10 steps.  distinct = (API function, argument position at fault / failpoint site, "
        "prior state class); non-trivial = the call touches a registry"
        " Histories also load objects pickled elsewhere before their declaration runs, use canonically equivalent Unicode spellings of taken symbols, scales with a zero point of another dimension, second names/symbols for named prefixes; every fourth runs under python -O."
        " Stored data written under OTHER declarations (same names, other prefixes/units) is read before the imports, after them or mid-history: no declared name may be rebound.  Dimensions are re-derived under the same name with a symbol, and under a second name."
        " Definition calls with arguments of the wrong kind (a unit for a dimension, swapped, None) must leave no trace; names that read as symbols are looked up by name through pydantic.")
ASSUMPTIONS = [
    "faults are injected only on entry to callees at call boundaries the real code has and that a real exception can "
    "reach (scale->translate with a bad zero point, unit->define, equals->equate, derive->alias)",
    "growth of Unit._known caused by evaluating the *arguments* of a call is excluded by building operands before the snapshot",
]
WORKER = os.path.join(os.path.dirname(os.path.dirname(os.path.abspath(__file__))), "c19_worker.py")


def run_worker(spec, timeout=300):
    try:
        p = subprocess.run([sys.executable, "-B"] + (["-O"] if spec.get("optimize") else []) + [WORKER, json.dumps(spec)], capture_output=True, text=True, timeout=timeout, env=synth.child_env())
    except subprocess.TimeoutExpired:
        return {"inconclusive": "worker timed out"}
    if p.returncode != 0:
        return {"inconclusive": f"worker exit {p.returncode}: {p.stderr[-500:]}"}
    try:
        return json.loads(p.stdout)
    except Exception as e:
        return {"inconclusive": f"unparsable worker output {e}: {p.stdout[:200]!r} {p.stderr[-300:]!r}"}


FOREIGN_DUMPER = r"""
import sys, json, base64, pickle, random
sys.path.insert(0, sys.argv[1])
from vmon import boot
b = boot.boot()
m = b.measured
rng = random.Random(int(sys.argv[2]))
out = []
P, U, D = m.Prefix, m.Unit, m.Dimension
for name in sorted(P._by_name):
    out.append(["prefix", name, P._by_name[name]])
seen = set()
for name in sorted(U._by_name):
    u = U._by_name[name]
    if id(u) in seen or u is m.One:
        continue
    seen.add(id(u))
    base = len(u.factors) == 1 and next(iter(u.factors)) is u
    out.append(["base-unit" if base else "unit", u.names[0], u])
for name in sorted(D._by_name):
    out.append(["dimension", name, D._by_name[name]])
for _ in range(40):
    a, c = rng.choice(out[len(P._by_name):len(P._by_name) + len(seen)])[2], rng.choice(out[len(P._by_name):len(P._by_name) + len(seen)])[2]
    out.append(["compound", None, a ** rng.choice([2, -1]) * c])
print(json.dumps([[k, n, base64.b64encode(pickle.dumps(o, rng.choice([2, 4, 5]))).decode()] for k, n, o in out]))
"""


OTHER_SCHEMA_DUMPER = r"""
import sys, json, base64, pickle, random
sys.path.insert(0, sys.argv[1])
import measured as m      # the core package only: this program declares, under names the unit modules also use, things of its own
rng = random.Random(int(sys.argv[2]))
P, U = m.Prefix, m.Unit
out = []
for name, symbol, base, exponent in (("kilo", "k", 10, 103), ("milli", "m", 10, -103), ("mebi", "Mi", 2, 121), ("hecto", "h", 10, 52)):
    out.append(["prefix", name, P(base, exponent, name, symbol)])
units = {}
for name, symbol, dim in (("meter", "m", m.Mass), ("second", "s", m.Length), ("gram", "g", m.Time), ("pixel", "px", m.Number), ("byte", "B", m.Length)):
    units[name] = U.define(dim, name, symbol)
    out.append(["base-unit", name, units[name]])
named = U.derive(units["meter"] / units["second"], "newton", "N")
out.append(["unit", "newton", named])
for _ in range(12):
    a, c = rng.choice(sorted(units)), rng.choice(sorted(units))
    out.append(["compound", None, units[a] ** rng.choice([2, -1, 1]) * units[c] * rng.choice([m.IdentityPrefix, out[0][2], out[1][2]])])
out.append(["quantity", None, 5 * (out[0][2] * units["meter"])])
print(json.dumps([[k, n, base64.b64encode(pickle.dumps(o, rng.choice([2, 4, 5]))).decode()] for k, n, o in out]))
"""


def other_schema_objects(ctx):
    """pickles written by a program whose declarations differ from the unit modules' (an older schema, another plugin):
    the same names and symbols stand for other prefixes and units there"""
    try:
        p = subprocess.run([sys.executable, "-B", "-c", OTHER_SCHEMA_DUMPER, os.path.join(core.REPO, "src"), str(ctx.seed)], capture_output=True, text=True, timeout=300,
                           env=synth.child_env())
        return json.loads(p.stdout)
    except Exception:
        ctx.count("other_schema_dumper_failed")
        return []


def foreign_objects(ctx):
    try:
        p = subprocess.run([sys.executable, "-B", "-c", FOREIGN_DUMPER, core.VERIF, str(ctx.seed)], capture_output=True, text=True, timeout=300, env=synth.child_env())
        return json.loads(p.stdout)
    except Exception as e:
        ctx.count("foreign_object_dumper_failed")
        return []


def run(ctx):
    rng = ctx.rng
    foreign = foreign_objects(ctx)
    other = other_schema_objects(ctx)
    n = ctx.scale(64, 1500)
    steps = 80 if ctx.tier == "quick" else 150
    specs = []
    for i in range(n):
        order = list(B.ALL_MODULES)
        rng.shuffle(order)
        specs.append({"seed": ctx.seed * 100003 + i, "steps": steps, "modules": "all", "order": order if i % 2 else None,
                      "failpoints": True, "allow_dimension_define": (i % 4 == 3), "lookups_between_imports": (i % 3 != 0), "optimize": (i % 4 == 2),
                      "foreign_first": (rng.sample(foreign, min(len(foreign), 80)) if (foreign and i % 4 == 1) else None),
                      "other_schema": ({"when": ["before-import", "after-import", "mid-history"][(i // 5) % 3], "blobs": other} if (other and i % 5 in (1, 3)) else None),
                      "force_failpoint_site": "Dimension.scale->conversions.translate" if i == 0 else None})
    with ThreadPoolExecutor(max_workers=14) as ex:
        results = list(ex.map(run_worker, specs))
    for spec, res in zip(specs, results):
        ctx.count("evaluations")
        ctx.count("histories")
        if spec["order"]:
            ctx.count("import_orders")
        if spec.get("optimize"):
            ctx.count("histories_under_python_O")
        if "inconclusive" in res or res.get("fatal"):
            ctx.not_reached(f"worker: {res.get('inconclusive') or res.get('fatal')}")
            continue
        for k, v in res["counts"].items():
            ctx.count(k, v)
            if k.startswith(("failing_calls/", "failpoints_fired/", "successful_calls/")):
                ctx.distinct(k)
        for v in res["violations"]:
            ctx.violation(v["key"], v["what"], {"seed": spec["seed"], "order": spec["order"], **(v.get("case") or {})})
        for s in res["samples"]:
            ctx.sample(s)
    # the count of suppressed/unsuppressed violations comes from the workers' records (at most
    # two per key and history); that is enough for the verdict
    for e in ctx.known:
        if e.get("status") == "known":
            ctx.witness(e["key"], ctx.known_hits.get(e["key"], 0) > 0)
    ctx.require("shipped_declarations_checked", 100)
    ctx.require("definition_calls_succeeded", 50)
    ctx.require("definition_calls_raised", 50)
    fired = sum(v for k, v in ctx.cov.get("failpoints_fired", {}).items()) if isinstance(ctx.cov.get("failpoints_fired"), dict) else 0
    if fired == 0:
        ctx.not_reached("no failpoint fired")
