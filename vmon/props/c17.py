"""C17 — parsing is total: any text yields a Unit/Quantity or ParseError/KeyError."""
from __future__ import annotations

import re

from .. import core, kit, textgen

ID = "C17"
LEVEL = "exploration"
RULE = ("Unit.parse and Quantity.parse on text from four generators (grammar-derived valid, token-level mutations, "
        "random over the grammar's alphabet + registered symbols, arbitrary Unicode) and a boundary list (very long "
        "digit runs, huge exponents, 1e999, lone signs, repeated operators, 10^3..10^4-term inputs); exception monitor, "
        "determinism (each text parsed twice), registry snapshots around rejected inputs, magnitude type of accepted "
        "quantities.  distinct = input string; non-trivial = not empty and not a single registered symbol"
        " One shard imports the core package alone and declares its own units; refused operations (x ** 2.0 ...) precede the parse of that very unit and exponent; boundary inputs include 4300-digit and 308-digit exponents on mixed-base compounds."
        " Texts are also parsed while another thread declares units, aliases and prefixes: stopped before every line executed anywhere (line scheduler over library, lark and stdlib, seeded schedules) and free-running with a 1 us switch interval."
        " The interpreter's integer-digit limit is lowered at run time; the first shard runs under python -OO.")
ASSUMPTIONS = [
    "permitted outcomes: a Unit / Quantity, ParseError (the shipped parser's LarkError) or KeyError",
    "Unit._known may legitimately grow on accepted input; names and symbols of Unit, Prefix and Dimension may not change at all",
]
SHARDS = {"quick": 4, "thorough": 14}
FLOAT_RE = re.compile(r"^\s*((?:\+|\-)?(?:[0-9]+(?:e|E)(?:\+|\-)?[0-9]+|(?:[0-9]+\.(?:[0-9]+)?|\.[0-9]+)(?:(?:e|E)(?:\+|\-)?[0-9]+)?))")
INT_RE = re.compile(r"^\s*((?:\+|\-)?[0-9]+)")


def written_magnitude(text):
    f, i = FLOAT_RE.match(text), INT_RE.match(text)
    if f and (not i or len(f.group(1)) > len(i.group(1))):
        return float, f.group(1)
    if i:
        return int, i.group(1)
    return None, None


def parses_while_another_thread_declares(ctx, env, attempt):
    """text is parsed in one thread while another declares units, aliases and prefixes of its own (names that occur in
    none of the texts): every parse still ends in a Unit / Quantity - the one it ends in when nothing else runs - or in
    ParseError / KeyError.  (a) under the deterministic scheduler, the threads stopped before every line they execute
    anywhere (library, lark, standard library), seeded random schedules; (b) free-running with a 1 microsecond switch
    interval"""
    import sys
    import threading

    from .. import sched

    m, rng = env.m, ctx.rng
    Unit, Quantity = m.Unit, m.Quantity
    symbols = [s for s in ("m", "s", "kg", "ft", "Hz", "N") if s in Unit._by_symbol]
    unknown = ["Km", "metre", "5 Kg", "qqzq", "3 mtr/s", "kilo meter", "secs", "Mhz", "m/ss2", "7 lbs", "Ω·zz"]
    known = [f"{a}/{b}" for a in symbols for b in symbols[:3]] + [f"3 {a}^2" for a in symbols] + [f"1.5 k{a}" for a in symbols[:2]]
    texts = unknown + known
    alone = {}
    for t in texts:
        for label, fn in (("Unit.parse", Unit.parse), ("Quantity.parse", Quantity.parse)):
            alone[(label, t)] = attempt(fn, t)
    uid = [0]

    def declare_some(k=3):
        def go():
            for _ in range(k):
                uid[0] += 1
                nm = f"zqc17race{ctx.shard}x{uid[0]}"
                r = uid[0] % 3
                if r == 0:
                    Unit.define(rng.choice([m.Length, m.Time, m.Mass]), nm, nm)
                elif r == 1:
                    Unit._by_name[rng.choice(["meter", "second"])].alias(name=nm) if "meter" in Unit._by_name else Unit.define(m.Length, nm, nm)
                else:
                    m.Prefix(7, 90000 + uid[0] + 100000 * ctx.shard, nm, nm)
            return True
        return go

    def judge(label, t, got, how, case):
        want = alone[(label, t)]
        ctx.count("evaluations")
        ctx.count(f"parses_while_another_thread_declares/{how}/{got[0]}")
        ctx.distinct(("racing-parse", label, t, how, got[0]), True)
        if got[0] == "other":
            ctx.violation(f"C17:{label}:raised-{got[1]}:while-another-thread-declares", f"{label}({t!r}) raised {got[1]} while another thread was declaring units ({how}); alone it gives {want[0]}", case)
        elif got[0] != want[0] or (got[0] == "ok" and got[1] != want[1]):
            ctx.violation(f"C17:{label}:outcome-differs-while-another-thread-declares", f"{label}({t!r}) gave {got} while another thread was declaring units ({how}); alone it gives {want}", case)

    # (a) deterministic scheduler, every line everywhere
    for k in range(16 if ctx.tier == "quick" else 60):
        t = rng.choice(unknown) if k % 4 else rng.choice(known)
        label, fn = rng.choice([("Unit.parse", Unit.parse), ("Quantity.parse", Quantity.parse)])
        run = sched.Run([lambda: attempt(fn, t), declare_some(2)], None, sched.EVERYWHERE, rng=rng, switch_prob=rng.choice([0.02, 0.1, 0.3])).go(timeout=60)
        if run.watchdog_fired or 0 not in run.results:
            ctx.count("parses_while_another_thread_declares/scheduler_incomplete")
            continue
        if 1 in run.errors:
            ctx.count(f"parses_while_another_thread_declares/declaring_thread_raised_{type(run.errors[1]).__name__}")
        judge(label, t, run.results[0], "line scheduler", {"text": t, "schedule": [c for c, _, _ in run.choices][:400]})
    # (b) free-running
    old = sys.getswitchinterval()
    sys.setswitchinterval(1e-6)
    stop = threading.Event()

    def declarer():
        go = declare_some(1)
        import time
        cap = uid[0] + (1500 if ctx.tier == "quick" else 20000)
        while not stop.is_set():
            if uid[0] >= cap:
                time.sleep(0.001)   # enough of them: the tables must not grow without bound
                continue
            try:
                go()
            except Exception:
                ctx.count("parses_while_another_thread_declares/declaring_thread_raised")
            time.sleep(0.0002)

    th = threading.Thread(target=declarer, daemon=True)
    th.start()
    try:
        for k in range(400 if ctx.tier == "quick" else 6000):
            t = rng.choice(texts)
            label, fn = rng.choice([("Unit.parse", Unit.parse), ("Quantity.parse", Quantity.parse)])
            judge(label, t, attempt(fn, t), "free-running", {"text": t})
    finally:
        stop.set()
        th.join(10)
        sys.setswitchinterval(old)
    ctx.count("units_declared_by_the_racing_thread", uid[0])


def run(ctx):
    # the last shard imports only a subset of the unit modules: symbol resolution depends on the whole table
    # and the shard before it imports the core package alone (no prefix has a symbol there) or with one small
    # module, and declares its own units at run time, as a program with a private unit system does
    subset = None
    if ctx.nshards > 1 and ctx.shard == ctx.nshards - 1:
        subset = ctx.rng.choice([["si"], ["si", "iec"], ["si", "us"], ["si", "energy", "natural"], ["iec"]])
        ctx.count("shards_with_module_subset")
    elif ctx.nshards > 2 and ctx.shard == ctx.nshards - 2:
        subset = ctx.rng.choice([[], [], ["geometry"]])
        ctx.count("shards_with_core_package_only" if not subset else "shards_with_module_subset")
    env = kit.Env(ctx, need_oracle=False, modules=subset if subset is not None else "all")
    m, rng = env.m, ctx.rng
    Unit, Quantity, Prefix, Dimension = m.Unit, m.Quantity, m.Prefix, m.Dimension
    if subset is not None and "si" not in subset:
        for nm, sy, dim in (("smoot", "smoot", m.Length), ("blink", "bl", m.Time), ("glug", "gg", m.Volume), ("m-ish", "m", m.Length)):
            if nm not in Unit._by_name and sy not in Unit._by_symbol:
                Unit.define(dim, nm, sy)
                ctx.count("units_declared_at_run_time")
    from measured.parsing import ParseError

    symbols = sorted(Unit._by_symbol)
    psyms = sorted(Prefix._by_symbol)
    pool = list(textgen.COMMON_SYMBOLS) + rng.sample(symbols, min(len(symbols), 120)) + [p + s for p in rng.sample(psyms, min(8, len(psyms))) for s in rng.sample(symbols, min(6, len(symbols)))]
    gen = textgen.TextGen(rng, symbols=pool)

    def registries():
        return (frozenset(Unit._by_name), frozenset(Unit._by_symbol), frozenset(Prefix._by_name), frozenset(Prefix._by_symbol),
                frozenset(Dimension._by_name), len(Prefix._by_symbol), len(Unit._by_name))

    def attempt(fn, text):
        try:
            return ("ok", fn(text))
        except ParseError as e:
            return ("ParseError", type(e).__name__)
        except KeyError:
            return ("KeyError", None)
        except RecursionError:
            return ("other", "RecursionError")
        except BaseException as e:  # noqa
            if isinstance(e, (KeyboardInterrupt, SystemExit)):
                raise
            return ("other", type(e).__name__)

    def one(text, kind):
        single_symbol = text.strip() in Unit._by_symbol
        for label, fn in (("Unit.parse", Unit.parse), ("Quantity.parse", Quantity.parse)):
            ctx.count("evaluations")
            ctx.distinct((label, text), bool(text.strip()) and not single_symbol)
            before = registries()
            r1 = attempt(fn, text)
            after = registries()
            r2 = attempt(fn, text)
            ctx.count(f"outcomes/{label}/{r1[0] if r1[0] != 'other' else r1[1]}")
            ctx.count(f"generator/{kind}/{'accepted' if r1[0] == 'ok' else 'rejected'}")
            case = {"text": text if len(text) < 300 else text[:120] + f"...({len(text)} chars)", "entry": label, "generator": kind}
            if r1[0] == "other":
                ctx.violation(f"C17:escaped:{r1[1]}:{label}", f"{label}({case['text']!r}) raised {r1[1]}", case)
                continue
            if r1[0] != r2[0]:
                ctx.violation("C17:not-deterministic", f"{label}({case['text']!r}): first {r1[0]}, second {r2[0]}", case)
            elif r1[0] == "ok":
                a, b = r1[1], r2[1]
                if label == "Unit.parse":
                    if not isinstance(a, Unit):
                        ctx.violation("C17:wrong-result-type", f"Unit.parse({case['text']!r}) returned {type(a).__name__}", case)
                    elif a is not b:
                        ctx.violation("C17:not-deterministic", f"Unit.parse({case['text']!r}) returned two different objects", case)
                else:
                    if not isinstance(a, Quantity):
                        ctx.violation("C17:wrong-result-type", f"Quantity.parse({case['text']!r}) returned {type(a).__name__}", case)
                    else:
                        same = a.unit is b.unit and type(a.magnitude) is type(b.magnitude) and (a.magnitude == b.magnitude or a.magnitude != a.magnitude)
                        if not same:
                            ctx.violation("C17:not-deterministic", f"Quantity.parse({case['text']!r}): {a!r} then {b!r}", case)
                        want_type, lexeme = written_magnitude(text)
                        if isinstance(a.magnitude, bool) or type(a.magnitude) not in (int, float):
                            ctx.violation("C17:magnitude-not-int-or-float", f"Quantity.parse({case['text']!r}).magnitude = {a.magnitude!r}", case)
                        elif want_type is not None:
                            ctx.count("magnitude_type_checks")
                            if type(a.magnitude) is not want_type:
                                ctx.violation("C17:magnitude-type-differs-from-text", f"{case['text']!r} wrote {want_type.__name__} {lexeme!r}, got {a.magnitude!r}", case)
                            else:
                                try:
                                    exp = want_type(lexeme)
                                    if not (a.magnitude == exp or (exp != exp and a.magnitude != a.magnitude)):
                                        ctx.violation("C17:magnitude-value-differs-from-text", f"{case['text']!r}: {a.magnitude!r} vs {exp!r}", case)
                                except ValueError:
                                    pass
            if r1[0] != "ok" and before != after:
                ctx.violation("C17:rejected-input-changed-registry", f"{label}({case['text']!r}) was rejected but a name/symbol registry changed", case)
            elif r1[0] == "ok" and before != after:
                ctx.violation("C17:accepted-input-changed-name-registry", f"{label}({case['text']!r}) registered names or symbols", case)

    if ctx.shard == 0:
        for t in textgen.BOUNDARY:
            one(t, "boundary")
        for s in rng.sample(symbols, min(60, len(symbols))):
            one(s, "registered_symbol")
            one("7 " + s, "registered_symbol")
    # what the rest of the program did before the text arrived: operations on the units that the library rightly refuses
    # (a power that is whole but not an int, a root of float degree, arithmetic with a string...) - the very unit and
    # exponent are then parsed.  A refused call must not change what a later parse does
    from decimal import Decimal as _D
    spellable = [s_ for s_ in symbols if s_.isalpha()]
    for _ in range(200 if ctx.tier == "quick" else 5000):
        if not spellable:
            break
        sym = rng.choice(spellable)
        u = Unit._by_symbol[sym]
        k = rng.choice([2, 3, 4, -1, -2, 5])
        for refused in rng.sample([lambda: u ** float(k), lambda: u ** _D(k), lambda: (2 * u) ** float(k), lambda: (2 * u) ** _D(k), lambda: u.root(float(k)),
                                   lambda: u * "x", lambda: u ** None, lambda: (u ** k) ** 0.5], 2):
            try:
                refused()
                ctx.count("refused_operations_before_parsing/answered")
            except Exception as e:
                ctx.count(f"refused_operations_before_parsing/{type(e).__name__}")
        sup = str(k).translate(str.maketrans("-0123456789", "⁻⁰¹²³⁴⁵⁶⁷⁸⁹"))
        for text in (f"{sym}^{k}", f"{sym}{sup}", f"3 {sym}^{k}", f"2.5 {sym}{sup}/s"):
            one(text, "after_refused_operation")
    parses_while_another_thread_declares(ctx, env, attempt)
    # the program tightens the interpreter's limit on integer strings after the library was imported (the documented
    # hardening against untrusted input, sys.set_int_max_str_digits): literals longer than the limit in force NOW are
    # ParseErrors like any other unreadable number
    import sys as _sys
    if hasattr(_sys, "set_int_max_str_digits"):
        before_limit = _sys.get_int_max_str_digits()
        for limit in (640, 1000, 2000):
            try:
                _sys.set_int_max_str_digits(limit)
            except ValueError:
                continue
            try:
                for digits in (limit - 1, limit, limit + 1, limit + 300, 4300, 4301):
                    run_ = rng.choice("123456789") + "".join(rng.choice("0123456789") for _ in range(digits - 1))
                    for text in (f"m^{run_}", f"m^-{run_}", f"km/s^{run_}", f"{run_} m", f"-{run_} s", f"m{run_.translate(str.maketrans('0123456789', '⁰¹²³⁴⁵⁶⁷⁸⁹'))}"):
                        ctx.count("parses_under_a_limit_lowered_after_import")
                        one(text, "int_limit_lowered_at_run_time")
            finally:
                _sys.set_int_max_str_digits(before_limit)
    n = ctx.scale(120000, 10_000_000) // 2
    for i in range(n):
        text, kind = gen.any_text()
        one(text, kind)
        if i % 5003 == 11:
            ctx.sample({"text": text, "generator": kind})
    ctx.require("evaluations", 1000)
    if ctx.get("outcomes/Unit.parse/ok") == 0 or ctx.get("outcomes/Unit.parse/ParseError") == 0:
        ctx.not_reached("the workload saw only accepted or only rejected inputs")
