"""C07 — impossible conversions fail only with ConversionNotFound, with or without -O."""
from __future__ import annotations

import inspect

from .. import core, kit, model, synth

ID = "C07"
LEVEL = "exploration"
RULE = ("one generated case list (convert / + / - / == / < / sorted over equal-dimension unit pairs: C04's shipped "
        "space, fresh unconnected base units, partially connected compounds, product-defined units) is executed by "
        "two fresh children, `python` and `python -O`; distinct = (operation, shape class of both sides, connectivity "
        "class); non-trivial = the two sides are different units"
        " Where nothing connects the two sides the outcome is prescribed (ConversionNotFound / == False / TypeError), zero-against-zero questions are the first thing each process asks about its new units, and product-defined units of the user's own declared with Decimal and with float numbers meet in impossible conversions."
        " One side may carry a remainder without a dimension (an unconnected energy or force unit over base units of that dimension): nothing to convert it with."
        " Orderings against levels of unreachable references; pairs and rings of three units declared in terms of one another, every operation under a 20 s CPU-time limit (expiry = conversion-does-not-terminate).")
ASSUMPTIONS = [
    "permitted failures: ConversionNotFound from in_unit/+/-; TypeError from ordering; == never raises",
    "outcomes are compared by exception type name and by repr of the returned magnitude",
    "magnitudes and unit sizes are kept in ranges where no float overflow can occur",
]

FRESH = [("zqc07a", "length"), ("zqc07b", "length"), ("zqc07c", "mass"), ("zqc07d", "energy"), ("zqc07e", "force"),
         ("zqc07f", "time"), ("zqc07g", "energy")]
PRODUCT_DEFINED = ["horsepower", "donkeypower", "pound-force", "acre", "poundal", "British thermal unit", "electron-volt",
                   "ton of refrigeration", "boiler horsepower", "knot", "gallon", "newton", "joule", "watt", "pascal"]
ALLOWED = {"lt_level": {"TypeError"}, "convert": {"ConversionNotFound"}, "add": {"ConversionNotFound"}, "sub": {"ConversionNotFound"},
           "eq": set(), "ne": set(), "lt": {"TypeError"}, "le": {"TypeError"}, "gt": {"TypeError"}, "ge": {"TypeError"},
           "sorted": {"TypeError"}}


def gen_cases(ctx, env, n):
    pools, mdl, rng = env.pools, env.mdl, ctx.rng
    fresh_by_dim = {}
    for name, d in FRESH:
        fresh_by_dim.setdefault(d, []).append(name)
    product_defined = [p for p in PRODUCT_DEFINED if p in pools.units and p in set(pools.moderate)]
    cases = []
    while len(cases) < n:
        r = rng.random()
        if r < 0.55:
            factors = pools.random_factors(rng, hostile=rng.choice([0.0, 0.4, 0.9]))
            target = pools.same_dimension_alternative(rng, factors, compose_prob=rng.choice([0.0, 0.4]))
            st, tt = pools.factors_term(factors), pools.factors_term(target)
            cls = "shipped"
            shape = (pools.shape_class(factors), pools.shape_class(target))
        elif r < 0.7 and product_defined:
            name = rng.choice(product_defined)
            exp = rng.choice([1, 1, -1, 2, -2])
            factors = [(rng.choice([None, None, "kilo", "milli"]), name, exp)]
            target = pools.same_dimension_alternative(rng, factors, compose_prob=rng.choice([0.0, 1.0]))
            st, tt = pools.factors_term(factors), pools.factors_term(target)
            cls = "product-defined"
            shape = (pools.shape_class(factors), pools.shape_class(target))
        elif r < 0.85:
            # all disconnected: a fresh base unit against registered units of its dimension
            name, d = rng.choice(FRESH)
            exp = rng.choice([1, 1, -1, 2, 3])
            others = fresh_by_dim[d] + pools.by_dim_moderate.get(mdl.dim_of_unit(pools.units[{"length": "meter", "mass": "gram", "energy": "joule", "force": "newton", "time": "second"}[d]]), [])
            other = rng.choice([o for o in others if o != name])
            a = ["u", name] if exp == 1 else ["pow", ["u", name], exp]
            b = ["u", other] if exp == 1 else ["pow", ["u", other], exp]
            st, tt = (a, b) if rng.random() < 0.5 else (b, a)
            cls = "all-disconnected"
            shape = (d, exp, other in [f for f, _ in FRESH])
        elif r < 0.875:
            # a remainder without a dimension: one side carries, besides what the other side has, a base unit of a derived
            # dimension that is connected to nothing (an energy, a force) divided by base units that multiply out to that
            # very dimension.  The dimensions of the two sides agree, one side is used up completely by the other, and
            # what is left over is not nothing: zqc07d / (kg m^2 / s^2) is no number anybody declared
            name, d = rng.choice([f for f in FRESH if f[1] in ("energy", "force")])
            in_base = (["mul", ["u", "kilogram"], ["div", ["pow", ["u", "meter"], 2], ["pow", ["u", "second"], 2]]] if d == "energy"
                       else ["mul", ["u", "kilogram"], ["div", ["u", "meter"], ["pow", ["u", "second"], 2]]])
            if rng.random() < 0.4:
                # the same with the user's own base units standing in for the metre
                own = rng.choice(fresh_by_dim["length"])
                in_base = (["mul", ["u", "kilogram"], ["div", ["pow", ["u", own], 2], ["pow", ["u", "second"], 2]]] if d == "energy"
                           else ["mul", ["u", "kilogram"], ["div", ["u", own], ["pow", ["u", "second"], 2]]])
            remainder = ["div", ["u", name], in_base] if rng.random() < 0.5 else ["div", in_base, ["u", name]]
            common = rng.choice([["u", "meter"], ["u", "second"], ["u", "one"], ["u", rng.choice(fresh_by_dim["mass"])], ["div", ["u", "meter"], ["u", "second"]], ["u", "newton"]])
            a, b = common, ["mul", common, remainder]
            st, tt = (a, b) if rng.random() < 0.5 else (b, a)
            cls = "all-disconnected"
            shape = ("remainder-without-a-dimension", d, str(common)[:20], st is a)
        elif r < 0.885:
            # two units of the user's own that are declared in terms of one another - both statements are true: a force is a
            # pressure times an area, a pressure is a force over an area - and connected to nothing else.  Between themselves
            # they convert; towards newtons and pascals there is nothing to go by, and the answer is ConversionNotFound (in
            # finite time)
            frc, prs = rng.choice([("zqc07mutF", "zqc07mutP"), ("zqc07ringF", "zqc07ringP")])   # a pair, or two members of a ring of three
            third = frc == "zqc07ringF" and rng.random() < 0.5
            side = rng.choice([["u", frc], ["mul", ["u", prs], ["pow", ["u", "meter"], 2]], ["u", prs], ["div", ["u", frc], ["pow", ["u", "meter"], 2]]])
            force_like = side in (["u", frc], ["mul", ["u", prs], ["pow", ["u", "meter"], 2]])
            other = rng.choice([["u", "newton"], ["mul", ["u", "kilogram"], ["div", ["u", "meter"], ["pow", ["u", "second"], 2]]], ["u", "pound-force"]]) if force_like \
                else rng.choice([["u", "pascal"], ["div", ["u", "newton"], ["pow", ["u", "meter"], 2]], ["u", "atmosphere" if "atmosphere" in pools.units else "pascal"]])
            if third:
                # the third member of the ring: an energy that is the pressure times a volume
                side = rng.choice([["u", "zqc07ringE"], ["mul", ["u", prs], ["pow", ["u", "meter"], 3]], ["mul", ["u", frc], ["u", "meter"]]])
                other = rng.choice([["u", "joule"], ["mul", ["u", "newton"], ["u", "meter"]], ["u", "calorie" if "calorie" in pools.units else "joule"]])
            st, tt = (side, other) if rng.random() < 0.5 else (other, side)
            cls = "all-disconnected"
            shape = ("declared-in-terms-of-one-another", frc, third, force_like, str(other)[:24], st is side)
        elif r < 0.9:
            # product-defined units of the user's own, one declared with a Decimal number and one with a float (the
            # registry then holds ratios of both kinds), meeting on one side of a conversion that a third, unconnected
            # unit makes impossible
            name, d = rng.choice(FRESH)
            other = rng.choice([o for o in fresh_by_dim[d] if o != name] or [name])
            if other == name:
                continue
            exp = rng.choice([1, -1, 2])
            mine = rng.sample(["zqc07push", "zqc07shove", "zqc07heave"], 2)
            left = ["mul", ["mul", ["u", mine[0]], ["u", mine[1]]], ["pow", ["u", name], exp]]
            si_of = {"zqc07push": ["u", "newton"], "zqc07shove": ["u", "newton"], "zqc07heave": ["u", "joule"]}
            right = ["mul", ["mul", si_of[mine[0]], si_of[mine[1]]], ["pow", ["u", other], exp]]
            st, tt = (left, right) if rng.random() < 0.5 else (right, left)
            cls = "partially-connected"
            shape = ("own-product-defined", tuple(sorted(mine)), d, exp)
        else:
            # one factor convertible, one not
            factors = pools.random_factors(rng, max_factors=2, hostile=0.3)
            target = pools.same_dimension_alternative(rng, factors, compose_prob=0.2)
            name, d = rng.choice(FRESH)
            exp = rng.choice([1, -1, 2])
            same = rng.random() < 0.5
            other = name if same else rng.choice([o for o in fresh_by_dim[d] if o != name] or [name])
            st = ["mul", pools.factors_term(factors), ["pow", ["u", name], exp]]
            tt = ["mul", pools.factors_term(target), ["pow", ["u", other], exp]]
            cls = "partially-connected" if other != name else "shared-unconnected-factor"
            shape = (pools.shape_class(factors), pools.shape_class(target), d, exp)
        try:
            us, ut = mdl.eval_real(st) if cls in ("shipped", "product-defined") else None, mdl.eval_real(tt) if cls in ("shipped", "product-defined") else None
        except Exception:
            continue
        if us is not None and env.orc.knows(us) and env.orc.knows(ut) and (env.orc.dynamic_range(us) + env.orc.dynamic_range(ut)) * 1.5 + 8 > 280:
            continue  # partial products may leave the float range (OverflowError / division by a zero that underflowed)
        kind = rng.choice(["convert", "convert", "convert", "add", "sub", "eq", "lt", "le", "gt", "sorted"])
        m1, m2 = pools.magnitude(rng), pools.magnitude(rng)
        if cls == "all-disconnected" and rng.random() < 0.12:
            # the other side is a level: so many decibels above 1 <unit nothing connects to>.  Ordering a quantity against it
            # needs the same impossible conversion, and ends the same way (TypeError), in both argument orders and in sorted()
            kind = "lt_level"
            op = ["lt_level", model.enc_mag(abs(m1) if isinstance(m1, (int, float)) and m1 else 2), st, ["i", rng.choice([3, 20, -6])], ["i", 1], tt, rng.choice(["lt", "ge", "sorted"])]
            cases.append((op, kind, cls, shape, True))
            continue
        if kind == "convert":
            op = ["convert", model.enc_mag(m1), st, tt]
        elif kind == "sorted":
            op = ["sorted", [[model.enc_mag(m1), st], [model.enc_mag(m2), tt], [model.enc_mag(pools.magnitude(rng)), st]]]
        else:
            op = [kind, model.enc_mag(m1), st, model.enc_mag(m2), tt]
        cases.append((op, kind, cls, shape, st != tt))
    return cases


def outcome(r):
    if "raise" in r:
        return ("raise", r["raise"])
    return ("ok", repr(r["ok"]))


def run(ctx):
    env = kit.Env(ctx)
    n = ctx.scale(12000, 500_000)
    batch = 600 if ctx.tier == "quick" else 5000
    cases = gen_cases(ctx, env, n)
    defs = [["define", name, name, ["dimname", d]] for name, d in FRESH]
    newton_t = ["mul", ["u", "kilogram"], ["div", ["u", "meter"], ["pow", ["u", "second"], 2]]]
    joule_t = ["mul", ["u", "kilogram"], ["div", ["pow", ["u", "meter"], 2], ["pow", ["u", "second"], 2]]]
    defs += [["define", "zqc07push", "zqc07push", ["dimname", "force"]], ["define", "zqc07shove", "zqc07shove", ["dimname", "force"]],
             ["define", "zqc07heave", "zqc07heave", ["dimname", "energy"]],
             ["declare", ["u", "zqc07push"], ["d", "2.5"], newton_t], ["declare", ["u", "zqc07shove"], ["f", (3.0).hex()], newton_t],
             ["declare", ["u", "zqc07heave"], ["d", "1.5"], joule_t],
             ["define", "zqc07mutF", "zqc07mutF", ["dimname", "force"]], ["define", "zqc07mutP", "zqc07mutP", ["dimname", "pressure"]],
             ["declare", ["u", "zqc07mutF"], ["i", 1], ["mul", ["u", "zqc07mutP"], ["pow", ["u", "meter"], 2]]],
             ["declare", ["u", "zqc07mutP"], ["i", 1], ["div", ["u", "zqc07mutF"], ["pow", ["u", "meter"], 2]]],
             # a ring of three: P = F / m², F = E / m, E = P m³ (all true, none tied to anything else)
             ["define", "zqc07ringF", "zqc07ringF", ["dimname", "force"]], ["define", "zqc07ringP", "zqc07ringP", ["dimname", "pressure"]],
             ["define", "zqc07ringE", "zqc07ringE", ["dimname", "energy"]],
             ["declare", ["u", "zqc07ringP"], ["i", 1], ["div", ["u", "zqc07ringF"], ["pow", ["u", "meter"], 2]]],
             ["declare", ["u", "zqc07ringF"], ["i", 1], ["div", ["u", "zqc07ringE"], ["u", "meter"]]],
             ["declare", ["u", "zqc07ringE"], ["i", 1], ["mul", ["u", "zqc07ringP"], ["pow", ["u", "meter"], 3]]]]
    # refused declarations (zero-sized or self equivalences raise and must equate nothing) are part of the
    # history: afterwards the same impossible conversions must still fail with ConversionNotFound only
    by_dim = {}
    for name, d in FRESH:
        by_dim.setdefault(d, []).append(name)
    refused = []
    for d, names in by_dim.items():
        if len(names) >= 2:
            refused.append(["declare", ["u", names[0]], ["i", 0], ["u", names[1]]])
            refused.append(["declare", ["u", names[1]], ["f", (0.0).hex()], ["u", names[0]]])
        refused.append(["declare", ["u", names[0]], ["i", 2], ["u", names[0]]])
    refused.append(["declare", ["u", "zqc07d"], ["i", 0], ["u", "joule"]])
    refused.append(["declare", ["u", "zqc07e"], ["i", 0], ["mul", ["u", "kilogram"], ["div", ["u", "meter"], ["pow", ["u", "second"], 2]]]])
    # the very first questions a process asks about its new units: is nothing of one the same as nothing of the other?
    # (both magnitudes exactly zero - int, float, Decimal - before either unit was ever the start of a search)
    def zero_first(bi):
        out = []
        zeros = [["i", 0], ["f", (0.0).hex()], ["d", "0"], ["f", (-0.0).hex()]]
        shipped_base = {"length": "meter", "mass": "gram", "energy": "joule", "force": "newton", "time": "second"}
        for d, names in by_dim.items():
            others = [n for n in names[1:]] + [shipped_base[d]]
            a = names[0]
            for b_ in others:
                z1, z2 = zeros[(bi + len(out)) % 4], zeros[(bi + 2 * len(out) + 1) % 4]
                x, y = (["u", a], ["u", b_]) if (bi + len(out)) % 2 else (["u", b_], ["u", a])
                kind = ["eq", "eq", "lt", "add", "convert"][(bi + len(out)) % 5]
                op = ["convert", z1, x, y] if kind == "convert" else [kind, z1, x, z2, y]
                out.append((op, kind, "all-disconnected", (d, "zero-first", b_ in shipped_base.values()), True))
        return out

    batches = []
    for bi, i in enumerate(range(0, len(cases), batch)):
        batches.append(zero_first(bi) + cases[i:i + batch])
    specs, layouts = [], []
    for bi, chunk_cases in enumerate(batches):
        chunk_ops = [c[0] for c in chunk_cases]
        if bi % 2 == 0:
            prelude = defs + refused            # refused declarations first
        else:
            prelude = defs                      # ... or in the middle of the batch
            mid = len(chunk_ops) // 2
            chunk_ops = chunk_ops[:mid] + refused + chunk_ops[mid:]
        specs.append({"modules": "all", "ops": prelude + chunk_ops})
        layouts.append((len(prelude), bi % 2 == 1, len(refused)))
    logs_default = synth.run_specs(specs, flags=(), timeout=1800)
    logs_opt = synth.run_specs(specs, flags=("-O",), timeout=1800)
    ctx.count("child_processes", 2 * len(specs))
    k = 0
    for bi, (ld, lo) in enumerate(zip(logs_default, logs_opt)):
        chunk = batches[bi]
        for log, mode in ((ld, "default"), (lo, "-O")):
            if "inconclusive" in log or log.get("fatal"):
                ctx.not_reached(f"{mode} child: {log.get('inconclusive') or log.get('fatal')}")
        if any("inconclusive" in log or log.get("fatal") for log in (ld, lo)):
            continue
        npre, in_middle, nref = layouts[bi]
        rd, ro = ld["results"][npre:], lo["results"][npre:]
        if in_middle:
            mid = len(chunk) // 2
            rd, ro = rd[:mid] + rd[mid + nref:], ro[:mid] + ro[mid + nref:]
        ctx.count("refused_declarations_in_history", nref)
        for (op, kind, cls, shape, nontrivial), a, b in zip(chunk, rd, ro):
            ctx.count("evaluations")
            oa, ob = outcome(a), outcome(b)
            if "NotRun" in (oa[1], ob[1]):
                ctx.count("operations_not_run_after_one_that_did_not_terminate")
                continue
            if "DoesNotTerminate" in (oa[1], ob[1]):
                ctx.violation("C07:conversion-does-not-terminate", f"{kind} used more than 20 s of CPU time (operations of these histories take milliseconds): "
                              f"{model.show(op[2]) if kind != 'sorted' else op} against {model.show(op[3] if kind == 'convert' else op[4]) if kind not in ('sorted', 'lt_level') else ''}",
                              {"op": op, "default": a, "-O": b})
                continue
            ctx.count(f"outcomes/default/{oa[1] if oa[0] == 'raise' else 'value'}")
            ctx.count(f"outcomes/-O/{ob[1] if ob[0] == 'raise' else 'value'}")
            ctx.count(f"cases/{cls}/{kind}")
            ctx.distinct((kind, cls, shape), nontrivial)
            if len(ctx.samples) < 8 and nontrivial and k % 97 == 0:
                ctx.sample({"op": op, "default": a, "-O": b})
            k += 1
            if cls in ("all-disconnected", "partially-connected"):
                # no chain of declarations links the two sides: conversions and sums must *fail* (with ConversionNotFound),
                # == must say False and orderings must raise TypeError - for every magnitude, zero included
                must = {"convert": ("raise", "ConversionNotFound"), "add": ("raise", "ConversionNotFound"), "sub": ("raise", "ConversionNotFound"),
                        "eq": ("ok", "False"), "lt": ("raise", "TypeError"), "le": ("raise", "TypeError"), "gt": ("raise", "TypeError"),
                        "ge": ("raise", "TypeError"), "sorted": ("raise", "TypeError"), "lt_level": ("raise", "TypeError")}[kind]
                ctx.count("impossible_cases_with_a_required_outcome")
                for mode, o in (("default", oa), ("-O", ob)):
                    if o != must and not (o[0] == "raise" and o[1] not in ALLOWED[kind]):
                        ctx.violation(f"C07:impossible-{kind}-answered:{mode}", f"{kind} between units that nothing connects gave {o} under {mode} mode, required {must}: "
                                      f"{model.show(op[2]) if kind != 'sorted' else op}", {"op": op, "mode": mode, "default": a, "-O": b})
            for mode, o in (("default", oa), ("-O", ob)):
                if o[0] == "raise" and o[1] not in ALLOWED[kind]:
                    ctx.violation(f"C07:escaped:{o[1]}:{mode}", f"{kind} raised {o[1]} under {mode} mode: {model.show(op[2]) if kind != 'sorted' else op}",
                                  {"op": op, "mode": mode, "default": a, "-O": b})
            if oa != ob:
                k2 = "raise-vs-value" if oa[0] != ob[0] else ("exception-type" if oa[0] == "raise" else "value")
                ctx.violation(f"C07:dash-O-differs:{k2}", f"{kind} differs between python and python -O: {oa} vs {ob}", {"op": op, "default": a, "-O": b})

    # in-process: which guard lines of the planner does this workload reach?
    conv = env.conv
    planner = kit.module_functions(conv, "conversions")
    watch = kit.LineWatch(ctx, planner + [("Quantity.__eq__", env.m.Quantity.__eq__), ("Quantity.__lt__", env.m.Quantity.__lt__)])
    for name, d in FRESH:
        try:
            env.m.Unit.define(env.m.Dimension._by_name[d], name, name)
        except Exception:
            pass
    import operator

    for op, kind, cls, shape, _ in cases[: (500 if ctx.tier == "quick" else 3000)]:
        try:
            if kind == "convert":
                (model.dec_mag(op[1]) * env.mdl.eval_real(op[2])).in_unit(env.mdl.eval_real(op[3]))
            elif kind != "sorted":
                a = model.dec_mag(op[1]) * env.mdl.eval_real(op[2])
                b = model.dec_mag(op[3]) * env.mdl.eval_real(op[4])
                getattr(operator, kind)(a, b)
        except Exception:
            pass
        ctx.count("in_process_cases")
    watch.close()
    guards = {}
    for label, fn in planner:
        if fn is None:
            continue
        fn = getattr(fn, "__wrapped__", fn)
        try:
            src, first = inspect.getsourcelines(fn)
        except (OSError, TypeError):
            continue
        for i, line in enumerate(src):
            s = line.strip()
            if s.startswith("assert ") or s.startswith("raise ConversionNotFound") or "if start_factors or end_factors" in s:
                guards[f"{label}:{first + i}:{s[:40]}"] = (first + i) in ctx.lines.get(label, ())
    ctx.extra["guard_lines_reached"] = guards
    # the same questions asked by two threads at once (deterministic line scheduler, units of the scenario's own with exact
    # ratios, the temperature scales, levels): what this property says about an answer holds for every thread's answer
    if ctx.shard == 0:
        from .. import concurrent_conv
        _mon = locals().get("mon")
        if _mon is not None:
            _mon.paused = True
        try:
            concurrent_conv.section(ctx, env, trials=(120 if ctx.tier == "quick" else 1500), key="C07")
        finally:
            if _mon is not None:
                _mon.paused = False
    ctx.require("evaluations", 100)
    if ctx.get("outcomes/default/ConversionNotFound") + ctx.get("outcomes/default/AssertionError") == 0:
        ctx.not_reached("no impossible conversion was generated")
    if guards and not any(guards.values()):
        ctx.not_reached("no guard line of the planner was reached")
