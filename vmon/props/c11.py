"""C11 — a prefixed unit means exactly prefix factor times unit."""
from __future__ import annotations

from fractions import Fraction

from .. import convmon, core, kit, model, oracle

ID = "C11"
LEVEL = "exploration"
RULE = ("the table {registered prefix} x {registered unit} x {exponent -4..4} is enumerated in full; prefix products, "
        "quotients, powers and roots (same base and mixed SI/IEC) on registered and compound units are sampled; anonymous "
        "prefixes are created first through one of nine routes chosen at random and then reached through all others; "
        "distinct = (prefix or prefix expression, unit, exponent); non-trivial = the prefix is not the identity"
        " The table also multiplies Decimal and very large magnitudes, and re-checks the identity after augmented assignments on returned quantities."
        " Decimal readings nobody used before are first touched (stripped, compared, converted, hashed) under a 5-9 digit decimal context and then used under the default one."
        " Plus roots of quantities whose prefix sits outside the power, and exact big-integer identities on new units after mixed-base arithmetic that lands on a registered prefix.")
ASSUMPTIONS = [
    "prefix values are exact Fractions computed from the base/exponent fields, not from Prefix.quantify()",
    "identity (is) is demanded where all prefixes share a base; 1e-9 relative numeric agreement otherwise",
    "float magnitudes are compared with 1e-12 relative tolerance (one multiplication by a power of the base)",
]
SHARDS = {"quick": 2, "thorough": 8}
R12 = Fraction(1, 10**12)
R9 = Fraction(1, 10**9)


def close(a, b, rel):
    a, b = oracle.F(a), oracle.F(b)
    return abs(a - b) <= max(abs(a), abs(b)) * rel


def run(ctx):
    env = kit.Env(ctx)
    kit.aliasing_probe(ctx, env.m, "C11")   # the program aliases what it is handed and updates in place
    m, rng, pools, orc = env.m, ctx.rng, env.pools, env.orc
    mon = convmon.ConvertMonitor(env, ctx, key_prefix="C11")
    Identity, One = m.IdentityPrefix, m.One
    prefixes = [(n, pools.prefixes[n]) for n in pools.prefix_names]
    units = [(n, pools.units[n]) for n in pools.unit_names]
    # shard the table by unit
    my_units = [x for i, x in enumerate(units) if i % ctx.nshards == ctx.shard]
    from decimal import Decimal
    mags = [3, -7, 2.5, 1000, 0, Decimal("2.5"), Decimal("-1E+40"), Decimal("7E-30"), 10**30 + 1, Decimal("123456789012345678901234567.8")]
    for uname, u in my_units:
        for pname, p in prefixes:
            pv = oracle.prefix_value(p)
            pu = p * u
            for n in range(-4, 5):
                ctx.count("evaluations")
                ctx.count("table_cells")
                ctx.distinct((pname, uname, n))
                # (p*u)**n is p**n * u**n
                try:
                    lhs, rhs = pu**n, (p**n) * (u**n)
                except Exception as e:
                    ctx.violation(f"C11:raised:{type(e).__name__}", f"({pname}*{uname})**{n}: {e}", {"prefix": pname, "unit": uname, "n": n})
                    continue
                if u.prefix.base not in (0, p.base):
                    ctx.count("table_cells_mixed_base")
                    if lhs.factors != rhs.factors or not close(oracle.prefix_value(lhs.prefix), oracle.prefix_value(rhs.prefix), R9) \
                            or not close(oracle.prefix_value(lhs.prefix), (pv * oracle.prefix_value(u.prefix)) ** n, R9):
                        ctx.violation("C11:power-of-prefixed-unit:mixed", f"({pname}*{uname})**{n}: {lhs!r} vs {rhs!r}", {"prefix": pname, "unit": uname, "n": n})
                elif lhs is not rhs:
                    ctx.violation("C11:power-of-prefixed-unit", f"({pname}*{uname})**{n} is not {pname}**{n} * {uname}**{n}: {lhs!r} vs {rhs!r}",
                                  {"prefix": pname, "unit": uname, "n": n})
                want = (p.base, p.exponent * n) if n != 0 else (0, 0)
                if u.prefix.base == 0 and (lhs.prefix.base, lhs.prefix.exponent) != want and not (n == 0):
                    ctx.violation("C11:prefix-not-raised-to-power", f"({pname}*{uname})**{n} has prefix {lhs.prefix!r}", {"prefix": pname, "unit": uname, "n": n})
            # m*(p*u) equals (m*value(p))*u ; unprefixed() keeps the value
            for mag in mags:
                q = mag * pu
                ctx.count("identities/quantity_of_prefixed_unit")
                try:
                    un = q.unprefixed()
                except Exception as e:
                    ctx.violation(f"C11:raised:{type(e).__name__}", f"({mag!r} {pname}*{uname}).unprefixed() raised {type(e).__name__}: {e}", {"prefix": pname, "unit": uname, "mag": repr(mag)})
                    continue
                if un.unit.prefix is not Identity:
                    ctx.violation("C11:unprefixed-keeps-a-prefix", f"({mag} {pname}*{uname}).unprefixed() = {un!r}", {})
                expected = oracle.F(mag) * pv * oracle.prefix_value(u.prefix)
                if not close(un.magnitude, expected, R12 if p.base in (0, u.prefix.base or p.base) else R9):
                    ctx.violation("C11:unprefixed-changes-value", f"({mag} {pname}*{uname}).unprefixed() = {un.magnitude!r}, exact {core.sf(expected)!r}",
                                  {"prefix": pname, "unit": uname, "mag": mag})
                if isinstance(mag, int) and isinstance(p.exponent, int) and p.exponent >= 0 and u.prefix.base == 0:
                    ctx.count("identities/exact_equality")
                    other = (mag * p.base**p.exponent) * u
                    try:
                        eq = (q == other) and (other == q)
                    except Exception as e:
                        eq = f"raised {e}"
                    if eq is not True:
                        ctx.violation("C11:prefixed-quantity-not-equal-to-scaled", f"{mag}*({pname}*{uname}) == {other!r} is {eq}", {"prefix": pname, "unit": uname, "mag": mag})
            # what the caller does with the quantities it was handed must not change the unit: augmented assignment on
            # the results of quantify() / unprefixed() / in_unit() (shared, memoised objects inside the library), then
            # the defining identity once more
            if rng.random() < 0.25:
                ctx.count("identities/after_augmented_assignment_on_returned_quantities")
                try:
                    d = pu.quantify()
                    d *= 42
                    d /= 8
                    e2 = (3 * pu).unprefixed()
                    e2 *= 2
                    e2 += e2
                    f2 = (5 * pu).in_unit(u)
                    f2 -= f2
                    f2 **= 2
                except Exception as ex:
                    ctx.count(f"identities/augmented_assignment_raised/{type(ex).__name__}")
                un2 = (7 * pu).unprefixed()
                expected2 = 7 * pv * oracle.prefix_value(u.prefix)
                if not close(un2.magnitude, expected2, R12 if p.base in (0, u.prefix.base or p.base) else R9):
                    ctx.violation("C11:unprefixed-changes-value", f"after augmented assignments on quantities returned for {pname}*{uname}: (7 {pname}*{uname}).unprefixed() = {un2.magnitude!r}, "
                                  f"exact {core.sf(expected2)!r}; quantify() = {pu.quantify()!r}", {"prefix": pname, "unit": uname})
            # identity prefix is neutral; division by a prefixed unit
            ctx.count("identities/identity_prefix")
            if Identity * u is not u or u * Identity is not u:
                ctx.violation("C11:identity-prefix-not-neutral", f"IdentityPrefix*{uname}", {"unit": uname})
            other_name, other = units[rng.randrange(len(units))]
            ctx.count("identities/division_by_prefixed_unit")
            try:
                d1, d2 = other / pu, (p**-1) * (other / u)
                if u.prefix.base in (0, p.base) and other.prefix.base in (0, p.base):
                    if d1 is not d2:
                        ctx.violation("C11:division-by-prefixed-unit", f"{other_name}/({pname}*{uname}) is not {pname}**-1*({other_name}/{uname})",
                                      {"prefix": pname, "unit": uname, "other": other_name})
                elif not close(oracle.prefix_value(d1.prefix), oracle.prefix_value(d2.prefix), R9):
                    ctx.violation("C11:division-by-prefixed-unit:mixed", f"{other_name}/({pname}*{uname})", {})
                qd = (6 * other) / (2 * pu)
                if not close(oracle.F(qd.magnitude) * oracle.prefix_value(qd.unit.prefix), Fraction(3) * oracle.prefix_value(other.prefix) / (pv * oracle.prefix_value(u.prefix)), R9):
                    ctx.violation("C11:quantity-division-by-prefixed-unit", f"(6 {other_name})/(2 {pname}*{uname}) = {qd!r}", {})
            except Exception as e:
                ctx.violation(f"C11:raised:{type(e).__name__}", f"{other_name}/({pname}*{uname}): {e}", {})
        if len(ctx.samples) < 4:
            ctx.sample(f"unit {uname}: {len(prefixes)} prefixes x exponents -4..4 x {len(mags)} magnitudes")
    ctx.cov["exhaustive"] = True

    # prefix algebra: products, quotients, powers, roots (all registered pairs, exhaustive)
    if ctx.shard == 0:
        allp = prefixes + [("identity", Identity)]
        for an, a in allp:
            for bn, b in allp:
                ctx.count("evaluations")
                ctx.count("prefix_pairs")
                ctx.distinct(("pair", an, bn))
                prod, quot = a * b, a / b
                va, vb = oracle.prefix_value(a), oracle.prefix_value(b)
                if a.base == b.base or a.base == 0 or b.base == 0:
                    base = a.base or b.base
                    ea = a.exponent if a.base else 0
                    eb = b.exponent if b.base else 0
                    for res, e, op in ((prod, ea + eb, "*"), (quot, ea - eb, "/")):
                        want = Identity if (e == 0 or base == 0) else m.Prefix(base, e)
                        if res is not want:
                            ctx.violation("C11:same-base-prefix-arithmetic", f"{an}{op}{bn} = {res!r}, expected exponent {e}", {"a": an, "b": bn, "op": op})
                else:
                    ctx.count("mixed_base_pairs")
                    if not close(oracle.prefix_value(prod), va * vb, R9) or not close(oracle.prefix_value(quot), va / vb, R9):
                        ctx.violation("C11:mixed-base-prefix-arithmetic", f"{an}*{bn} or {an}/{bn}: {prod!r} {quot!r}", {"a": an, "b": bn})
            for n in range(-4, 5):
                ctx.count("prefix_powers")
                r = a**n
                if a.base and n:
                    if r is not m.Prefix(a.base, a.exponent * n):
                        ctx.violation("C11:prefix-power", f"{an}**{n} = {r!r}", {"a": an, "n": n})
                    if (a**n).root(n) is not a:
                        ctx.violation("C11:prefix-root-of-power", f"({an}**{n}).root({n})", {"a": an, "n": n})
                elif r is not Identity:
                    ctx.violation("C11:prefix-power-zero", f"{an}**{n} = {r!r}", {"a": an, "n": n})

    # which operation creates an anonymous prefix first must not matter: every exponent outside the registered
    # table is reached first through one randomly chosen route (constructor, product, quotient, power, root of a
    # prefix / unit / quantity) and afterwards through all the others; all of them are one object whose exponent
    # and value are exact integers
    Meter = pools.units["meter"]
    routes = {
        "constructor": lambda b, e: m.Prefix(b, e),
        "product": lambda b, e: m.Prefix(b, e - 7) * m.Prefix(b, 7),
        "quotient": lambda b, e: m.Prefix(b, e + 5) / m.Prefix(b, 5),
        "power": lambda b, e: (m.Prefix(b, e // 2) ** 2) if e % 2 == 0 else (m.Prefix(b, e - 1) * m.Prefix(b, 1)),
        "prefix-root": lambda b, e: m.Prefix(b, e * 2).root(2),
        "prefix-cube-root": lambda b, e: m.Prefix(b, e * 3).root(3),
        "unit-root": lambda b, e: ((m.Prefix(b, e * 2) * Meter) ** 1 * Meter).root(2).prefix,
        "quantity-root": lambda b, e: (4 * (m.Prefix(b, e * 2) * Meter**2)).root(2).unit.prefix,
        "unit-power": lambda b, e: ((m.Prefix(b, e // 2) * Meter) ** 2).prefix if e % 2 == 0 else (m.Prefix(b, e) * Meter).prefix,
    }
    # every shard takes its own residue class of exponents; |e| stays far inside the float range for negative ones
    exps = [e for e in range(31, 31 + 40 * ctx.nshards) if e % ctx.nshards == ctx.shard and e <= 300]
    exps += [-e for e in range(31, 31 + 20 * ctx.nshards) if e % ctx.nshards == ctx.shard and e <= 100]
    rng.shuffle(exps)
    for e in exps:
        for b in (10, 2):
            first = rng.choice(sorted(routes))
            order = [first] + [r for r in sorted(routes) if r != first]
            got = {}
            for r in order:
                ctx.count("evaluations")
                ctx.count(f"prefix_histories/first={first}" if r == first else "prefix_histories/later_routes")
                try:
                    got[r] = routes[r](b, e)
                except Exception as ex:
                    ctx.violation(f"C11:raised:{type(ex).__name__}", f"prefix {b}^{e} through {r} (first created through {first}): {ex}", {"base": b, "exponent": e, "route": r, "first": first})
            ctx.distinct(("prefix-history", first, b, e > 0, e % 2))
            if not got:
                continue
            p0 = got[first] if first in got else next(iter(got.values()))
            case = {"base": b, "exponent": e, "first": first}
            for r, px in got.items():
                if px is not p0:
                    ctx.violation("C11:same-base-prefix-arithmetic", f"prefix {b}^{e} reached through {r} is {px!r}, first created through {first} as {p0!r}", {**case, "route": r})
            # the statement asks for exact *values*, not for a particular numeric type: an exponent 40.0 is only wrong through
            # what it does to the values below (10**40.0 is not 10**40)
            if p0.exponent != e or p0.base != b:
                ctx.violation("C11:prefix-exponent-not-exact", f"prefix {b}^{e} first created through {first} carries exponent {p0.exponent!r} ({type(p0.exponent).__name__})", case)
            q = 3 * (p0 * Meter)
            try:
                un, val = q.unprefixed().magnitude, p0.quantify()
            except Exception as ex:
                ctx.violation(f"C11:raised:{type(ex).__name__}", f"quantify/unprefixed of prefix {b}^{e} (first created through {first}): {ex}", case)
                continue
            exact = Fraction(b) ** e
            ctx.count("identities/exact_prefix_value")
            if e > 0 and (un != 3 * b**e or val != b**e):
                ctx.violation("C11:unprefixed-changes-value", f"3*({b}^{e}*meter).unprefixed() = {un!r}, exact {3 * b**e} (prefix first created through {first})", case)
            elif e < 0 and not (close(un, 3 * exact, R12) and close(val, exact, R12)):
                ctx.violation("C11:unprefixed-changes-value", f"3*({b}^{e}*meter).unprefixed() = {un!r}, exact {core.sf(3 * exact)!r} (prefix first created through {first})", case)
            # and the powers that land on it from registered prefixes
            if e > 0 and e % 4 == 0 and b == 10:
                k = e // 4
                lhs = 3 * ((m.Prefix(10, k - 1) * m.Prefix(10, 1)) * Meter) ** 4
                rhs = 3 * 10**e * Meter**4
                if not (lhs == rhs and rhs == lhs):
                    ctx.violation("C11:prefixed-quantity-not-equal-to-scaled", f"3*((10^{k})*meter)**4 != 3*10**{e}*meter**4 (prefix first created through {first})", case)

    # conversions between prefixed versions of one unit, and compound units
    n = ctx.scale(3000, 300000)
    for _ in range(n):
        ctx.count("evaluations")
        factors = pools.random_factors(rng, max_factors=3, max_exp=4, prefix_prob=0.0, hostile=0.2)
        base_term = pools.factors_term(factors)
        try:
            u = env.mdl.eval_real(base_term)
        except Exception:
            continue
        pa, pb = rng.choice(prefixes), rng.choice(prefixes)
        k = rng.randint(-4, 4)
        ctx.distinct(("compound", pa[0], pb[0], pools.shape_class(factors), k))
        mixed = pa[1].base != pb[1].base
        mag = pools.magnitude(rng)
        src, dst = pa[1] * u, pb[1] * u
        # (p*u)**k on compound units
        try:
            lhs, rhs = (pa[1] * u) ** k, (pa[1] ** k) * (u**k)
            if u.prefix.base not in (0, pa[1].base) or not isinstance(u.prefix.exponent, int):
                ctx.count("compound_mixed_base")
                if lhs.factors != rhs.factors or not close(oracle.prefix_value(lhs.prefix), oracle.prefix_value(rhs.prefix), R9):
                    ctx.violation("C11:power-of-prefixed-unit:mixed", f"({pa[0]}*{u})**{k}", {"prefix": pa[0], "unit": base_term, "n": k})
            elif lhs is not rhs:
                ctx.violation("C11:power-of-prefixed-unit", f"({pa[0]}*{u})**{k}", {"prefix": pa[0], "unit": base_term, "n": k})
        except Exception as e:
            ctx.violation(f"C11:raised:{type(e).__name__}", f"({pa[0]}*{u})**{k}: {e}", {})
        ctx.count("identities/conversion_between_prefixes")
        try:
            got = (mag * src).in_unit(dst)
        except env.conv.ConversionNotFound:
            ctx.count("identities/conversion_between_prefixes_not_found")
            continue
        except Exception as e:
            ctx.violation(f"C11:prefix-conversion-raised:{type(e).__name__}", f"{mag} {src} -> {dst}: {e}", {"unit": base_term, "a": pa[0], "b": pb[0]})
            continue
        expected = oracle.F(mag) * oracle.prefix_value(pa[1]) / oracle.prefix_value(pb[1])
        if kit.finite(got.magnitude) and not close(got.magnitude, expected, R9 if mixed else R12 * 10):
            ctx.violation("C11:conversion-between-prefixes", f"{mag!r} {src} -> {dst} = {got.magnitude!r}, exact {core.sf(expected)!r}",
                          {"unit": base_term, "a": pa[0], "b": pb[0], "mag": repr(mag)})
        # stripping prefixes never changes the value (oracle SI value)
        q = mag * src
        un = q.unprefixed()
        if orc.knows(src) and kit.finite(un.magnitude):
            lo, hi, _ = orc.si_value(q.magnitude, q.unit)
            lo2, hi2, _ = orc.si_value(un.magnitude, un.unit)
            mid = (lo + hi) / 2
            if not (close(lo2, lo, R9) and close(hi2, hi, R9)):
                ctx.violation("C11:unprefixed-changes-si-value", f"{q!r}.unprefixed() = {un!r}", {"unit": base_term, "a": pa[0]})
            ctx.count("identities/unprefixed_si_value")
    # mixed-base arithmetic that cancels or lands exactly on a registered prefix ((Mega*Mebi)/Mebi is Mega, kB/kB is the
    # identity): afterwards the registered prefixes are what they were declared as - exact integers - on units nobody has
    # quantified yet, with magnitudes beyond 2**53 where a float factor would show
    si_ = [(n, p) for n, p in prefixes if p.base == 10 and isinstance(p.exponent, int) and 0 < p.exponent <= 24]
    iec_ = [(n, p) for n, p in prefixes if p.base == 2 and isinstance(p.exponent, int)]
    byte_ = pools.units.get("byte")
    for k in range(ctx.scale(40, 3000)):
        if not si_ or not iec_:
            break
        (n1, p1), (n2, p2) = rng.choice(si_), rng.choice(iec_)
        ctx.count("evaluations")
        ctx.count("mixed_base_round_trips_that_land_exactly")
        try:
            rng.choice([lambda: (p1 * p2) / p2, lambda: (p2 * p1) / p2, lambda: ((p1 * Meter) * (p2 * Meter)) / (p2 * Meter), lambda: (10 * (p1 * byte_)) / (2 * (p1 * byte_)) if byte_ is not None else p1,
                        lambda: (p1 * p2) * p2 ** -1, lambda: ((p1 * p2) ** 2).root(2) / p2])()
        except Exception:
            ctx.count("mixed_base_round_trips_refused")
        fresh_u = m.Unit.define(m.Length, f"zqc11big{ctx.shard}x{k}", f"zqc11bg{ctx.shard}x{k}")
        big = 2**53 + 1 + 2 * k
        case = {"after": f"({n1}*{n2})/{n2}", "magnitude": big}
        for label, got, want in ((f"({big} * ({n1}*u)).unprefixed()", (big * (p1 * fresh_u)).unprefixed().magnitude, big * 10 ** p1.exponent),
                                 (f"({big} * u).unprefixed()", (big * fresh_u).unprefixed().magnitude, big),
                                 (f"({big} * (identity*u)).unprefixed()", (big * (m.IdentityPrefix * fresh_u)).unprefixed().magnitude, big)):
            if type(got) is not int or got != want:
                ctx.violation("C11:prefixed-quantity-not-equal-to-scaled", f"after a mixed-base computation that lands on a registered prefix, {label} on a new unit is {got!r}; "
                              f"prefix factor times magnitude is the integer {want}", case)
        if not ((big * (p1 * fresh_u)) == (big * 10 ** p1.exponent) * fresh_u) or ((big * fresh_u) == ((big - 1) * fresh_u)):
            ctx.violation("C11:prefixed-quantity-not-equal-to-scaled", f"after a mixed-base computation that lands on a registered prefix, {big}*({n1}*u) == ({big}*10**{p1.exponent})*u "
                          f"fails or neighbouring integers compare equal on a new unit", case)
    # roots of quantities whose prefix was applied AFTER the power (kilo * metre**2, not (kilo*metre)**2): the factors have a
    # whole root, the prefix may not.  Either the root is refused (FractionalDimensionError), or its n-th power is the
    # quantity it was taken from - the prefix is part of the value
    for _ in range(ctx.scale(150, 15000)):
        nm, p = rng.choice(prefixes)
        u = rng.choice([Meter, pools.units["second"], pools.units["gram"], pools.units["bit"] if "bit" in pools.units else Meter])
        n = rng.choice([2, 3, -2, 2])
        v = rng.choice([u, u / pools.units["second"]]) if u is not pools.units["second"] else u
        x = p * v ** n if rng.random() < 0.7 else (p * v) ** n
        mag = rng.choice([4, 16.0, 27, 0.25, 1e6, 64])
        q = m.Quantity(mag, x)
        ctx.count("evaluations")
        ctx.count("roots_of_quantities_with_a_prefix_outside_the_power")
        ctx.distinct(("root-after-prefix", nm, str(v), n), True)
        try:
            r = q.root(n)
        except m.FractionalDimensionError:
            ctx.count("roots_of_quantities_refused")
            continue
        except (ZeroDivisionError, OverflowError, ValueError):
            continue
        except Exception as e:
            ctx.violation(f"C11:raised:{type(e).__name__}", f"({q!r}).root({n}): {e}", {"prefix": nm, "n": n})
            continue
        try:
            back = r ** n
            whole = oracle.F(q.magnitude) * oracle.prefix_value(q.unit.prefix)
            again = oracle.F(back.magnitude) * oracle.prefix_value(back.unit.prefix)
        except Exception:
            continue
        if back.unit.factors != q.unit.factors or not close(again, whole, R9):
            ctx.violation("C11:root-of-prefixed-quantity-loses-the-prefix", f"({q!r}).root({n}) = {r!r}, whose power {n} is {back!r}: not the quantity it was taken from",
                          {"prefix": nm, "unit": str(v), "n": n, "mag": repr(mag)})
    # Decimal readings first touched while the program has a coarse decimal context in force (a report printed with 6
    # digits: compared, stripped of its prefix, converted there), then used again under the ordinary context: the
    # identities hold to the digits of the context in force NOW.  Every reading is a number nobody has used before
    import decimal
    from decimal import Decimal
    named = [(nm, p) for nm, p in prefixes if isinstance(p.exponent, int) and p.base in (10, 2) and abs(p.exponent) <= 30]
    base_units = [Meter] + [m.Unit._by_name[x] for x in ("second", "gram", "bit") if x in m.Unit._by_name]
    for k in range(ctx.scale(60, 6000)):
        nm, p = rng.choice(named)
        u = rng.choice(base_units)
        x = Decimal(f"{rng.randint(1, 9)}.{rng.randint(10**12, 10**13 - 1)}{k % 10}{ctx.shard}")      # 15 significant digits
        q = x * (p * u)
        ctx.count("evaluations")
        ctx.count("decimal_readings_first_touched_under_a_coarse_context")
        mon.paused = True     # what is computed under 5 digits is right to 5 digits: not the conversion monitor's business
        with decimal.localcontext() as coarse:
            coarse.prec = rng.choice([5, 6, 7, 9])
            for touch in rng.sample([lambda: q.unprefixed(), lambda: q == (1 * u), lambda: q < (1 * u), lambda: q.in_unit(u), lambda: q + (1 * u), lambda: hash(q)], 3):
                try:
                    touch()
                except Exception:
                    pass
        mon.paused = False
        pv = oracle.prefix_value(p)
        exact = oracle.F(x) * pv
        case = {"reading": str(x), "prefix": nm, "unit": str(u)}
        ctx.distinct(("coarse-first", nm, str(u)), True)
        with decimal.localcontext(decimal.DefaultContext):
            try:
                un = q.unprefixed()
                # (a negative exponent makes the factor a float, 1e-06: equal only to ~1e-16, which == does not forgive)
                same = (q == (x * Decimal(p.base) ** p.exponent) * u) if p.exponent >= 0 else True
                conv = q.in_unit(u)
            except Exception as e:
                ctx.violation(f"C11:raised:{type(e).__name__}", f"{q!r} after it was first touched under a coarse decimal context: {e}", case)
                continue
        if un.unit is not u or not close(un.magnitude, exact, R12):
            ctx.violation("C11:unprefixed-changes-value", f"{q!r}.unprefixed() = {un.magnitude!r} {un.unit} under the default context after it was first touched under a coarse one; "
                          f"exact {core.sf(exact)!r}", case)
        if not close(conv.magnitude, exact, R12):
            ctx.violation("C11:conversion-between-prefixes", f"{q!r}.in_unit({u}) = {conv.magnitude!r} under the default context after it was first touched under a coarse one", case)
        if same is not True:
            ctx.violation("C11:prefixed-quantity-not-equal-to-scaled", f"{q!r} != (m * value(prefix)) * {u} under the default context after it was first touched under a coarse one", case)
    ctx.require("table_cells", 1000)
