"""C18 — levels and quantities interconvert by the logarithmic definition."""
from __future__ import annotations

import decimal
from decimal import Decimal
from fractions import Fraction

from .. import core, kit, oracle

ID = "C18"
LEVEL = "exploration"
RULE = ("post-conditions on the real LogarithmicUnit.level and Level.quantify with a closed-form oracle "
        "(k/prefix)*log_base(q/ref) in 50-digit decimal; logarithm families bel, decibel, neper, octave, semitone and "
        "centi-/milli-/deca-/binary-prefixed variants x references of power and root-power dimensions given in several "
        "units and prefixes x level magnitudes in [-200, 200] x the quantity written in another convertible unit; "
        "monotone chains, both round trips, level == approximately(quantity) in both orders.  distinct = (family, "
        "reference, quantity unit, magnitude bucket); non-trivial = level != 0"
        " Plus a user unit recalibrated between readings and single Level objects quantified twice (first under a coarse decimal precision, then after an in-place adjustment)."
        " Half of the coarse-first readings use a reference nobody has used before, so the coarse reading is the first thing that ever happens to that logarithmic unit."
        " References include field strength and charge densities; a root-power dimension is registered at run time; round trips are also closed with the library's own conversion."
        " Readings 1e-12..1e-7 above and below every reference, in the reference's unit: definition, strictly increasing chain across the reference, round trip.")
ASSUMPTIONS = [
    "k = 2 for references whose dimension is a potential, current, pressure, speed, field strength or a charge density per length / area / volume (root-power), 1 for power, energy, "
    "intensity and frequency references - taken from the physics, not from ROOT_POWER_DIMENSIONS",
    "tolerance 1e-9 relative + 1e-9 absolute on the level; when the quantity is written in another unit than the "
    "reference, the conversion tolerance (1e-5 per degree + size interval) is propagated through the logarithm",
]
SHARDS = {"quick": 2, "thorough": 8}


def D(x):
    if isinstance(x, Fraction):
        return Decimal(x.numerator) / Decimal(x.denominator)
    return Decimal(x)


def orc_free_si(q, pa, fs, size):
    """pascal value of a quantity in Pa, uPa or the user's unit (no library conversion involved)"""
    u = q.unit
    pv = oracle.prefix_value(u.prefix)
    f = {k: v for k, v in u.factors.items()}
    if f == {pa: 1}:
        return D(q.magnitude) * D(pv)
    if f == {fs: 1}:
        return D(q.magnitude) * D(pv) * D(size)
    return None


def lib():
    """the library computes under the default decimal context; the harness's own arithmetic around it runs in a
    60-digit one (set for the duration of run())"""
    return decimal.localcontext(decimal.DefaultContext)


def run(ctx):
    ambient = decimal.getcontext().copy()
    decimal.setcontext(decimal.Context(prec=60))
    try:
        return _run(ctx)
    finally:
        decimal.setcontext(ambient)


def _run(ctx):
    env = kit.Env(ctx)
    m, rng, orc, pools = env.m, ctx.rng, env.orc, env.pools
    U, P = m.Unit._by_name, pools.prefixes
    Q = m.Quantity
    Prefix = m.Prefix
    import math

    from measured import music

    families = {
        "bel": (m.Bel, Decimal(10), Fraction(1)),
        "decibel": (m.Decibel, Decimal(10), Fraction(1, 10)),
        "neper": (m.Neper, Decimal(1).exp(), Fraction(1)),
        "octave": (m.Octave, Decimal(2), Fraction(1)),
        "semitone": (music.Semitone, Decimal(2), Fraction(1, 12)),
        "centibel": (P["centi"] * m.Bel, Decimal(10), Fraction(1, 100)),
        "millineper": (P["milli"] * m.Neper, Decimal(1).exp(), Fraction(1, 1000)),
        "decabel": (P["deca"] * m.Bel, Decimal(10), Fraction(10)),
        "cent": (Prefix(1200, -1) * m.Octave, Decimal(2), Fraction(1, 1200)),
        "half-octave": (Prefix(2, -1) * m.Octave, Decimal(2), Fraction(1, 2)),
    }
    # reference quantity, k, alternative units for the measured quantity
    refs = [
        ("1 W", 1 * U["watt"], 1, [U["watt"], P["milli"] * U["watt"], U["horsepower"], P["kilo"] * U["watt"], U["joule"] / U["second"], U["British thermal unit"] / U["hour"],
                                    U["ton of refrigeration"], U["foot"] * U["pound-force"] / U["second"]]),
        ("1 mW", 1 * (P["milli"] * U["watt"]), 1, [U["watt"], P["micro"] * U["watt"], U["metric horsepower"]]),
        ("2.5 kW", 2.5 * (P["kilo"] * U["watt"]), 1, [U["watt"], U["electrical horsepower"]]),
        ("1 pW/m2", 1 * ((P["pico"] * U["watt"]) / U["meter"] ** 2), 1, [U["watt"] / U["meter"] ** 2, (P["milli"] * U["watt"]) / (P["centi"] * U["meter"]) ** 2]),
        ("440 Hz", 440 * U["hertz"], 1, [U["hertz"], P["kilo"] * U["hertz"]]),
        ("1 J", 1 * U["joule"], 1, [U["joule"], U["calorie"], P["kilo"] * U["joule"], U["electron-volt"]]),
        ("1 V", 1 * U["volt"], 2, [U["volt"], P["milli"] * U["volt"], P["kilo"] * U["volt"]]),
        ("20 uPa", 20 * (P["micro"] * U["pascal"]), 2, [U["pascal"], P["milli"] * U["pascal"], U["pounds per square inch"], U["newton"] / U["meter"] ** 2]),
        ("1 A", 1 * U["ampere"], 2, [U["ampere"], P["milli"] * U["ampere"]]),
        ("1 ft/s", 1 * (U["foot"] / U["second"]), 2, [U["meter"] / U["second"], U["mile"] / U["hour"], U["knot"]]),
        # the other field (root-power) quantities: field strength and the three charge densities
        ("1 V/m", 1 * (U["volt"] / U["meter"]), 2, [U["volt"] / U["meter"], P["kilo"] * U["volt"] / U["meter"], U["volt"] / (P["centi"] * U["meter"])]),
        ("1 uC/m", 1 * ((P["micro"] * U["coulomb"]) / U["meter"]), 2, [U["coulomb"] / U["meter"], (P["milli"] * U["coulomb"]) / (P["centi"] * U["meter"])]),
        ("1 C/m2", 1 * (U["coulomb"] / U["meter"] ** 2), 2, [U["coulomb"] / U["meter"] ** 2, (P["micro"] * U["coulomb"]) / (P["centi"] * U["meter"]) ** 2]),
        ("3 C/m3", 3 * (U["coulomb"] / U["meter"] ** 3), 2, [U["coulomb"] / U["meter"] ** 3, (P["milli"] * U["coulomb"]) / (P["centi"] * U["meter"]) ** 3, U["coulomb"] / U["liter"] if "liter" in U else U["coulomb"] / U["meter"] ** 3]),
    ]
    state = {"expect": None}

    def ln(x):
        return D(x).ln()

    def level_formula(q_over_ref: Decimal, base: Decimal, prefix: Fraction, k: int):
        return Decimal(k) / D(prefix) * (q_over_ref.ln() / base.ln())

    # ---- post-conditions -------------------------------------------------------------------------
    def post_level(a, kw, result, exc):
        exp = state["expect"]
        if exp is None or exp.get("kind") != "level":
            return
        ctx.count("postconditions/level")
        if exc is not None:
            if isinstance(exc, env.conv.ConversionNotFound):
                ctx.count("level_no_route")
                exp["result"] = "no-route"
                return
            ctx.violation(f"C18:level:raised-{type(exc).__name__}", f"{exp['desc']} raised {type(exc).__name__}: {exc}", exp["case"])
            exp["result"] = "raised"
            return
        got = D(result.magnitude)
        want = exp["want"]
        tol = abs(want) * Decimal("1e-9") + Decimal("1e-9") + exp["extra_abs"]
        exp["result"] = "ok"
        if result.unit is not a[0]:
            ctx.violation("C18:level:wrong-unit", f"{exp['desc']}: level unit {result.unit}", exp["case"])
        if abs(got - want) > tol:
            exp["result"] = "bad"
            ctx.violation("C18:level:wrong-magnitude", f"{exp['desc']}: level {result.magnitude!r}, definition gives {core.sf(want)!r}", exp["case"])

    def post_quantify(a, kw, result, exc):
        exp = state["expect"]
        if exp is None or exp.get("kind") != "quantify":
            return
        ctx.count("postconditions/quantify")
        if exc is not None:
            if isinstance(exc, OverflowError):
                return
            ctx.violation(f"C18:quantify:raised-{type(exc).__name__}", f"{exp['desc']} raised {exc}", exp["case"])
            return
        want = exp["want"]
        got = D(result.magnitude) * D(oracle.prefix_value(result.unit.prefix))
        if abs(got - want) > abs(want) * Decimal("1e-9"):
            ctx.violation("C18:quantify:wrong-magnitude", f"{exp['desc']}: {result!r}, definition gives {core.sf(want)!r} (unprefixed reference units)", exp["case"])
        if result.unit.dimension is not exp["dimension"]:
            ctx.violation("C18:quantify:wrong-dimension", f"{exp['desc']}: {result!r}", exp["case"])

    env.kit.post(m.LogarithmicUnit, "level", post_level)
    env.kit.post(m.Level, "quantify", post_quantify)

    n = ctx.scale(10000, 400_000)
    fam_names = sorted(families)
    for i in range(n):
        ctx.count("evaluations")
        fname = rng.choice(fam_names)
        logarithm, base, prefix = families[fname]
        rname, ref, k, alts = rng.choice(refs)
        try:
            with lib():
                lu = logarithm[ref]
        except Exception as e:
            ctx.violation(f"C18:construct:{type(e).__name__}", f"{fname}[{rname}] raised {e}", {"family": fname, "ref": rname})
            continue
        # level magnitude x in [-200, 200], restricted so that base**(x*prefix/k) stays well inside float range
        span = min(Decimal(200), Decimal(250) * Decimal(k) / (D(prefix) * (base.ln() / Decimal(10).ln())))
        x = rng.choice([0, 1, -1, 3, 10, -20, 0.5]) if rng.random() < 0.3 else rng.uniform(-core.sf(span), core.sf(span))
        if abs(x) > span:
            x = core.sf(span) * (1 if x > 0 else -1) * rng.random()
        bucket = "0" if x == 0 else ("-" if x < 0 else "+") + ("small" if abs(x) < 1 else "mid" if abs(x) < 30 else "large")
        ratio = (D(x) * D(prefix) / Decimal(k) * base.ln()).exp()            # q/ref
        ref_lo, ref_hi, _ = orc.si_value(ref.magnitude, ref.unit)
        # the quantity, written in one of the alternative units
        qu = rng.choice(alts)
        if not orc.knows(qu) or orc.ratio(ref.unit, qu) is None:
            continue
        r = orc.ratio(ref.unit, qu)
        rmid = D((r[0] + r[1]) / 2)
        qmag = core.sf(D(ref.magnitude) * ratio * rmid)
        if not (1e-250 < qmag < 1e250):
            continue
        if rng.random() < 0.15:
            qmag = Decimal(repr(qmag))       # Decimal magnitudes go through the same formulas
        q = Q(qmag, qu)
        ctx.distinct((fname, rname, str(qu), bucket), x != 0)
        case = {"family": fname, "reference": rname, "quantity": repr(q), "level": x, "k": k}
        # oracle from the *actual* float magnitude of q (not from x), so float rounding of q is not charged
        q_over_ref = D(q.magnitude) / rmid / D(ref.magnitude)
        want = level_formula(q_over_ref, base, prefix, k)
        width = D((r[1] - r[0]) / ((r[0] + r[1]) / 2)) if r[0] != r[1] else Decimal(0)
        conv_rel = (Decimal("1e-5") * orc.degree(ref.unit, qu) + width) if qu is not ref.unit else Decimal(0)
        extra_abs = Decimal(k) / D(prefix) * conv_rel / base.ln()
        state["expect"] = {"kind": "level", "want": want, "extra_abs": extra_abs, "desc": f"({q}).level({fname}[{rname}])", "case": case}
        try:
            with lib():
                lv = q.level(lu)
        except Exception:
            state["expect"] = None
            continue
        res = state["expect"].get("result")
        state["expect"] = None
        if res != "ok":
            continue
        ctx.count(f"levels_checked/{fname}/{'root-power' if k == 2 else 'power'}")
        # level -> quantity
        xl = rng.choice([x, round(x), int(x), Decimal(repr(round(x, 3)))])
        want_q = D(ref.magnitude) * D(oracle.prefix_value(ref.unit.prefix)) * (D(xl) * D(prefix) / Decimal(k) * base.ln()).exp()
        state["expect"] = {"kind": "quantify", "want": want_q, "dimension": ref.unit.dimension, "desc": f"({xl!r} {fname}[{rname}]).quantify()", "case": case}
        try:
            with lib():
                back_q = (xl * lu).quantify()
        except Exception:
            back_q = None
        state["expect"] = None
        # round trips
        try:
            ctx.count("round_trips/level-quantity-level")
            with lib():
                l2 = back_q.level(lu)
            if abs(D(l2.magnitude) - D(xl)) > abs(D(xl)) * Decimal("1e-9") + Decimal("1e-9"):
                ctx.violation("C18:round-trip:level-quantity-level", f"{xl!r} {fname}[{rname}] -> {back_q!r} -> {l2.magnitude!r}", case)
            ctx.count("round_trips/quantity-level-quantity")
            with lib():
                q2 = lv.quantify()
            a_si, b_si = orc.si_value(q.magnitude, q.unit), orc.si_value(q2.magnitude, q2.unit)
            mid_a, mid_b = (a_si[0] + a_si[1]) / 2, (b_si[0] + b_si[1]) / 2
            if abs(mid_a - mid_b) > abs(mid_a) * (Fraction(1, 10**8) + Fraction(conv_rel) * 2):
                ctx.violation("C18:round-trip:quantity-level-quantity", f"{q!r} -> {lv.magnitude!r} -> {q2!r}", case)
            # the same round trip closed with the library's own conversion back into the quantity's unit: where the shipped
            # definitions offer two routes that differ by more than rounding (BTU/h by way of the joule or of the ton of
            # refrigeration), an oracle has to excuse either - but the level and the plain conversion have to take one
            try:
                with lib():
                    q3 = q2.in_unit(q.unit)
                ctx.count("round_trips/quantity-level-quantity-by-the-librarys-own-conversion")
                if abs(D(q3.magnitude) - D(q.magnitude)) > abs(D(q.magnitude)) * Decimal("1e-9"):
                    ctx.violation("C18:round-trip:quantity-level-quantity", f"{q!r} -> {lv.magnitude!r} -> {q2!r}, which the library itself converts back to {q3!r}", case)
            except CNF:
                ctx.count("round_trips/no_conversion_back")
        except Exception as e:
            ctx.violation(f"C18:round-trip:raised-{type(e).__name__}", f"{fname}[{rname}] x={x}: {e}", case)
        # a level compares equal (within rounding) to the quantity it denotes, both orders
        try:
            ctx.count("equality/level-vs-quantity")
            tol_eq = 1e-6 + core.sf(conv_rel) * 2
            with lib():
                ap = m.approximately(q, tol_eq)
                e1, e2 = (lv == ap), (ap == lv)
            if not (e1 and e2):
                ctx.violation("C18:level-not-equal-to-its-quantity", f"{lv!r} == approximately({q!r}) is {e1}, reverse {e2}", case)
            with lib():
                far = m.approximately(Q(q.magnitude * 3 / 2, q.unit), 1e-6)
                far_equal = (lv == far) or (far == lv)
            if far_equal:
                ctx.violation("C18:level-equal-to-a-different-quantity", f"{lv!r} == approximately(1.5*q)", case)
        except Exception as e:
            ctx.violation(f"C18:equality:raised-{type(e).__name__}", f"{lv!r} vs {q!r}: {e}", case)
        # monotone: a strictly larger quantity has a strictly larger level
        if i % 3 == 0:
            chain = sorted({float(qmag) * f for f in (0.5, 0.999, 1.0, 1.001, 2.0, 10.0)})
            try:
                with lib():
                    lvls = [Q(v, qu).level(lu).magnitude for v in chain]
                ctx.count("monotone_chains")
                if any(b <= a for a, b in zip(lvls, lvls[1:])):
                    ctx.violation("C18:not-strictly-increasing", f"{fname}[{rname}] over {chain}: {lvls}", case)
            except Exception:
                pass
        if i % 500 == 7:
            ctx.sample({"family": fname, "reference": rname, "quantity": str(q), "level": lv.magnitude, "definition": core.sf(want)})
    # ---- readings right next to the reference (a few parts in 1e12 ... 1e7 above and below it, in the reference's own unit, so
    # that no conversion is involved): the level is k/prefix * log_base(q/ref) there too - a few 1e-9 dB is not 0 dB -, it is
    # strictly increasing across the reference, and the round trip gives the reading back
    state["expect"] = None
    for fname in fam_names:
        logarithm, base, prefix = families[fname]
        for rname, ref, k, alts in refs[:: (3 if ctx.tier == "quick" else 1)]:
            try:
                with lib():
                    lu = logarithm[ref]
            except Exception:
                continue
            c = Decimal(k) / D(prefix) / base.ln()
            steps = sorted({s_ * e_ for e_ in (1e-12, 1e-11, 1e-10, 5e-10, 1e-9, 3e-9, 1e-8, 1e-7) for s_ in (1, -1)} | {0.0, rng.uniform(1e-10, 1e-9), -rng.uniform(1e-10, 1e-9)})
            lvls = []
            for eps in steps:
                qmag = float(ref.magnitude) * (1 + eps)
                q = Q(qmag, ref.unit)
                want = c * (D(qmag) / D(ref.magnitude)).ln()
                case = {"family": fname, "reference": rname, "quantity": repr(q), "parts_from_the_reference": eps}
                ctx.count("evaluations")
                ctx.count("readings_next_to_the_reference")
                ctx.distinct(("next-to-reference", fname, rname, eps > 0, abs(eps) < 1e-9))
                try:
                    with lib():
                        lv = q.level(lu) if rng.random() < 0.5 else lu.level(q)
                        back = lv.quantify().in_unit(ref.unit)
                except Exception as e:
                    ctx.violation(f"C18:level:raised-{type(e).__name__}", f"({q!r}).level({fname}[{rname}]) raised {type(e).__name__}: {e}", case)
                    lvls = None
                    break
                got = D(lv.magnitude)
                lvls.append(lv.magnitude)
                if abs(got - want) > abs(want) * Decimal("1e-9") + abs(c) * Decimal("2e-15"):
                    ctx.violation("C18:level:wrong-magnitude", f"({q!r}).level({fname}[{rname}]): level {lv.magnitude!r}, definition gives {core.sf(want)!r}", case)
                    break
                if abs(D(back.magnitude) - D(qmag)) > abs(D(qmag)) * Decimal("1e-12"):
                    ctx.violation("C18:round-trip-next-to-the-reference", f"({q!r}).level({fname}[{rname}]).quantify() in the reference's unit = {back!r}", case)
                    break
            if lvls and len(lvls) == len(steps) and any(b_ <= a_ for a_, b_ in zip(lvls, lvls[1:])):
                ctx.violation("C18:not-strictly-increasing", f"{fname}[{rname}] across the reference, {steps}: {lvls}", {"family": fname, "reference": rname})
            ctx.count("monotone_chains_across_the_reference")

    # ---- a unit whose size is corrected at run time (a calibrated "full scale"): the level of the same reading
    # follows the new size at once, through Quantity.level, LogarithmicUnit.level and the round trip
    with lib():
        pa, upa = U["pascal"], P["micro"] * U["pascal"]
    for k in range(12 if ctx.tier == "quick" else 400):
        fname = rng.choice(fam_names)
        logarithm, base, prefix = families[fname]
        nm = f"zqc18fs{ctx.shard}x{k}"
        with lib():
            fs = m.Unit.define(m.Pressure, nm, nm)
            lu = logarithm[20 * upa]
        sizes = rng.sample([2, 4, 0.5, 10, 1.25], 3)
        reading = rng.choice([0.5, 1, 2, Decimal("0.25")])
        for size in sizes:
            with lib():
                fs.equals(size * pa)
            q = Q(reading, fs)
            want = level_formula(D(reading) * D(size) / (Decimal(20) * Decimal("1e-6")), base, prefix, 2)
            for how in ("Quantity.level", "LogarithmicUnit.level", "Quantity.level again"):
                ctx.count("evaluations")
                ctx.count("levels_after_a_recalibration")
                ctx.distinct(("recalibrated", fname, how, size), True)
                try:
                    with lib():
                        lv = lu.level(q) if how == "LogarithmicUnit.level" else q.level(lu)
                        back = lv.quantify()
                except Exception as e:
                    ctx.violation(f"C18:level:raised-{type(e).__name__}", f"({q}).level({fname}[20 uPa]) after {nm} was set to {size} Pa: {e}", {"family": fname})
                    continue
                if abs(D(lv.magnitude) - want) > abs(want) * Decimal("1e-9") + Decimal("1e-6"):
                    ctx.violation("C18:level:wrong-magnitude", f"{how}: ({q}).level({fname}[20 uPa]) = {lv.magnitude!r} after {nm} was set to {size} Pa (it had other sizes before); "
                                  f"the definition gives {core.sf(want)!r}", {"family": fname, "size": size, "how": how})
                bsi = orc_free_si(back, pa, fs, size)
                if bsi is not None and abs(bsi - D(reading) * D(size)) > abs(D(reading) * D(size)) * Decimal("1e-6"):
                    ctx.violation("C18:round-trip:quantity-level-quantity", f"{q} -> {lv.magnitude!r} -> {back!r} after {nm} was set to {size} Pa", {"family": fname, "size": size})
    # ---- one Level object asked more than once: first under a coarse ambient precision (a report with 6 digits), then
    # under the ordinary one; and again after the reading was adjusted in place (magnitude is a plain attribute)
    for k in range(30 if ctx.tier == "quick" else 2000):
        fname = rng.choice(fam_names)
        logarithm, base, prefix = families[fname]
        rname, ref, kk, alts = rng.choice(refs)
        x0 = Decimal(repr(round(rng.uniform(-30, 40), 1)))
        if k % 2:
            # a reference nobody has used yet in this process (1.001, 1.002, ... of the usual one): the coarse reading
            # below is then the very first thing that ever happens to this logarithmic unit
            ref = type(ref)(ref.magnitude * (1000 + k + 1000 * ctx.shard) / 1000, ref.unit)
            ctx.count("levels_of_a_unit_first_used_under_a_coarse_context")
        with lib():
            lu = logarithm[ref]
            lv = x0 * lu
            with decimal.localcontext() as coarse:
                coarse.prec = rng.choice([5, 6, 8])
                try:
                    lv.quantify()
                except Exception:
                    pass
            readings = [("after a coarse first reading", lv.magnitude)]
        for label, _ in (("after a coarse first reading", None), ("after the level was adjusted in place", None)):
            if label.startswith("after the level"):
                with lib():
                    lv.magnitude = lv.magnitude + 3
            ctx.count("evaluations")
            ctx.count("levels_quantified_more_than_once")
            ctx.distinct(("requantified", fname, rname, label), True)
            try:
                with lib():
                    got = lv.quantify()
            except Exception as e:
                ctx.violation(f"C18:quantify:raised-{type(e).__name__}", f"({lv.magnitude} {fname}[{rname}]).quantify() {label}: {e}", {"family": fname})
                continue
            want = D(ref.magnitude) * D(oracle.prefix_value(ref.unit.prefix)) * (D(lv.magnitude) * D(prefix) / Decimal(kk) * base.ln()).exp()
            gotv = D(got.magnitude) * D(oracle.prefix_value(got.unit.prefix))
            if abs(gotv - want) > abs(want) * Decimal("1e-9"):
                ctx.violation("C18:quantify:wrong-magnitude", f"({lv.magnitude} {fname}[{rname}]).quantify() {label} gives {got.magnitude!r}, the definition gives {core.sf(want)!r}",
                              {"family": fname, "reference": rname, "when": label})
    # ---- the quantity is read off a scale with a zero point of the program's own (gauge pressure: 0 = 101325 Pa absolute): its
    # level above 20 uPa is the level of the ABSOLUTE pressure, for readings above and below the zero of the scale
    state["expect"] = None
    try:
        pa_ = U["pascal"]
        gauge_ = pa_.dimension.scale(101325 * pa_, f"zqc18gauge{ctx.shard}", f"zqcgg{ctx.shard}")
        lu_spl = m.Decibel[20 * (P["micro"] * pa_)]
        for _ in range(12 if ctx.tier == "quick" else 600):
            absolute = rng.choice([101325.0 + 2.0, 101325.0 - 20.0, 5.0, 2.0e5, 101325.0 * 3, 0.02])
            reading = absolute - 101325.0
            want = Decimal(20) * (D(absolute) / D("0.00002")).ln() / Decimal(10).ln()
            ctx.count("evaluations")
            ctx.count("levels_of_readings_on_a_scale_with_a_zero_point")
            ctx.distinct(("gauge", reading > 0, round(absolute)), True)
            try:
                with lib():
                    q_ = m.Quantity(reading, gauge_)
                    got = rng.choice([lambda: q_.level(lu_spl), lambda: lu_spl.level(q_)])().magnitude
                    back = (got * lu_spl).quantify().in_unit(gauge_).magnitude
            except Exception as e:
                ctx.violation(f"C18:level:raised-{type(e).__name__}", f"({reading} Pa gauge, {absolute} Pa absolute).level(dB re 20 uPa): {e}", {"absolute": absolute})
                continue
            if abs(D(got) - want) > abs(want) * Decimal("1e-9") + Decimal("1e-7"):
                ctx.violation("C18:level:wrong-magnitude", f"({reading} Pa on a gauge scale whose zero is 101325 Pa).level(dB re 20 uPa) = {got!r}; the absolute pressure {absolute} Pa "
                              f"gives {core.sf(want)!r}", {"absolute": absolute})
            elif abs(back - reading) > 1e-6 * max(abs(absolute), 1.0):
                ctx.violation("C18:round-trip:quantity-level-quantity", f"{reading} Pa gauge -> {got!r} dB -> {back!r} Pa gauge", {"absolute": absolute})
    except KeyError:
        ctx.count("gauge_scale_section_skipped")
    # ---- a program registers a root-power dimension of its own (vibration: acceleration levels in dB re 1 um/s^2 count 20 dB
    # per decade) by adding to the public set measured.ROOT_POWER_DIMENSIONS - after units with such a reference exist
    state["expect"] = None
    if hasattr(m, "ROOT_POWER_DIMENSIONS") and hasattr(m, "Acceleration"):
        accel = m.Unit._by_name["meter"] / m.Unit._by_name["second"] ** 2
        for k_ in range(4 if ctx.tier == "quick" else 100):
            with lib():
                ref_old = m.Quantity((k_ + 1 + 10 * ctx.shard) * 1e-6, accel)
                lu_old = m.Decibel[ref_old]
                q = m.Quantity(rng.choice([9.80665, 0.5, 120.0]), accel)
                ratio = D(q.magnitude) / D(ref_old.magnitude)
                phases = []
                try:
                    phases.append(("before the dimension is registered", 1, lu_old.level(q).magnitude, lu_old))
                    m.ROOT_POWER_DIMENSIONS.add(m.Acceleration)
                    lu_new = m.Decibel[m.Quantity(ref_old.magnitude * 1000, accel)]
                    phases.append(("after it is registered, on the unit that existed before", 2, lu_old.level(q).magnitude, lu_old))
                    phases.append(("after it is registered, asked for again by Decibel[reference]", 2, m.Decibel[ref_old].level(q).magnitude, lu_old))
                    phases.append(("after it is registered, on a unit created afterwards", 2, lu_new.level(q).magnitude + 60, lu_old))
                    back = (phases[1][2] * lu_old).quantify()
                finally:
                    m.ROOT_POWER_DIMENSIONS.discard(m.Acceleration)
                phases.append(("after the registration was withdrawn", 1, lu_old.level(q).magnitude, lu_old))
            for label, kk, got, _ in phases:
                want = Decimal(10 * kk) * (ratio.ln() / Decimal(10).ln())
                ctx.count("evaluations")
                ctx.count("levels_around_a_run_time_root_power_registration")
                ctx.distinct(("root-power-registration", label), True)
                if abs(D(got) - want) > abs(want) * Decimal("1e-9") + Decimal("1e-9"):
                    ctx.violation("C18:level:wrong-magnitude", f"({q}).level(dB re {ref_old}) {label}: {got!r}, the definition with k = {kk} gives {core.sf(want)!r}",
                                  {"when": label, "k": kk})
            if abs(D(back.magnitude) - D(q.magnitude)) > abs(D(q.magnitude)) * Decimal("1e-9"):
                ctx.violation("C18:round-trip:quantity-level-quantity", f"{q} -> level -> {back!r} on a unit whose dimension was registered as root-power after it was created", {})
    # the same questions asked by two threads at once (deterministic line scheduler, units of the scenario's own with exact
    # ratios, the temperature scales, levels): what this property says about an answer holds for every thread's answer
    if ctx.shard == 0:
        from .. import concurrent_conv
        _mon = locals().get("mon")
        if _mon is not None:
            _mon.paused = True
        try:
            concurrent_conv.section(ctx, env, trials=(36 if ctx.tier == "quick" else 600), key="C18")
        finally:
            if _mon is not None:
                _mon.paused = False
    ctx.require("postconditions/level", 200)
    ctx.require("postconditions/quantify", 200)
    ctx.require("monotone_chains", 50)
