"""C02 — dimensions, prefixes and units are canonical objects forming abelian groups."""
from __future__ import annotations

from fractions import Fraction

from .. import core, kit, model, oracle
from ..model import NF, ModelError

ID = "C02"
LEVEL = "exploration"
RULE = ("random expression trees (depth <= 4) over registered units, freshly defined base units, named derived units, "
        "registered prefixes and unnamed prefix products with *, /, ** (-4..4) and root; every tree is evaluated by the "
        "real operators and by a normal-form model, and a run-wide map normal form -> first object decides identity for "
        "every pair ever produced; the same product is re-evaluated in shuffled orders; explicit group laws on the same "
        "operands.  distinct = (normal form, operator skeleton); non-trivial = >= 2 operators and the value is not a "
        "registered named unit"
        " Integer exponents also arrive as IntEnum members and bools, prefixes of bases 60/16/1024/3 are mixed in, fundamental dimensions are declared in the middle of the run (the identity maps span the declaration), and refused operations (x ** 2.0, x * \"m\"...) are made on live objects in between."
        " Prefix trees start from one number spelled in two bases (1024**k over 2**(10k) ...), whose quotient has an exponent of a few 1e-16; an operator that raises anything but its own refusal is a violation.  Table sweeps judge entries through the public constructor only."
        " Refused parses that had formed a product first are followed by the same product in other operand orders.")
ASSUMPTIONS = [
    "the normal-form model (vmon/model.py) is the reference; named units' factor tables are read from the objects at boot",
    "identity (is) is demanded only when every prefix in the tree shares one base; mixed SI/IEC trees are compared "
    "numerically (1e-9 relative) as the statement says",
]
SHARDS = {"quick": 4, "thorough": 14}


def skeleton(t):
    if t[0] in ("u", "fresh"):
        return "u"
    if t[0] in ("pfx", "pfxraw"):
        return "p" + skeleton(t[-1])
    if t[0] in ("mul", "div"):
        return f"({skeleton(t[1])}{t[0][0]}{skeleton(t[2])})"
    return f"{skeleton(t[1])}{t[0][0]}{t[2]}"


def n_ops(t):
    if t[0] in ("u", "fresh"):
        return 0
    if t[0] in ("pfx", "pfxraw"):
        return 1 + n_ops(t[-1])
    if t[0] in ("mul", "div"):
        return 1 + n_ops(t[1]) + n_ops(t[2])
    return 1 + n_ops(t[1])


class Gen:
    def __init__(self, env, rng, n_fresh):
        self.env, self.rng = env, rng
        self.names = env.pools.unit_names
        self.n_fresh = n_fresh
        self.compound = env.pools.named_compound

    def leaf(self, mixed_ok):
        r = self.rng.random()
        if r < 0.12 and self.n_fresh:
            t = ["fresh", self.rng.randrange(self.n_fresh)]
        elif r < 0.3 and self.compound:
            t = ["u", self.rng.choice(self.compound)]
        elif r < 0.5:
            t = ["u", self.rng.choice(self.env.pools.everyday(self.names))]   # the units people actually write
        else:
            t = ["u", self.rng.choice(self.names)]
        r = self.rng.random()
        if r < 0.35:
            pool = self.env.pools.si_prefixes if (not mixed_ok or self.rng.random() < 0.8) else self.env.pools.iec_prefixes
            if self.rng.random() < 0.4:
                pool = [x for x in self.env.pools.EVERYDAY_PREFIXES if x in pool] or pool
            t = ["pfx", self.rng.choice(pool), t]
        elif r < 0.42:
            e = self.rng.randint(-7, 7)
            k = self.rng.random()
            # the same exponent as int, integral float or Decimal must denote the same prefix
            ee = e if k < 0.6 else float(e) if k < 0.8 else ["d", str(e)]
            # (with mixed bases allowed, also bases a user registers for himself: 60, 16, 1024, 3)
            t = ["pfxraw", 10 if not mixed_ok or self.rng.random() < 0.6 else self.rng.choice([2, 2, 60, 16, 1024, 3]), ee, t]
        return t

    def tree(self, depth, mixed_ok):
        if depth == 0 or self.rng.random() < 0.25:
            return self.leaf(mixed_ok)
        r = self.rng.random()
        if r < 0.4:
            return ["mul", self.tree(depth - 1, mixed_ok), self.tree(depth - 1, mixed_ok)]
        if r < 0.65:
            return ["div", self.tree(depth - 1, mixed_ok), self.tree(depth - 1, mixed_ok)]
        if r < 0.85:
            return ["pow", self.tree(depth - 1, mixed_ok), self.rng.randint(-4, 4)]
        return ["root", self.tree(depth - 1, mixed_ok), self.rng.choice([-3, -2, -1, 1, 2, 3])]


def flatten_product(t, out):
    if t[0] == "mul":
        flatten_product(t[1], out)
        flatten_product(t[2], out)
    else:
        out.append(t)
    return out


def run(ctx):
    env = kit.Env(ctx, need_oracle=False)
    m, mdl, rng = env.m, env.mdl, ctx.rng
    Unit, Prefix, Dimension = m.Unit, m.Prefix, m.Dimension
    FDE = m.FractionalDimensionError
    # freshly defined base units (unique names per shard)
    dims = [m.Length, m.Time, m.Mass, m.Energy, m.Frequency, m.Number, m.Speed]
    for k in range(6):
        d = dims[k % len(dims)]
        u = Unit.define(d, f"zqc02s{ctx.shard}n{k}", f"zqc02s{ctx.shard}n{k}")
        mdl.fresh.append(u)
    gen = Gen(env, rng, len(mdl.fresh))
    mdl.as_int = lambda k: model.int_in_disguise(rng, k)   # integer exponents also arrive as IntEnum members and bools
    first = {}   # normal form key -> first real object
    n = ctx.scale(60000, 1_500_000)

    def check_value(t, real, nf, what):
        ctx.count("identity_comparisons")
        # structural agreement of the real object with the model
        got_f = {f: e for f, e in real.factors.items() if f is not m.One}
        if got_f != nf.factors:
            ctx.violation("C02:factors-differ-from-model", f"{what}: {model.show(t)} has factors {real.factors!r}", {"term": t})
            return
        if tuple(real.dimension.exponents) != mdl.dim_of_nf(nf):
            ctx.violation("C02:dimension-differs-from-model", f"{what}: {model.show(t)} has dimension {real.dimension!r}", {"term": t})
            return
        if nf.mixed:
            ctx.count("mixed_base_numeric_comparisons")
            if abs(sum(core.sf(e) * __import__("math").log10(bb) for bb, e in nf.prefix.items())) > 250:
                ctx.count("mixed_base_out_of_float_range_skipped")
                return
            a, b = oracle.prefix_value(real.prefix), nf.prefix_value()
            if abs(a - b) > abs(b) * Fraction(1, 10**9):
                ctx.violation("C02:mixed-base-scale-differs", f"{what}: {model.show(t)} prefix scale {core.sf(a)!r} vs {core.sf(b)!r}", {"term": t})
            return
        want_prefix = next(iter(nf.prefix.items()), None)
        p = real.prefix
        got_prefix = None if p.base == 0 else (p.base, Fraction(p.exponent))
        if got_prefix != want_prefix:
            ctx.violation("C02:prefix-differs-from-model", f"{what}: {model.show(t)} has prefix {p!r}, model {want_prefix}", {"term": t})
            return
        key = nf.key()
        prev = first.get(key)
        if prev is None:
            first[key] = (real, t)
        elif prev[0] is not real:
            ctx.violation("C02:same-normal-form-different-objects",
                          f"{what}: {model.show(t)} and {model.show(prev[1])} denote the same product but are different objects",
                          {"term": t, "earlier": prev[1]})

    firstd, firstp = {}, {}
    for i in range(n):
        if i in (n // 3, (2 * n) // 3):
            # a program with its own unit system declares a new fundamental dimension at run time: every
            # dimension interned so far is re-keyed; everything evaluated before must stay the object that the
            # same expression denotes afterwards (the run-wide maps span the declaration)
            dimension_and_prefix_trees(ctx, env, rng, max(100, n // 60), firstd, firstp)
            k = ctx.get("fundamental_dimensions_declared_mid_run")
            nd = Dimension.define(f"zqc02dim{ctx.shard}x{k}", f"Zq{ctx.shard}x{k}")
            nu = Unit.define(nd, f"zqc02dimunit{ctx.shard}x{k}", f"zqc02du{ctx.shard}x{k}")
            mdl.fresh.append(nu)
            gen.n_fresh = len(mdl.fresh)
            ctx.count("fundamental_dimensions_declared_mid_run")
        mixed_ok = rng.random() < 0.15
        t = gen.tree(rng.randint(1, 4), mixed_ok)
        ctx.count("evaluations")
        try:
            nf = mdl.eval_model(t)
            model_err = None
        except ModelError as e:
            nf, model_err = None, e
        try:
            real = mdl.eval_real(t)
            real_err = None
        except FDE as e:
            real, real_err = None, e
        except Exception as e:
            ctx.violation(f"C02:operator-raised:{type(e).__name__}", f"{model.show(t)} raised {type(e).__name__}: {e}", {"term": t})
            continue
        if model_err is not None:
            ctx.count("inexact_roots")
            if real_err is None:
                ctx.violation("C02:inexact-root-accepted", f"{model.show(t)} has no exact root but evaluated to {real!r}", {"term": t})
            continue
        if real_err is not None:
            if nf.mixed:
                ctx.count("mixed_base_root_refused")
                continue
            ctx.violation("C02:exact-root-refused", f"{model.show(t)} is an exact root but raised {real_err}", {"term": t})
            continue
        nontrivial = n_ops(t) >= 2 and not real.names
        ctx.distinct((nf.key(), skeleton(t)), nontrivial)
        check_value(t, real, nf, "tree")
        if rng.random() < 0.04:
            # a refused call on this very object in between (x ** 2.0, x.root(2.0), x * "m", ...): the ordinary
            # expressions that follow - the same tree again first of all - must not notice
            from .. import gen as G
            ctx.count(f"refused_operations_in_between/{G.refused_operation(rng, m, real)}")
            try:
                again = mdl.eval_real(t)
            except Exception as e:
                ctx.violation(f"C02:operator-raised:{type(e).__name__}", f"{model.show(t)} raised {type(e).__name__} when evaluated again after a refused operation: {e}", {"term": t})
                continue
            if again is not real and not nf.mixed:
                ctx.violation("C02:same-normal-form-different-objects", f"{model.show(t)} evaluated again after a refused operation is another object", {"term": t})
        if rng.random() < 0.03:
            # a text that multiplies two units for the first time in this process and is then refused (an unknown symbol at
            # its end, an exponent nobody can read): the parse leaves no unit behind that the next expression would not be
            names = [n for n in env.pools.unit_names if env.pools.units[n].symbols and env.pools.units[n].symbols[0].isascii() and env.pools.units[n].symbols[0].isalpha()]
            na, nb = rng.sample(names, 2)
            a_, b_ = env.pools.units[na], env.pools.units[nb]
            ea, eb = rng.choice([1, 2, 3, 5, 7]), rng.choice([1, -1, 4, 6, -5])
            text = rng.choice(["{a}^{ea}*{b}^{eb}/zqnosuchunit", "{a}^{ea}*{b}^{eb}*zqnosuchunit^2", "{a}^{ea}/{b}^{eb}/zqnosuchunit", "({a}^{ea}*{b}^{eb}"]).format(
                a=a_.symbols[0], b=b_.symbols[0], ea=ea, eb=-eb if eb < 0 else eb)
            try:
                m.Unit.parse(text)
                ctx.count("refused_parses_in_between/answered")
            except Exception as e:
                ctx.count(f"refused_parses_in_between/{type(e).__name__}")
            x_, y_ = a_ ** ea, b_ ** eb
            if mdl.nf_of_unit(x_ * y_).mixed:
                ctx.count("refused_parses_in_between/mixed_base_product_not_judged")
                continue
            try:
                ok = (x_ * y_ is y_ * x_ and x_ / y_ ** -1 is x_ * y_ and (x_ ** -1 / y_) ** -1 is x_ * y_ and (x_ * y_) / y_ is x_ and x_ / y_ is (y_ / x_) ** -1
                      and m.Unit((x_ * y_).prefix, dict((x_ * y_).factors), (x_ * y_).dimension) is x_ * y_)
            except Exception as e:
                ctx.violation(f"C02:operator-raised:{type(e).__name__}", f"products of {na}**{ea} and {nb}**{eb} after the refused parse of {text!r}: {e}", {"text": text})
                ok = True
            if not ok:
                ctx.violation("C02:same-normal-form-different-objects", f"after the refused parse of {text!r}, the products of {na}**{ea} and {nb}**{eb} taken in different "
                              f"orders are different objects", {"text": text, "a": na, "b": nb})
        if i % 1500 == 7 and nontrivial:
            ctx.sample({"term": model.show(t), "value": core.safe_repr(real), "mixed_base": nf.mixed})
        # the same product in a shuffled evaluation order
        if t[0] == "mul" and rng.random() < 0.5:
            parts = flatten_product(t, [])
            rng.shuffle(parts)
            t2 = parts[0]
            for x in parts[1:]:
                t2 = ["mul", t2, x] if rng.random() < 0.5 else ["mul", x, t2]
            try:
                r2 = mdl.eval_real(t2)
                nf2 = mdl.eval_model(t2)
            except (FDE, ModelError):
                continue
            ctx.count("reordered_products")
            check_value(t2, r2, nf2, "reordered")
            if not nf.mixed and not nf2.mixed and r2 is not real:
                ctx.violation("C02:evaluation-order-changes-object", f"{model.show(t)} vs {model.show(t2)}", {"a": t, "b": t2})
        # explicit laws on these operands
        if rng.random() < 0.3 and not nf.mixed:
            laws(ctx, env, rng, real, t, gen)

    dimension_and_prefix_trees(ctx, env, rng, max(200, n // 20), firstd, firstp)
    sweep(ctx, env)
    ctx.count("distinct_normal_forms", len(first))
    ctx.count("max_table_size/units", 0)
    ctx.maxi("unit_table_size", len(Unit._known))
    ctx.maxi("prefix_table_size", len(Prefix._known))
    ctx.maxi("dimension_table_size", len(Dimension._known))
    ctx.require("identity_comparisons", 1000)


def laws(ctx, env, rng, x, tx, gen):
    m, mdl = env.m, env.mdl
    FDE = m.FractionalDimensionError
    One = m.One
    try:
        ty, tz = gen.tree(2, False), gen.tree(2, False)
        y, z = mdl.eval_real(ty), mdl.eval_real(tz)
    except Exception:
        return
    bases = {u.prefix.base for u in (x, y, z) if u.prefix.base}
    if len(bases) > 1 or any(not isinstance(u.prefix.exponent, int) for u in (x, y, z)):
        ctx.count("laws_skipped_mixed_base")
        return
    a, b = rng.randint(-4, 4), rng.randint(-4, 4)
    n = rng.choice([-3, -2, -1, 1, 2, 3])
    checks = [
        ("commutative", lambda: x * y is y * x),
        ("associative", lambda: (x * y) * z is x * (y * z)),
        ("neutral", lambda: x * One is x and One * x is x and x / One is x),
        ("inverse", lambda: x * x**-1 is One and x / x is One),
        ("division-is-inverse-multiplication", lambda: x / y is x * y**-1),
        ("power-sum", lambda: x**a * x**b is x ** (a + b)),
        ("power-product", lambda: (x**a) ** b is x ** (a * b)),
        ("root-of-power", lambda: (x**n).root(n) is x),
        ("power-zero-one", lambda: x**0 is One and x**1 is x),
    ]
    for name, fn in checks:
        ctx.count(f"laws/{name}")
        try:
            ok = fn()
        except Exception as e:
            ctx.violation(f"C02:law-raised:{name}:{type(e).__name__}", f"{name} on {model.show(tx)}: {e}", {"x": tx, "y": ty, "z": tz, "a": a, "b": b, "n": n})
            continue
        if not ok:
            ctx.violation(f"C02:law:{name}", f"{name} fails for x={model.show(tx)} y={model.show(ty)} z={model.show(tz)} a={a} b={b} n={n}",
                          {"x": tx, "y": ty, "z": tz, "a": a, "b": b, "n": n})


def trimmed(vec):
    """exponent vector without trailing zeros: the same key before and after a new fundamental dimension"""
    v = list(vec)
    while v and v[-1] == 0:
        v.pop()
    return tuple(v)


def dimension_and_prefix_trees(ctx, env, rng, n, firstd, firstp):
    m = env.m
    Dimension, Prefix = m.Dimension, m.Prefix
    Number, Identity = m.Number, m.IdentityPrefix
    dims = sorted(Dimension._by_name.values(), key=lambda d: d.name)
    width = len(Number.exponents)
    for _ in range(n):
        ctx.count("dimension_trees")
        ops = rng.randint(1, 5)
        d = rng.choice(dims)
        vec = list(d.exponents)
        desc = [d.name]
        ok = True
        for _ in range(ops):
            r = rng.random()
            if r < 0.35:
                o = rng.choice(dims)
                d, vec = d * o, [a + b for a, b in zip(vec, o.exponents)]
                desc.append(f"*{o.name}")
            elif r < 0.6:
                o = rng.choice(dims)
                d, vec = d / o, [a - b for a, b in zip(vec, o.exponents)]
                desc.append(f"/{o.name}")
            elif r < 0.85:
                k = rng.randint(-4, 4)
                d, vec = d**k, [a * k for a in vec]
                desc.append(f"**{k}")
            else:
                k = rng.choice([-3, -2, -1, 1, 2, 3])
                exact = all(a % k == 0 for a in vec)
                try:
                    d2 = d.root(k)
                except m.FractionalDimensionError:
                    if exact:
                        ctx.violation("C02:dimension-exact-root-refused", f"{desc} root {k}", {"desc": desc})
                    ok = False
                    break
                if not exact:
                    ctx.violation("C02:dimension-inexact-root-accepted", f"{''.join(desc)}.root({k}) = {d2!r}", {"desc": desc, "k": k})
                    ok = False
                    break
                d, vec = d2, [a // k for a in vec]
                desc.append(f".root({k})")
        if not ok:
            continue
        if tuple(d.exponents) != tuple(vec):
            ctx.violation("C02:dimension-differs-from-model", f"{''.join(desc)} = {d!r}, model {vec}", {"desc": desc})
            continue
        prev = firstd.setdefault(trimmed(vec), (d, "".join(desc), width))
        if prev[0] is not d:
            ctx.violation("C02:same-dimension-different-objects", f"{''.join(desc)} (evaluated with {width} fundamental dimensions) and {prev[1]} "
                          f"(evaluated with {prev[2]}) denote one dimension but are different objects", {"desc": desc, "earlier": prev[1]})
        x = d
        y = rng.choice(dims)
        a, b = rng.randint(-3, 3), rng.randint(-3, 3)
        k = rng.choice([-2, -1, 1, 2, 3])
        if not (x * y is y * x and x * Number is x and x * x**-1 is Number and x / y is x * y**-1 and x**a * x**b is x ** (a + b)
                and (x**a) ** b is x ** (a * b) and (x**k).root(k) is x):
            ctx.violation("C02:dimension-law", f"a group law fails for {''.join(desc)} with {y.name}, a={a}, b={b}, k={k}", {"desc": desc})
    prefixes = [env.pools.prefixes[nm] for nm in env.pools.prefix_names]
    for _ in range(n):
        ctx.count("prefix_trees")
        p = rng.choice(prefixes)
        val = {p.base: Fraction(p.exponent)} if p.base else {}
        desc = [p.name]
        ok = True
        twin = None
        if rng.random() < 0.12:
            # one number spelled in two bases (1024**k over 2**(10k), 1000**k over 10**(3k), ...): the quotient is 1 up to
            # the rounding of a logarithm, so its exponent is 0.0 or a few 1e-16 - and the operators that follow (root(1)
            # above all) must answer or refuse in their own words like for any other prefix
            big, small, ratio = rng.choice([(1024, 2, 10), (1000, 10, 3), (16, 2, 4), (8, 2, 3), (100, 10, 2), (1024, 4, 5)])
            k = rng.choice([-3, -2, -1, 1, 2, 3, 4])
            p, twin = Prefix(big, k), Prefix(small, ratio * k)
            val, desc = {big: Fraction(k)}, [f"P({big},{k})"]
            ctx.count("prefix_trees_one_number_in_two_bases")
        try:
            for step in range(rng.randint(1, 5)):
                r = rng.random()
                o = rng.choice(prefixes + [Identity])
                if twin is not None and step == 0:
                    r, o = rng.choice([0.5, 0.5, 0.1]), twin
                elif twin is not None and step == 1:
                    r = 0.95
                if r < 0.4:
                    p = p * o
                    if o.base:
                        val[o.base] = val.get(o.base, 0) + Fraction(o.exponent)
                    desc.append(f"*{o.name or (f'P({o.base},{o.exponent})' if o.base else 'identity')}")
                elif r < 0.7:
                    p = p / o
                    if o.base:
                        val[o.base] = val.get(o.base, 0) - Fraction(o.exponent)
                    desc.append(f"/{o.name or (f'P({o.base},{o.exponent})' if o.base else 'identity')}")
                elif r < 0.88:
                    k = rng.randint(-4, 4)
                    p = p**k
                    val = {bb: e * k for bb, e in val.items()}
                    desc.append(f"**{k}")
                else:
                    k = rng.choice([-3, -2, -1, 1, 2, 3])
                    mixed = len([e for e in val.values() if e]) > 1 or not isinstance(p.exponent, int)
                    exact = all(e % k == 0 for e in val.values())
                    try:
                        p2 = p.root(k)
                    except m.FractionalDimensionError:
                        if exact and not mixed:
                            ctx.violation("C02:prefix-exact-root-refused", f"{''.join(map(str, desc))}.root({k})", {"desc": desc})
                        ok = False
                        break
                    if not exact and not mixed:
                        ctx.violation("C02:prefix-inexact-root-accepted", f"{''.join(map(str, desc))}.root({k}) = {p2!r}", {"desc": desc})
                        ok = False
                        break
                    if mixed:
                        ok = False
                        break
                    p, val = p2, {bb: e / k for bb, e in val.items()}
                    desc.append(f".root({k})")
        except Exception as e:
            ctx.violation(f"C02:prefix-operator-raised:{type(e).__name__}", f"{''.join(map(str, desc))}, next operation raised {type(e).__name__}: {e}", {"desc": desc})
            continue
        if not ok:
            continue
        val = {bb: e for bb, e in val.items() if e}
        exact_value = Fraction(1)
        for bb, e in val.items():
            exact_value *= Fraction(bb) ** int(e) if e.denominator == 1 else Fraction(core.sf(bb) ** core.sf(e))
        if exact_value == 0 or not (Fraction(1, 10**250) < exact_value < 10**250):
            ctx.count("prefix_trees_skipped_out_of_float_range")
            continue
        got = oracle.prefix_value(p)
        if len(val) <= 1 and isinstance(p.exponent, int):
            want = next(iter(val.items()), None)
            gotk = None if p.base == 0 else (p.base, Fraction(p.exponent))
            if want != gotk:
                # an intermediate mixed-base step may leave a float exponent: numeric claim only
                if abs(got - exact_value) > abs(exact_value) * Fraction(1, 10**9):
                    ctx.violation("C02:prefix-differs-from-model", f"{''.join(map(str, desc))} = {p!r}, model {val}", {"desc": desc})
                continue
            prev = firstp.setdefault(gotk, p)
            if prev is not p:
                ctx.violation("C02:same-prefix-different-objects", f"{''.join(map(str, desc))}", {"desc": desc})
        elif abs(got - exact_value) > abs(exact_value) * Fraction(1, 10**9):
            ctx.violation("C02:mixed-base-scale-differs", f"{''.join(map(str, desc))} = {core.sf(got)!r}, exact {core.sf(exact_value)!r}", {"desc": desc})


def sweep(ctx, env):
    """quiescent-point sweep of the three intern tables"""
    m, mdl = env.m, env.mdl
    Unit, Prefix, Dimension = m.Unit, m.Prefix, m.Dimension
    seen = {}
    for key, u in list(Unit._known.items()):
        ctx.count("sweep/units")
        if Unit(u.prefix, dict(u.factors), u.dimension) is not u:  # the table answers for this unit's own prefix and factors with another object
            ctx.violation("C02:unit-stored-under-foreign-key", f"{u!r}", {"unit": repr(u)})
        nf = mdl.nf_of_unit(u)
        if nf.mixed:
            continue
        k = nf.key() if nf.factors or nf.prefix else ("one",)
        if not nf.factors and not nf.prefix and u is not m.One:
            pass
        if k in seen and seen[k] is not u:
            ctx.violation("C02:two-table-entries-one-normal-form", f"{u!r} and {seen[k]!r}", {"a": repr(u), "b": repr(seen[k])})
        seen.setdefault(k, u)
    seenp = {}
    for key, p in list(Prefix._known.items()):
        ctx.count("sweep/prefixes")
        if (p.base, p.exponent) != key:
            ctx.violation("C02:prefix-stored-under-foreign-key", f"{p!r} under {key}", {})
        k = (p.base, Fraction(p.exponent))
        if k in seenp and seenp[k] is not p:
            ctx.violation("C02:two-prefix-entries-one-value", f"{p!r}", {})
        seenp.setdefault(k, p)
    for key, d in list(Dimension._known.items()):
        ctx.count("sweep/dimensions")
        if tuple(d.exponents) != tuple(key):
            ctx.violation("C02:dimension-stored-under-foreign-key", f"{d!r} under {key}", {})
