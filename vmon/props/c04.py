"""C04 — a conversion that returns a value returns the right value, in the asked unit."""
from __future__ import annotations

from .. import convmon, core, kit, model, synth

ID = "C04"
LEVEL = "exploration"
RULE = ("cases: (a) random source = product of <=3 factors (|exp|<=3) of registered offset-free named units "
        "with registered prefixes, target = every factor replaced by another unit of the same dimension or by a "
        "composition of fundamental-dimension units; (b) synthetic unit systems with power-of-two sizes and "
        "redundant declarations, each in a fresh process.  distinct = multiset over both sides of (dimension, "
        "sign, |exponent|, derived-dimension base unit?, prefixed?); non-trivial = source is not target and the "
        "conversion returned a value that the oracle checked"
        " One shard runs under non-default decimal contexts (7-40 digits, traps on/off) with mostly Decimal magnitudes; a finite magnitude converted to NaN is a violation; prefixes of the user's own in other bases; synthetic systems state a fifth of their equivalences from a prefixed form of the unit and re-declare leaves after queries."
        " One shard asks the same and different first-time questions from two threads at once (deterministic scheduler, exact expected answers)."
        " kit.aliasing_probe runs first (aliases of handed-out objects updated with every augmented assignment, returned quantities edited in place).")
ASSUMPTIONS = [
    "unit sizes are solved from the intercepted equals()/scale() declarations in exact rational arithmetic; "
    "where shipped declarations disagree the oracle is the interval spanned by neighbouring spanning trees",
    "tolerance 1e-5 relative per unit of total exponent degree on shipped definitions, exact (1e-12) on synthetic ones",
    "ConversionNotFound (and any other exception) is not a C04 violation; it is counted and left to C07/C09",
]
SHARDS = {"quick": 4, "thorough": 14}
SHARD_TIMEOUT = {"quick": 600, "thorough": 7200}


def run(ctx):
    # odd shards import the unit modules in a shuffled order: the order of neighbours in the ratio
    # table follows declaration order and steers the depth-first path search (route choice)
    order = None
    if ctx.shard % 2 == 1:
        from .. import boot as B
        order = list(B.ALL_MODULES)
        ctx.rng.shuffle(order)
        ctx.count("shards_with_shuffled_import_order")
    env = kit.Env(ctx, order=order)
    kit.aliasing_probe(ctx, env.m, "C04")   # before anything else: what follows runs in a process whose program aliases and updates in place
    mon = convmon.ConvertMonitor(env, ctx)
    conv = env.conv
    watch = kit.LineWatch(ctx, kit.module_functions(conv, "conversions"))
    pools, mdl, rng = env.pools, env.mdl, ctx.rng
    if ctx.shard == 0:
        witnesses(ctx, env, mon)
    # one shard runs under a decimal context a program may well have installed (9 or 12 significant digits, traps
    # on or off, another rounding mode): Decimal magnitudes are then rounded to that precision, which is far inside the
    # statement's tolerance, and must still come out as the right value
    decimal_context = None
    if ctx.nshards > 2 and ctx.shard == 2:
        import decimal
        later_context = rng.choice([decimal.Context(prec=12, traps=[]), decimal.Context(prec=7, traps=[]), decimal.BasicContext,
                                    decimal.Context(prec=40, rounding=decimal.ROUND_DOWN)]).copy()
        decimal_context = decimal.ExtendedContext.copy()   # 9 digits, nothing trapped; the second half of the run uses later_context
        decimal.setcontext(decimal_context)
        ctx.count("shards_under_a_non_default_decimal_context")
        ctx.cov["decimal_contexts"] = [repr(decimal_context)[:160], repr(later_context)[:160]]
    # prefixes of the user's own, in bases other than 10 and 2 (a "K" of 1024, a sexagesimal step, a hex step)
    own_prefixes = []
    for base, exp, nm in ((1024, 1, "zqK"), (60, 1, "zqsexa"), (16, 2, "zqhex"), (1024, -1, "zqperK")):
        name = f"{nm}{ctx.shard}"
        try:
            pools.prefixes[name] = env.m.Prefix(base, exp, name=name, symbol=name)
            own_prefixes.append(name)
        except Exception:
            pass
    n = ctx.scale(16000, 1_000_000)
    plans = set()
    modules_hit = {}
    unit_mod = {}
    for d in env.b.defined:
        unit_mod.setdefault(d["obj"], d["mod"])
    for i in range(n):
        if decimal_context is not None and i == n // 2:
            decimal.setcontext(later_context)
        hostile = rng.choice([0.0, 0.35, 0.8])
        factors = pools.random_factors(rng, max_factors=3, max_exp=3, hostile=hostile)
        target = pools.same_dimension_alternative(rng, factors, compose_prob=rng.choice([0.0, 0.3, 0.7]), keep_dimensionless_choice=True)
        if own_prefixes and rng.random() < 0.06:
            k = rng.randrange(len(factors))
            factors[k] = (rng.choice(own_prefixes), factors[k][1], factors[k][2])
            ctx.count("cases_with_a_prefix_of_another_base")
        st, tt = pools.factors_term(factors), pools.factors_term(target)
        try:
            src, dst = mdl.eval_real(st), mdl.eval_real(tt)
        except Exception as e:
            ctx.count(f"build_failed/{type(e).__name__}")
            continue
        mag = pools.magnitude(rng, kind="decimal" if decimal_context is not None and rng.random() < 0.7 else None)
        ctx.count("evaluations")
        mon.last = None
        try:
            result = (mag * src).in_unit(dst)
        except conv.ConversionNotFound:
            ctx.count("outcome/ConversionNotFound")
            continue
        except Exception as e:
            ctx.count(f"outcome/other_exception/{type(e).__name__}")
            continue
        ctx.count("outcome/returned")
        if mon.last is not None and src is not dst:
            ctx.distinct((pools.shape_class(factors), pools.shape_class(target)))
            for _, name, _ in factors + target:
                mod = unit_mod.get(pools.units[name], "?")
                modules_hit[mod] = modules_hit.get(mod, 0) + 1
            try:
                plans.add(repr(conv._plan_conversion(src, dst)))
            except Exception:
                pass
        if len(ctx.samples) < 6 and mon.last is not None and src is not dst:
            ctx.sample({"source": [model.enc_mag(mag), st], "target": tt, "shown": f"{mag!r} {src} -> {dst} = {result.magnitude!r}"})
    ctx.count("distinct_plans", len(plans))
    for mod, c in modules_hit.items():
        ctx.count(f"units_by_module/{mod}", c)
    watch.close()
    ctx.extra["functions_never_entered"] = watch.never_entered()

    # (a') the same question asked by two threads at once, two different first-time questions at once, temperatures and
    # levels at once (deterministic line scheduler, units of the scenario's own with exact ratios): every thread gets
    # magnitude x size(source) / size(target), and so does whoever asks afterwards
    if ctx.shard == 1 % ctx.nshards:
        from .. import concurrent_conv
        mon.paused = True
        try:
            concurrent_conv.section(ctx, env, trials=(60 if ctx.tier == "quick" else 1500), key="C04")
        finally:
            mon.paused = False

    # (b) synthetic, exactly consistent systems in fresh processes
    nsys = ctx.scale(160, 4000)
    synth.run_systems(ctx, nsys, mode="c04")


def witnesses(ctx, env, mon):
    """re-run the recorded witnesses of this property's findings (known and fixed): a
    known one that still fails is reported as KNOWN-FINDING, a fixed one that fails again
    is an ordinary violation (nothing is suppressed for it)"""
    for e in ctx.known:
        w = e.get("witness")
        ops = list(w.values()) if isinstance(w, dict) else [w] if isinstance(w, list) else []
        failed = False
        for op in ops:
            before = ctx.violation_count + sum(ctx.known_hits.values())
            try:
                (model.dec_mag(op[1]) * env.mdl.eval_real(op[2])).in_unit(env.mdl.eval_real(op[3]))
            except Exception:
                pass
            ctx.count("witnesses_rerun")
            if ctx.violation_count + sum(ctx.known_hits.values()) > before:
                failed = True
        if e.get("status") == "known":
            ctx.witness(e["key"], failed)


def finish(ctx):
    ctx.require("convert/checked", 100)
    ctx.require("synthetic/conversions_checked", 20)
    never = ctx.extra.get("functions_never_entered")
    # (merged from shards as a list of labels that *some* shard never entered; recompute)
    missing = [fn for fn, total in ctx.lines_total.items() if not ctx.lines.get(fn)]
    ctx.extra.pop("functions_never_entered", None)
    ctx.extra["planner_functions_never_entered"] = missing
    entered = [fn for fn in ctx.lines_total if ctx.lines.get(fn)]
    if "conversions.convert" in missing or len(entered) < max(3, len(ctx.lines_total) // 2):
        ctx.not_reached(f"the workload entered only {entered} of the conversion module's functions")
