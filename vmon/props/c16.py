"""C16 — the checked-in generated parser implements exactly the grammar file."""
from __future__ import annotations

import os

from .. import core, textgen

ID = "C16"
LEVEL = "translation_validation"
RULE = ("(i) structural comparison of the two *loaded* parsers (fresh Lark build of measured.lark with the Makefile's "
        "options vs the shipped standalone module): terminals, rules, %ignore and a complete bisimulation of the LALR "
        "action/goto tables from the paired start states; (ii) differential parsing of grammar-derived accepted "
        "strings, token-level mutations and random strings over the grammar's alphabet for both start symbols, with a "
        "recording table on the shipped parser that counts which (state, symbol) entries were exercised; (iii) the "
        "shipped engine's run-time state: every parse is checked to start from its own empty stacks (hook on "
        "_Parser.parse_from_state), and two or three parses overlapped at line granularity inside the LALR engine by the "
        "deterministic thread scheduler must each give the outcome the text has when parsed alone.  distinct = "
        "input string (non-trivial: >= 2 tokens), table entries and interleavings"
        " A fraction of the inputs are str subclasses (with their own __str__) and members of str-mixing Enums.")
ASSUMPTIONS = [
    "the reference parser is built by the Lark in /venv (1.3.1) from src/measured/measured.lark with parser='lalr', "
    "start=['unit','quantity'] as in the Makefile rule; the shipped module embeds Lark 1.1.2's runtime",
    "isomorphism is up to state renumbering; Shift/Reduce are normalised (the standalone module encodes them as 0/1); "
    "errors are compared as accept/reject only",
]
SHARDS = {"quick": 4, "thorough": 14}


def norm_pattern(p):
    return (type(p).__name__, p.value, tuple(sorted(p.flags)))


def norm_rule(r):
    opts = r.options
    o = (opts.keep_all_tokens, opts.expand1, opts.priority, tuple(opts.empty_indices) if opts.empty_indices else ()) if opts is not None else None
    return (str(r.origin.name), tuple((s.name, bool(s.is_term), bool(getattr(s, "filter_out", False))) for s in r.expansion), r.alias, o)


def tree_shape(t):
    if hasattr(t, "data"):
        return ("T", str(t.data), tuple(tree_shape(c) for c in t.children))
    if hasattr(t, "type"):
        return ("tok", t.type, str(t))
    return ("val", repr(t))


class RecDict(dict):
    __slots__ = ("sid", "log")

    def __getitem__(self, k):
        v = dict.__getitem__(self, k)
        self.log.add((self.sid, k))
        return v


def run(ctx):
    try:
        import lark
        import measured
        from measured import _parser
    except Exception as e:
        raise core.Inconclusive(f"cannot import: {e}")
    gpath = os.path.join(os.path.dirname(measured.__file__), "measured.lark")
    grammar = open(gpath, encoding="utf-8").read()
    try:
        fresh = lark.Lark(grammar, parser="lalr", start=["unit", "quantity"])
    except Exception as e:
        ctx.violation("C16:grammar-file-does-not-build", f"measured.lark does not build: {type(e).__name__}: {e}", {})
        return
    shipped = _parser.Parser()
    ctx.cov["lark_version_reference"] = lark.__version__
    ctx.cov["lark_version_embedded"] = getattr(_parser, "__version__", "?")

    # ---- (i) structure ---------------------------------------------------------------------------
    ft = {t.name: (norm_pattern(t.pattern), t.priority) for t in fresh.terminals}
    st = {t.name: (norm_pattern(t.pattern), t.priority) for t in shipped.terminals}
    first = ctx.shard == 0
    ctx.count("structural/terminals", len(ft) if first else 0)
    for name in sorted(set(ft) | set(st)):
        if ft.get(name) != st.get(name):
            ctx.violation(f"C16:terminal-differs:{name}", f"terminal {name}: grammar {ft.get(name)} vs shipped {st.get(name)}", {"terminal": name})
    fr = sorted(norm_rule(r) for r in fresh.rules)
    sr = sorted(norm_rule(r) for r in shipped.rules)
    ctx.count("structural/rules", len(fr) if first else 0)
    if fr != sr:
        only_f = [r for r in fr if r not in sr]
        only_s = [r for r in sr if r not in fr]
        ctx.violation("C16:rules-differ", f"rules only in grammar: {only_f[:3]}; only in shipped parser: {only_s[:3]}", {"grammar_only": only_f, "shipped_only": only_s})
    fi, si = sorted(fresh.lexer_conf.ignore), sorted(shipped.lexer_conf.ignore)
    if fi != si:
        ctx.violation("C16:ignore-list-differs", f"%ignore: grammar {fi} vs shipped {si}", {})
    if sorted(fresh.options.start) != sorted(shipped.options.start):
        ctx.violation("C16:start-symbols-differ", f"{fresh.options.start} vs {shipped.options.start}", {})

    ftab = fresh.parser.parser._parse_table
    stab = shipped.parser.parser._parse_table

    def norm_action(entry):
        act, arg = entry
        name = getattr(act, "name", None)
        if name is None:
            name = "Shift" if act == 0 else "Reduce" if act == 1 else str(act)
        return name, arg

    pairing, reverse = {}, {}
    queue = []
    for start in sorted(ftab.start_states):
        if start not in stab.start_states:
            ctx.violation("C16:start-state-missing", f"start {start}", {})
            continue
        queue.append((ftab.start_states[start], stab.start_states[start]))
    entries = 0
    ok = True
    while queue:
        a, b = queue.pop()
        if a in pairing:
            if pairing[a] != b:
                ctx.violation("C16:tables-not-isomorphic", f"grammar state {a} pairs with shipped states {pairing[a]} and {b}", {})
                ok = False
            continue
        if b in reverse and reverse[b] != a:
            ctx.violation("C16:tables-not-isomorphic", f"shipped state {b} pairs with grammar states {reverse[b]} and {a}", {})
            ok = False
            continue
        pairing[a], reverse[b] = b, a
        fa, sb = ftab.states[a], stab.states[b]
        if set(fa) != set(sb):
            ctx.violation("C16:table-lookahead-sets-differ", f"state {a}/{b}: grammar {sorted(fa)} vs shipped {sorted(sb)}", {"state": [a, b]})
            ok = False
            continue
        for sym in fa:
            entries += 1
            (fn, farg), (sn, sarg) = norm_action(fa[sym]), norm_action(sb[sym])
            if fn != sn:
                ctx.violation("C16:table-action-differs", f"state {a}/{b} on {sym}: {fn} vs {sn}", {"state": [a, b], "symbol": sym})
                ok = False
            elif fn == "Shift":
                queue.append((farg, sarg))
            elif norm_rule(farg) != norm_rule(sarg):
                ctx.violation("C16:table-reduce-rule-differs", f"state {a}/{b} on {sym}: {farg} vs {sarg}", {"state": [a, b], "symbol": sym})
                ok = False
    for start in ftab.end_states:
        if pairing.get(ftab.end_states[start]) != stab.end_states.get(start):
            # end states are reached by goto on the start symbol, so they are in the pairing when the tables agree
            ctx.violation("C16:end-states-differ", f"end state for {start}: {ftab.end_states[start]} pairs with {pairing.get(ftab.end_states[start])}, shipped {stab.end_states.get(start)}", {})
            ok = False
    ctx.count("structural/states_paired", len(pairing) if first else 0)
    ctx.count("structural/table_entries_compared", entries if first else 0)
    ctx.cov["structural/states_total"] = [len(ftab.states), len(stab.states)]
    if ok and (len(pairing) != len(ftab.states) or len(pairing) != len(stab.states)):
        ctx.violation("C16:unreachable-or-extra-states", f"paired {len(pairing)} of {len(ftab.states)} grammar / {len(stab.states)} shipped states", {})
    ctx.cov["exhaustive_over_tables"] = True

    # ---- (ii) differential execution with table-entry coverage ---------------------------------------
    log = set()
    total_entries = 0
    for sid, d in list(stab.states.items()):
        rd = RecDict(d)
        rd.sid, rd.log = sid, log
        stab.states[sid] = rd
        total_entries += len(d)
    gen = textgen.TextGen(ctx.rng)
    n = ctx.scale(100000, 5_000_000)
    accepted = rejected = 0

    # every parse of the shipped engine starts from its own, empty stacks: whatever an earlier (or a
    # concurrent) parse left behind is not part of the language the grammar defines
    orig_pfs = _parser._Parser.parse_from_state
    live = {}

    def monitored_parse_from_state(self, state):
        ctx.count("engine_start_states_checked")
        if state.value_stack or state.state_stack != [state.parse_conf.start_state]:
            ctx.violation("C16:parse-starts-from-leftover-state", f"a parse of the shipped parser starts with value stack of {len(state.value_stack)} "
                          f"entries and state stack {state.state_stack[:5]} instead of empty stacks", {})
        if any(state.value_stack is v or state.state_stack is st for v, st in live.values()):
            ctx.violation("C16:parses-share-a-stack", "two parses in progress use the same stack object", {})
        live[id(state)] = (state.value_stack, state.state_stack)
        try:
            return orig_pfs(self, state)
        finally:
            live.pop(id(state), None)

    _parser._Parser.parse_from_state = monitored_parse_from_state
    try:
        _differential(ctx, lark, _parser, fresh, shipped, gen, n, log, total_entries)
        if ctx.shard == ctx.nshards - 1:
            _overlapping(ctx, _parser, shipped, gen)
    finally:
        _parser._Parser.parse_from_state = orig_pfs


def _overlapping(ctx, _parser, shipped, gen):
    """the same inputs while another parse is in progress: two and three threads, each parsing one text with
    the shipped parser, interleaved at line granularity inside the LALR engine by the deterministic scheduler;
    every outcome must be the one the same text has when parsed alone (which part (ii) ties to the grammar)"""
    from .. import sched

    rng = ctx.rng
    texts = []
    while len(texts) < 60:
        t, kind = gen.any_text()
        if 0 < len(t) < 40:
            texts.append(t)
    texts += ["m/s", "kg", "5 m", "m^2*s^-1", "1/s", "3.5 km/h", "m//s", "kg m"]

    def alone(text, start):
        try:
            return ("ok", tree_shape(shipped.parse(text, start=start)))
        except _parser.LarkError:
            return ("reject",)
        except Exception as e:
            return ("crash", type(e).__name__)

    traced = {"ParserState.feed_token", "_Parser.parse_from_state", "monitored_parse_from_state"}
    seen = set()
    trials = 40 if ctx.tier == "quick" else 1500
    for trial in range(trials):
        k = rng.choice([2, 2, 3])
        jobs = [(rng.choice(texts), rng.choice(["unit", "quantity"])) for _ in range(k)]
        want = [alone(t, st) for t, st in jobs]

        def make(_i, jobs=jobs):
            return [(lambda t=t, st=st: alone(t, st)) for t, st in jobs]

        def check(run, _i, jobs=jobs, want=want):
            ctx.count("evaluations")
            ctx.count("overlapping_parses/executions")
            ctx.distinct(("overlap", run.trace_hash()), run.preemptions() >= 1)
            if run.watchdog_fired:
                ctx.count("watchdog_fired")
                return
            if run.errors or len(run.results) < len(jobs):
                ctx.count("overlapping_parses/incomplete")
                return
            for tid, ((text, start), w) in enumerate(zip(jobs, want)):
                got = run.results.get(tid)
                if got != w:
                    ctx.violation("C16:parse-differs-while-another-parse-is-in-progress",
                                  f"start={start} text={text!r}: alone {str(w)[:150]}, overlapped with {[j[0] for j in jobs]} it gives {str(got)[:150]}",
                                  {"jobs": jobs, "schedule": [c for c, _, _ in run.choices][:200]})
        sched.random_schedules(make, traced, _parser.__file__, check, rng, 3 if ctx.tier == "quick" else 6, seen)
    ctx.count("overlapping_parses/distinct_interleavings", len(seen))
    if ctx.get("overlapping_parses/executions") == 0:
        ctx.not_reached("no overlapping parse ran")


def _long_inputs():
    """single tokens and whole texts far longer than anything typed by hand (generated documents, pasted data): the
    grammar puts no bound on either"""
    big = 70000
    yield "q" * big
    yield "1" * big
    yield "1" * big + " m"
    yield "m^" + "2" * big
    yield "m" + "²" * big
    yield "0." + "3" * big + " m"
    yield "5 " + "k" * 66000 + "/s"
    yield "m" + " " * 1100000 + "s"
    yield "3 m" + "\n" * 1050000
    yield "kilogram " * 120000
    yield "7 m" + " \t" * 530000 + "/ s"


def _differential(ctx, lark, _parser, fresh, shipped, gen, n, log, total_entries):
    accepted = rejected = 0
    if ctx.shard == 0:
        for text in _long_inputs():
            for start in ("unit", "quantity"):
                ctx.count("evaluations")
                ctx.count("long_inputs")
                try:
                    a = ("ok", tree_shape(fresh.parse(text, start=start)))
                except lark.exceptions.LarkError:
                    a = ("reject",)
                except Exception as e:
                    a = ("crash", type(e).__name__)
                try:
                    b = ("ok", tree_shape(shipped.parse(text, start=start)))
                except _parser.LarkError:
                    b = ("reject",)
                except Exception as e:
                    b = ("crash", type(e).__name__)
                ctx.distinct((text[:20], len(text), start), True)
                if a != b:
                    k = "accept-vs-reject" if a[0] != b[0] else "trees-differ"
                    ctx.violation(f"C16:parsers-disagree:{k}", f"start={start} text={text[:30]!r}... ({len(text)} characters): grammar {str(a)[:120]} vs shipped {str(b)[:120]}",
                                  {"text_head": text[:60], "length": len(text), "start": start})
    import enum

    class Plain(str):
        pass

    class Talkative(str):
        def __str__(self):
            return f"Talkative.{str.__str__(self).upper()}"

        __repr__ = __str__

    def dressed(text, i):
        """the same characters in a str subclass (a plain one, one whose str() says something else, a member of an Enum that
        mixes in str): what is parsed is the text the object IS, not what str() makes of it"""
        k = i % 51
        if k == 3:
            return Plain(text), "str subclass"
        if k == 20:
            return Talkative(text), "str subclass with its own __str__"
        if k == 37 and text:
            try:
                return enum.Enum("SI_Units", {"TEXT_1": text}, type=str).TEXT_1, "member of an Enum that mixes in str"
            except Exception:
                return text, None
        return text, None

    for i in range(n):
        text, kind = gen.any_text()
        given, dress = dressed(text, i)
        if dress:
            ctx.count(f"inputs_of_another_string_type/{dress}")
        for start in ("unit", "quantity"):
            ctx.count("evaluations")
            try:
                a = ("ok", tree_shape(fresh.parse(text, start=start)))
            except lark.exceptions.LarkError:
                a = ("reject",)
            except Exception as e:
                a = ("crash", type(e).__name__)
            try:
                b = ("ok", tree_shape(shipped.parse(given, start=start)))
            except _parser.LarkError:
                b = ("reject",)
            except Exception as e:
                b = ("crash", type(e).__name__)
            if a[0] == "ok":
                accepted += 1
            else:
                rejected += 1
            ctx.count(f"generator/{kind}/{'accepted' if a[0] == 'ok' else 'rejected'}")
            ctx.distinct((text, start), len(text.split()) >= 2 or len(text) > 3)
            if a != b:
                k = "accept-vs-reject" if a[0] != b[0] else "trees-differ"
                ctx.violation(f"C16:parsers-disagree:{k}", f"start={start} text={text!r}: grammar {str(a)[:200]} vs shipped {str(b)[:200]}", {"text": text, "start": start})
            if i % 4001 == 17 and start == "unit":
                ctx.sample({"text": text, "start": start, "grammar": a[0], "shipped": b[0]})
    ctx.count("accepted", accepted)
    ctx.count("rejected", rejected)
    ctx.extra["table_entries_exercised"] = sorted(f"{s}:{k}" for s, k in log)
    ctx.cov["max_table_entries_total"] = total_entries
    ctx.require("evaluations", 100)
    if accepted == 0 or rejected == 0:
        ctx.not_reached("differential run saw only accepted or only rejected inputs")


def finish(ctx):
    ex = set(ctx.extra.pop("table_entries_exercised", []))
    ctx.cov["table_entries_exercised"] = len(ex)
    ctx.cov["disagreements_checked"] = ctx.violation_count
    ctx.cov["programs"] = 2
