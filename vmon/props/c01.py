"""C01 — a unit's dimension always equals the product of its factors' dimensions."""
from __future__ import annotations

import json
import os
import subprocess
import sys
from concurrent.futures import ThreadPoolExecutor

from .. import core, model, synth

ID = "C01"
LEVEL = "exploration"
RULE = ("each case is a fresh interpreter running a random history of 5-40 public operations (unit and quantity "
        "arithmetic, roots, as_ratio, str, format '/', pretty, MathML, parse, in_unit, == / <, +, JSON and pickle round "
        "trips, cli.print_quantity, levels, quantify; thorough: Dimension.define), biased to compound units over base "
        "units with derived mixed-sign dimensions that are rendered or ratio-split before their parts were ever built; "
        "monitors: post-condition on Unit.__init__'s first initialisation (with the constructing call site), a sweep of "
        "Unit._known / Dimension._known after every step, and a probe panel whose dimensions are compared across all "
        "histories including the empty one.  distinct = the sequence of operation kinds; non-trivial = the history "
        "registered at least one compound unit"
        " Histories also load pickles and JSON documents written by another process (also after a run-time Dimension.define), render dimensions / prefixes / measurements / levels, parse unit texts between two imports; text probes (Unit.parse of ambiguous spellings after all imports) join the cross-history panel."
        " Stored data of a program with another schema (the unit of that name declared as a number there) is read before this program declares the name with another dimension."
        " Every binary operator is applied with numbers, prefixes and quantities on either side of a unit; cross-dimension equivalences are declared and the command line lists powers.")
ASSUMPTIONS = [
    "the oracle uses only the dimensions captured at Unit.define; base units ({self: 1}) are axioms",
    "a worker that times out or dies makes that history inconclusive, never a violation",
]
WORKER = os.path.join(os.path.dirname(os.path.dirname(os.path.abspath(__file__))), "c01_worker.py")

PROBES = [
    ["pow", ["u", "g-force"], 2], ["div", ["u", "g-force"], ["u", "hour"]], ["pow", ["div", ["u", "g-force"], ["u", "hour"]], 2],
    ["pow", ["u", "hour"], 2], ["pow", ["u", "British thermal unit"], -1], ["mul", ["u", "pound-force"], ["u", "foot"]],
    ["div", ["u", "pound-force"], ["pow", ["u", "inch"], 2]], ["pow", ["mul", ["u", "erg"], ["u", "gram"]], -1],
    ["pfx", "kilo", ["pow", ["mul", ["u", "erg"], ["u", "gram"]], -1]], ["pow", ["u", "knot"], 3], ["div", ["u", "jansky"], ["u", "long ton"]],
    ["pfx", "micro", ["pow", ["u", "jansky"], -1]], ["mul", ["u", "langley"], ["u", "second"]], ["pow", ["u", "newton"], -2],
    ["div", ["u", "watt"], ["pow", ["u", "meter"], 2]], ["mul", ["pow", ["u", "meter"], 2], ["pow", ["u", "second"], -4]],
]


def run_worker(spec, timeout=300):
    try:
        p = subprocess.run([sys.executable, "-B", WORKER, json.dumps(spec)], capture_output=True, text=True, timeout=timeout, env=synth.child_env())
    except subprocess.TimeoutExpired:
        return {"inconclusive": "worker timed out"}
    if p.returncode != 0:
        return {"inconclusive": f"worker exit {p.returncode}: {p.stderr[-500:]}"}
    try:
        return json.loads(p.stdout)
    except Exception as e:
        return {"inconclusive": f"unparsable worker output {e}: {p.stdout[:200]!r} {p.stderr[-300:]!r}"}


DUMPER = r"""
import sys, json, base64, pickle, random
sys.path.insert(0, sys.argv[1])
from vmon import boot, model, gen
b = boot.boot()
mdl = model.Model(b)
pools = gen.Pools(b, mdl, None)
rng = random.Random(int(sys.argv[2]))
out = []
for i in range(int(sys.argv[3])):
    f = pools.random_factors(rng, max_factors=3, max_exp=3, hostile=0.6, prefix_prob=0.4)
    term = pools.factors_term(f)
    if rng.random() < 0.3:
        term = ["pow", term, rng.choice([-2, -1, 2])]
    try:
        u = mdl.eval_real(term)
        if i % 3 == 2:
            # the JSON document an earlier run stored (the library's own encoder)
            from measured.json import MeasuredJSONEncoder
            out.append([term, json.dumps(u, cls=MeasuredJSONEncoder), "json"])
        else:
            out.append([term, base64.b64encode(pickle.dumps(u, rng.choice([2, 3, 4, 5]))).decode(), "pickle"])
    except Exception:
        pass
print(json.dumps(out))
"""


OTHER_SCHEMA_DUMPER = r"""
import sys, json, base64, pickle, random
sys.path.insert(0, sys.argv[1])
from vmon import boot
b = boot.boot()
m = b.measured
rng = random.Random(int(sys.argv[2]))
U = m.Unit._by_name
out = []
for i in range(int(sys.argv[3])):
    # this program counts its own unit as a pure number (pixels, items, ticks); the reader will declare it as something else
    name, symbol = f"zqc01other{sys.argv[2]}x{i}", f"zqc01ot{sys.argv[2]}x{i}"
    mine = m.Unit.define(rng.choice([m.Number, m.Number, m.Mass]), name, symbol)
    second, meter = U["second"], U["meter"]
    stored = [mine / second, mine ** 2 * meter, b.measured.Prefix._by_name["kilo"] * mine, mine, 3 * (mine / second)]
    out.append([name, symbol, base64.b64encode(pickle.dumps(stored, rng.choice([2, 4, 5]))).decode()])
print(json.dumps(out))
"""


def other_schema_pickles(ctx, n):
    """stored data of a program that declared a unit of the same name with ANOTHER dimension (an older schema)"""
    try:
        p = subprocess.run([sys.executable, "-B", "-c", OTHER_SCHEMA_DUMPER, core.VERIF, str(ctx.seed), str(n)], capture_output=True, text=True, timeout=300, env=synth.child_env())
        return json.loads(p.stdout)
    except Exception:
        ctx.count("other_schema_dumper_failed")
        return []


def foreign_pickles(ctx, n):
    try:
        p = subprocess.run([sys.executable, "-B", "-c", DUMPER, core.VERIF, str(ctx.seed), str(n)], capture_output=True, text=True, timeout=300, env=synth.child_env())
        return json.loads(p.stdout)
    except Exception as e:
        ctx.count("foreign_pickle_dumper_failed")
        return []


def run(ctx):
    rng = ctx.rng
    n = ctx.scale(160, 4000)
    blobs = foreign_pickles(ctx, 3 * n)
    others = other_schema_pickles(ctx, n)
    specs = [{"seed": ctx.seed * 1000003 + 1, "steps": 0, "probes": PROBES, "base_width": 10}]  # the empty history
    for i in range(n):
        order = None
        if i % 2:
            from .. import boot as B
            order = list(B.ALL_MODULES)
            rng.shuffle(order)
            ctx.count("histories_with_shuffled_import_order")
        specs.append({"seed": ctx.seed * 1000003 + 7 * i + 11, "steps": rng.randint(5, 40), "probes": PROBES, "base_width": 10, "order": order,
                      # every fifth history also defines new fundamental dimensions at run time (which re-keys
                      # every known dimension); the foreign pickles and JSON documents loaded there were written
                      # for the shipped number of fundamental dimensions (stored data outlives such a declaration)
                      "define_dimension": i % 5 == 0, "parse_between_imports": i % 3 == 1,
                      "foreign_pickles": blobs[3 * i:3 * i + 3], "other_schema": others[i:i + 1] if i % 3 == 2 else []})
    with ThreadPoolExecutor(max_workers=14) as ex:
        results = list(ex.map(run_worker, specs))
    panel = {}   # probe term -> {dimension exponents (as tuple) -> first seed}
    failed = 0
    for spec, res in zip(specs, results):
        ctx.count("evaluations")
        ctx.count("histories")
        if "inconclusive" in res or res.get("fatal"):
            failed += 1
            if failed > max(2, len(specs) // 10):
                ctx.not_reached(f"worker: {res.get('inconclusive') or res.get('fatal')}")
            continue
        for k, v in res["counts"].items():
            ctx.count(k, v)
        registered = sum(v for k, v in res["counts"].items() if k.startswith("registrations/"))
        ctx.distinct(tuple(res["shape"]), registered > 0)
        for v in res["violations"]:
            ctx.violation(v["key"], v["what"], {"seed": spec["seed"], "steps": spec["steps"], "operations": res["shape"], **(v.get("case") or {})})
        for key, dim in res["probes"].items():
            if isinstance(dim, str):
                ctx.count("probe_expressions_that_raised")
                continue
            seen = panel.setdefault(key, {})
            seen.setdefault(tuple(dim), spec["seed"])
        if len(ctx.samples) < 5 and spec["steps"]:
            ctx.sample({"seed": spec["seed"], "operations": res["shape"], "compound_units_registered": registered})
    for key, seen in panel.items():
        ctx.count("probe_expressions_compared")
        if len(seen) > 1 and key.startswith("text:"):
            ctx.violation("C01:dimension-depends-on-history", f"Unit.parse({key[5:]!r}), asked after every unit module was imported, has dimension exponents {list(seen)} in different "
                          f"histories (seeds {list(seen.values())})", {"text": key[5:], "dimensions_by_seed": {str(v): list(k) for k, v in seen.items()}})
        elif len(seen) > 1:
            t = json.loads(key)
            ctx.violation("C01:dimension-depends-on-history", f"{model.show(t)} has dimension exponents {list(seen)} in different histories (seeds {list(seen.values())})",
                          {"term": t, "dimensions_by_seed": {str(v): list(k) for k, v in seen.items()}})
    sites = sorted(ctx.cov.get("registrations", {}))
    ctx.extra["registration_sites_observed"] = sites
    ctx.require("units_swept", 100)
    ctx.require("probe_expressions_compared", 10)
    ctx.require("foreign_pickles_loaded", 5)
    needed = ["Unit.__mul__", "Unit.__truediv__", "Unit.__pow__", "Unit.root", "Unit.as_ratio", "Unit.quantify", "Prefix.__mul__"]
    missing = [s for s in needed if s not in sites]
    if missing:
        ctx.not_reached(f"constructor call sites never observed registering a unit: {missing}")
