"""C09 — shipped unit definitions are mutually consistent and connected to SI."""
from __future__ import annotations

import json
import os
import subprocess
import sys
from fractions import Fraction

from .. import convmon, core, kit, oracle, synth

ID = "C09"
LEVEL = "exploration"
RULE = ("the finite declaration log of all shipped modules is enumerated completely: every declaration (edge), every "
        "fundamental cycle (non-tree declaration), every overwritten unit pair and every named unit; distinct = the "
        "declaration / cycle / unit itself; non-trivial = cycle of length >= 2, unit is not an SI base unit"
        " Before the sweep, questions the planner abandons half-way are each followed by first-time conversions; half of the units convert an area / volume / inverse first."
        " The aliasing probe (augmented assignment on aliases of measured.physics constants and Unit.quantify() results) runs first.")
ASSUMPTIONS = [
    "consistency is judged among the declared numbers only (a constant that is wrong in the real world but agrees with "
    "every other declaration is invisible)",
    "tolerance 1e-5 relative per unit of exponent degree of the two sides of the declaration",
    "dimensionless (Number) units are checked for mutual consistency but not for connection to SI",
]
TOL = Fraction(1, 100000)


def uname(u):
    return u.name or str(u)


def decl_label(d):
    return f"{d['mod'].replace('measured.', '')}: {d['am']} {uname(d['au'])} = {d['bm']} {uname(d['bu'])}"


def pair_key(d):
    a, b = sorted([uname(d["au"]), uname(d["bu"])])
    return f"{a}|{b}"


def si_coherent(env, dimension):
    m = env.m
    U = m.Unit._by_name
    bases = {1: "meter", 2: "second", 3: "kilogram", 4: "kelvin", 5: "coulomb", 6: "mole", 7: "candela", 8: "bit"}
    unit = m.One
    for i, e in enumerate(dimension.exponents):
        if e and i in bases:
            unit = unit * U[bases[i]] ** e
    return unit


def abandoned_questions_first(ctx, env, m, orc):
    """before anything else has been planned: questions the planner gives up on half-way (a named unit of a derived
    dimension combined with its inverse spelled in fundamental units, compared with or converted to something of the same
    total dimension - the search pairs up factors of different dimensions and abandons), each followed at once by
    first-time conversions between units that declarations do connect.  Whatever the abandoned question answers, those
    conversions must work"""
    derived = [n for n in env.pools.plain_names if sum(abs(e) for e in env.mdl.dim_of_unit(env.pools.units[n])) > 1]
    ctx.rng.shuffle(derived)
    physical = [n for n in env.pools.plain_names if any(env.mdl.dim_of_unit(env.pools.units[n])) and n != "donkeypower"]
    for xname in derived[: (60 if ctx.tier == "quick" else 400)]:
        X = env.pools.units[xname]
        try:
            inv = m.One
            for i_, e_ in enumerate(env.mdl.dim_of_unit(X)):
                if e_:
                    inv = inv * env.pools.units[ctx.rng.choice(env.pools.fund[i_])] ** (-e_)
        except Exception:
            continue
        asks = [lambda: (1 * X * inv) == (1e12 * m.One), lambda: (2 * X * inv).in_unit(m.One), lambda: (1 * X * inv) < (3 * m.One),
                lambda: (1 * X * inv**2).in_unit(inv), lambda: (1 * X) == (3 * inv**-1), lambda: (1 * X**2 * inv).in_unit(X)]
        for ask in ctx.rng.sample(asks, 3):
            try:
                ask()
                ctx.count("connectivity/abandoned_questions_first/answered")
            except Exception as e:
                ctx.count(f"connectivity/abandoned_questions_first/{type(e).__name__}")
            involved = [f_ for f_ in list(inv.factors) + [X] if f_ is not m.One]
            for f_ in involved + [env.pools.units[n_] for n_ in ctx.rng.sample(physical, 2)]:
                peers = [n_ for n_ in env.pools.by_dim.get(env.mdl.dim_of_unit(f_), []) if env.pools.units[n_] is not f_ and n_ != "donkeypower"]
                for pn in ctx.rng.sample(peers, min(2, len(peers))):
                    g_ = env.pools.units[pn]
                    for a_, b_ in ((f_, g_), (g_, f_)):
                        try:
                            (1.0 * a_).in_unit(b_)
                            ctx.count("connectivity/after_an_abandoned_question/converted")
                        except Exception as e:
                            ctx.count(f"connectivity/after_an_abandoned_question/{type(e).__name__}")
                            if orc.ratio(a_, b_) is not None and sum(abs(x_) for x_ in env.mdl.dim_of_unit(a_)) == 1:
                                # (units of a fundamental dimension: every pair of them converts on the unchanged tree)
                                ctx.violation(f"C09:not-connected:{uname(a_)}", f"(1*{uname(a_)}).in_unit({uname(b_)}) raised {type(e).__name__} right after an unrelated question the "
                                              f"planner gave up on (about {xname}): {e}", {"unit": uname(a_), "target": uname(b_), "after": xname})

def run(ctx):
    env = kit.Env(ctx)
    kit.aliasing_probe(ctx, env.m, "C09")   # before anything else: what follows runs in a process whose program aliases and updates in place
    b, orc, m = env.b, env.orc, env.m
    ctx.cov["exhaustive"] = True
    ctx.count("declarations", len(b.decls))
    ctx.count("scale_declarations", len(b.scales))
    for d in b.decls:
        ctx.count(f"declarations_by_module/{d['mod'].replace('measured.', '')}")

    # 1. silent overwrites: two declarations for one unit pair
    seen = {}
    for d in b.decls:
        terms, const = oracle.equation(d["au"], d["am"], d["bu"], d["bm"], m.One)
        if not terms:
            continue
        # the library files a ratio under the *unprefixed* units; const is
        # size(unprefixed au)/size(unprefixed bu)
        node = lambda u: tuple(sorted((id(f), e) for f, e in u.factors.items()))  # noqa: E731
        k = frozenset([node(d["au"]), node(d["bu"])])
        val = const
        if k in seen:
            prev_d, prev_val, prev_au = seen[k]
            v2 = val if node(prev_au) == node(d["au"]) else 1 / val
            ctx.count("unit_pairs_declared_twice")
            if v2 != prev_val:
                ctx.violation(f"C09:pair-declared-twice-with-different-values:{pair_key(d)}",
                              f"'{decl_label(prev_d)}' is silently overwritten by '{decl_label(d)}'", {"first": decl_label(prev_d), "second": decl_label(d)})
        else:
            seen[k] = (d, val, d["au"])
        ctx.count("evaluations")
        ctx.distinct(("decl", decl_label(d)))

    # 2. every fundamental cycle: residual of each non-tree declaration against the spanning-tree solution
    worst = []
    for terms, const, idx in orc.nontree:
        d = orc.eq_decl[idx]
        r = orc.residuals[idx]
        degree = max(1, sum(abs(e) for e in terms.values()))
        err = abs(r - 1)
        ctx.count("cycles")
        ctx.count("evaluations")
        ctx.distinct(("cycle", decl_label(d)), len(terms) >= 2 or True)
        worst.append((core.sf(err), decl_label(d)))
        if idx in orc.root_mismatch:
            ctx.violation(f"C09:dimensionally-inconsistent-declaration:{pair_key(d)}", f"'{decl_label(d)}' relates units of different root content", {"decl": decl_label(d)})
        elif err > TOL * degree:
            ctx.violation(f"C09:inconsistent-cycle:{pair_key(d)}",
                          f"'{decl_label(d)}' disagrees with the chain of other declarations by a factor {core.sf(r)!r} (tolerance {core.sf(TOL * degree):g})",
                          {"decl": decl_label(d), "ratio_declared_over_implied": core.sf(r)})
    worst.sort(reverse=True)
    ctx.extra["worst_cycle_residuals"] = [f"{e:.3g}  {l}" for e, l in worst[:8]]
    ctx.count("spanning_tree_declarations", len(orc.tree))
    ctx.count("components", len(orc.roots))
    if orc.unsolved:
        for t, c, i in orc.unsolved:
            ctx.violation(f"C09:unsolvable-declaration:{pair_key(orc.eq_decl[i])}", f"'{decl_label(orc.eq_decl[i])}' could not be placed", {})

    # 3. connectivity: every named unit with a physical dimension converts to and from coherent SI
    mon = convmon.ConvertMonitor(env, ctx, key_prefix="C09")
    abandoned_questions_first(ctx, env, m, orc)
    si_names = {"meter", "second", "kilogram", "gram", "kelvin", "coulomb", "mole", "candela", "bit", "one"}
    for name in env.pools.unit_names:
        u = env.pools.units[name]
        if not any(env.mdl.dim_of_unit(u)):
            ctx.count("named_units_dimensionless_skipped")
            continue
        si = si_coherent(env, u.dimension)
        ctx.count("named_units_checked")
        ctx.count("evaluations")
        ctx.distinct(("unit", name), name not in si_names)
        # for half of the units an area / volume / inverse of the unit is converted *first* (a search between powers
        # of the two units): what the plain conversion answers afterwards is the unit's size all the same (every
        # conversion that returns is judged by the monitor)
        if ctx.rng.random() < 0.5:
            for e_ in ctx.rng.sample([2, 3, -1, -2], 2):
                for src, dst in ((u ** e_, si ** e_), (si ** e_, u ** e_)):
                    try:
                        (2.0 * src).in_unit(dst)
                        ctx.count("connectivity/powers_first/converted")
                    except Exception as e:
                        ctx.count(f"connectivity/powers_first/{type(e).__name__}")
        for direction, (src, dst) in (("to-SI", (u, si)), ("from-SI", (si, u))):
            try:
                (1.0 * src).in_unit(dst)
                ctx.count(f"connectivity/{direction}/converted")
            except Exception as e:
                ctx.count(f"connectivity/{direction}/{type(e).__name__}")
                ctx.violation(f"C09:not-connected:{name}", f"(1*{name}).in_unit(...) {direction} ({src} -> {dst}) raised {type(e).__name__}: {e}",
                              {"unit": name, "direction": direction, "si": str(si)})
        if len(ctx.samples) < 5:
            ctx.sample({"unit": name, "coherent_si": str(si)})
    # a unit defined but never linked to anything
    for u in m.Unit._base:
        if u is m.One or u in orc.solved_units:
            continue
        if any(env.mdl.declared_dimension(u).exponents):
            ctx.violation(f"C09:never-linked:{uname(u)}", f"base unit {uname(u)} appears in no declaration", {"unit": uname(u)})
    for e, l in worst[:3]:
        ctx.sample({"cycle_closing_declaration": l, "relative_residual": e})

    # 4. the declaration log must not depend on the module import order
    orders = 3 if ctx.tier == "quick" else 12
    import_orders(ctx, env, orders)
    for e in ctx.known:
        if e.get("status") == "known":
            ctx.witness(e["key"], ctx.known_hits.get(e["key"], 0) > 0)
    # the same questions asked by two threads at once (deterministic line scheduler, units of the scenario's own with exact
    # ratios, the temperature scales, levels): what this property says about an answer holds for every thread's answer
    if ctx.shard == 0:
        from .. import concurrent_conv
        _mon = locals().get("mon")
        if _mon is not None:
            _mon.paused = True
        try:
            concurrent_conv.section(ctx, env, trials=(36 if ctx.tier == "quick" else 600), key="C09")
        finally:
            if _mon is not None:
                _mon.paused = False
    ctx.require("declarations", 50)
    ctx.require("cycles", 10)
    ctx.require("named_units_checked", 50)


DUMP = r"""
import sys, json
sys.path.insert(0, sys.argv[1])
from vmon import boot
order = json.loads(sys.argv[2])
b = boot.boot(modules=order, order=order)
rows = sorted([d['mod'], repr(d['am']), str(d['au']), repr(d['bm']), str(d['bu'])] for d in b.decls)
names = sorted((n, str(u)) for n, u in b.measured.Unit._by_name.items())
print(json.dumps({"decls": rows, "errors": b.errors, "names": names}))
"""


def import_orders(ctx, env, n):
    rng = ctx.rng
    base = list(env.b.modules)
    ref = sorted([d["mod"], repr(d["am"]), str(d["au"]), repr(d["bm"]), str(d["bu"])] for d in env.b.decls)
    for i in range(n):
        order = list(base)
        rng.shuffle(order)
        try:
            p = subprocess.run([sys.executable, "-B", "-c", DUMP, core.VERIF, json.dumps(order)], capture_output=True, text=True,
                               timeout=120, env=synth.child_env())
            out = json.loads(p.stdout)
        except Exception as e:
            ctx.not_reached(f"import-order child failed: {e}")
            continue
        ctx.count("import_orders_replayed")
        if out["errors"]:
            ctx.violation("C09:import-order-breaks-import", f"order {order}: {out['errors'][:2]}", {"order": order})
        elif out["decls"] != ref:
            diff = [r for r in out["decls"] if r not in ref][:3] + [r for r in ref if r not in out["decls"]][:3]
            ctx.violation("C09:declarations-depend-on-import-order", f"order {order} changes the declaration multiset: {diff}", {"order": order, "diff": diff})
