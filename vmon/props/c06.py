"""C06 — arithmetic and comparison do not depend on the units operands are written in."""
from __future__ import annotations

import operator
from decimal import Decimal
from fractions import Fraction

from .. import core, kit, model, oracle

ID = "C06"
LEVEL = "exploration"
RULE = ("pairs of quantities of one dimension (for + - == <) or any dimensions (for * / **), each operand re-expressed "
        "by the oracle (new magnitude = SI value / size of the new unit) in other convertible units and registered "
        "prefixes incl. mixed SI/IEC on information units; the SI value of every result must equal the operation on the "
        "operands' SI values, comparisons must agree with SI values away from ties, in both argument orders.  distinct "
        "= (operator, shape classes of both operands as written); non-trivial = the two operands are written in "
        "different units"
        " A quarter of the operands are Decimals, some pairs are one object, and a section states a user unit, uses it, states it again with a corrected number (through Unit.equals or conversions.equate with numbers on both sides) and demands one physical answer whatever unit the other operand is written in."
        " Chains of 3-40 declarations are first asked across with only 3-80 interpreter frames to spare (RecursionError anywhere in the search), then again with all the stack."
        " Ladders of declarations 5-12 compound steps deep; the aliasing probe runs first.")
ASSUMPTIONS = [
    "SI value = magnitude x unit-size interval from the declaration-log oracle, computed outside the library",
    "tolerance for + and - is relative to the larger operand (cancellation), 1e-5 per degree as for conversions; "
    "for * / ** 1e-9 relative (no conversion is involved)",
    "ties (SI values within 1e-9 relative or inside the size interval) are skipped and counted; a leg that raises "
    "ConversionNotFound / TypeError is 'no answer', not a disagreement",
    "offset scales (°C, °F) and dimensionless units inside compounds are excluded (C10 / known finding of C04)",
]
SHARDS = {"quick": 4, "thorough": 14}
TOL = Fraction(1, 100000)
R9 = Fraction(1, 10**9)


def asked_with_little_stack(ctx, env):
    """a chain of the user's own units (each twice the next); the first comparison / sum across the chain is made from
    deep inside the program's own recursion, with a few frames to spare, so the search may die of RecursionError at any
    depth.  An answer that comes back must be right, and afterwards, with all the stack there is, a == b, b == a, a < b,
    a + b and a - b must be what the declarations say (exact: powers of two)"""
    m, rng = env.m, ctx.rng
    Q = m.Quantity
    for k in range(6 if ctx.tier == "quick" else 150):
        dim = rng.choice([m.Length, m.Time, m.Mass])
        links = rng.choice([3, 5, 8, 12, 20, 40])
        units = []
        for j in range(links + 1):
            nm = f"zqc06deep{ctx.shard}x{k}x{j}"
            units.append(m.Unit.define(dim, nm, nm))
        for a, b in zip(units, units[1:]):
            a.equals(2 * b)
        i, j = sorted(rng.sample(range(links + 1), 2))
        if j - i > 20:
            j = i + 20
        a, b = Q(1, units[i]), Q(2 ** (j - i), units[j])      # equal
        small = Q(1, units[j])
        for free in sorted(rng.sample([3, 5, 8, 12, 16, 20, 26, 32, 40, 50, 64, 80], 4)):
            ask = rng.choice([lambda: a == b, lambda: b == a, lambda: not (a < small), lambda: (a + b).in_unit(units[i]).magnitude == 2, lambda: (b - a).magnitude == 0])
            how, got = kit.with_little_stack(ask, free)
            ctx.count(f"asked_with_little_stack/{how}")
            ctx.count("evaluations")
            if how == "answered" and got is not True:
                ctx.violation("C06:wrong-answer-with-little-stack", f"two equal quantities {links} declarations apart, asked with {free} frames to spare: the answer was wrong "
                              f"(not RecursionError)", {"links": links, "i": i, "j": j, "frames": free})
            elif how == "raised":
                ctx.violation(f"C06:raised-with-little-stack:{type(got).__name__}", f"equal quantities asked with {free} frames to spare raised {type(got).__name__}: {got}",
                              {"links": links, "i": i, "j": j, "frames": free})
        for label, ask in (("a == b", lambda: a == b), ("b == a", lambda: b == a), ("a >= small", lambda: a >= small), ("small < b", lambda: small < b),
                           ("a + b", lambda: (a + b).in_unit(units[i]).magnitude == 2), ("b - a", lambda: (b - a).magnitude == 0)):
            ctx.count("asked_again_with_all_the_stack")
            try:
                ok = ask()
            except Exception as e:
                ok = e
            if ok is not True:
                ctx.violation("C06:answer-after-a-search-that-ran-out-of-stack", f"{label} for equal quantities {j - i} declarations apart gives {ok!r} after the same question "
                              f"was asked with little stack", {"links": links, "i": i, "j": j, "label": label})


def ladders_of_declarations(ctx, env):
    """units of the program's own declared one on top of the other, 5 to 12 compound steps deep (rung k = 2 x rung k-1 x a
    base unit; all ratios exact in binary; every single step is seen to convert): a quantity on the top rung and the same physical quantity
    written in base units add, subtract, compare equal and do not order - however deep the spelling-out has to go"""
    m, rng = env.m, ctx.rng
    Q, U = m.Quantity, m.Unit._by_name
    bases = [U["meter"], U["second"], U["gram"]]
    for k in range(4 if ctx.tier == "quick" else 120):
        depth = rng.choice([5, 7, 8, 9, 12])
        exps = [0, 0, 0]
        i0 = rng.randrange(3)
        rung, exps[i0], scale = bases[i0], 1, 1
        ok = True
        for j in range(depth):
            i, e = rng.randrange(3), 1     # (steps with inverses run into the planner's known incompleteness about half of the time)
            step = bases[i] ** e
            nm = f"zqc06rung{ctx.shard}x{k}x{j}"
            try:
                nxt = m.Unit.define((rung * step).dimension, nm, nm)
                nxt.equals(2 * (rung * step))
            except Exception as e2:
                ctx.count(f"ladders/declaration_refused/{type(e2).__name__}")
                ok = False
                break
            try:
                if Q(1, nxt).in_unit(rung * step).magnitude != 2:
                    ok = False
            except Exception:
                ok = False
            if not ok:
                ctx.count("ladders/a_single_step_does_not_convert")
                break
            rung, scale = nxt, scale * 2
            exps[i] += e
        if not ok or not any(exps):
            continue
        plain = bases[0] ** exps[0] * bases[1] ** exps[1] * bases[2] ** exps[2]
        a, b = Q(5, rung), Q(5 * scale, plain)
        ctx.count("evaluations")
        ctx.count("ladders/compared")
        ctx.distinct(("ladder", depth, tuple(exps)), True)
        case = {"depth": depth, "exponents": exps, "top": str(rung), "plain": str(plain)}
        for label, ask, want in (("a == b", lambda: a == b, True), ("b == a", lambda: b == a, True), ("a != b", lambda: a != b, False), ("a < b", lambda: a < b, False),
                                 ("b > a", lambda: b > a, False), ("a <= b", lambda: a <= b, True), ("(a + b) in plain units", lambda: (a + b).in_unit(plain).magnitude, 10 * scale),
                                 ("(b + a) in plain units", lambda: (b + a).magnitude, 10 * scale), ("a - b", lambda: (a - b).magnitude, 0), ("b - a", lambda: (b - a).magnitude, 0),
                                 ("sorted", lambda: len(sorted([a, b, Q(1, plain)])), 3)):
            try:
                got = ask()
            except Exception as e2:
                got = e2
            ctx.count("ladders/questions")
            if isinstance(got, Exception) or got != want:
                ctx.violation(f"C06:ladder-of-declarations:{label}", f"5 x (rung {depth} of a ladder of declarations, each rung twice the one below times a base unit) against the "
                              f"same quantity in base units, {5 * scale} {plain}: {label} gives {got!r}, the declarations say {want!r}", case)


def corrected_equivalences(ctx, env):
    """a unit of the user's own whose size is stated, used, and then stated again with a corrected number: from then on
    arithmetic and comparison with it must give one physical answer whatever unit the other operand is written in
    (exact bookkeeping: the unit is k metres / seconds / grams, the other operand is in shipped units with exact ratios)"""
    m, rng = env.m, ctx.rng
    U, P = m.Unit._by_name, env.pools.prefixes
    Q = m.Quantity
    kinds = [
        (m.Length, "meter", [(U["meter"], Fraction(1)), (P["centi"] * U["meter"], Fraction(1, 100)), (U["inch"], Fraction(254, 10000)), (U["foot"], Fraction(3048, 10000)), (P["kilo"] * U["meter"], Fraction(1000))]),
        (m.Time, "second", [(U["second"], Fraction(1)), (U["minute"], Fraction(60)), (P["milli"] * U["second"], Fraction(1, 1000)), (U["hour"], Fraction(3600))]),
        (m.Mass, "gram", [(U["gram"], Fraction(1)), (P["kilo"] * U["gram"], Fraction(1000)), (P["milli"] * U["gram"], Fraction(1, 1000))]),
    ]
    for k in range(9 if ctx.tier == "quick" else 300):
        dim, base_name, others = kinds[k % len(kinds)]
        nm = f"zqc06own{ctx.shard}x{k}"
        own = m.Unit.define(dim, nm, nm)
        sizes = rng.sample([Fraction(1143, 1000), Fraction(5, 4), Fraction(2), Fraction(1, 2), Fraction(9, 8), Fraction(3)], 3)
        anchor = rng.choice(others[:2])   # the pair that is stated again is always the same one
        for size in sizes:
            if rng.random() < 0.5:
                own.equals(core.sf(size / anchor[1]) * anchor[0])
            else:
                # the same statement through the module-level function, both sides carrying a number: j own = j*size/anchor
                j = rng.choice([3, 0.5, 12, 2.5])
                env.conv.equate(Q(j, own), Q(core.sf(Fraction(j) * size / anchor[1]), anchor[0]))
                ctx.count("equivalences_stated_through_conversions_equate")
            x = rng.choice([1, 2, 0.5, 10])
            a, a_si = Q(x, own), Fraction(x) * size
            for (ub, sb) in others:
                y_si = a_si * rng.choice([Fraction(1), Fraction(11, 10), Fraction(1, 4), Fraction(3)])
                b = Q(core.sf(y_si / sb), ub)
                for opname in ("add", "radd", "sub", "lt", "gt", "eq"):
                    ctx.count("evaluations")
                    ctx.count("operations/after_a_corrected_equivalence")
                    ctx.distinct(("corrected", opname, str(ub), base_name), True)
                    case = {"op": opname, "a": repr(a), "b": repr(b), "size_now": str(size), "sizes_stated": [str(z) for z in sizes]}
                    try:
                        if opname == "add":
                            r = a + b
                            got, want = Fraction(r.magnitude) * size, a_si + y_si
                        elif opname == "radd":
                            r = b + a
                            got, want = Fraction(r.magnitude) * sb, a_si + y_si
                        elif opname == "sub":
                            r = a - b
                            got, want = Fraction(r.magnitude) * size, a_si - y_si
                        else:
                            r = {"lt": a < b, "gt": a > b, "eq": a == b}[opname]
                            if a_si == y_si:
                                ctx.count("ties_skipped")
                                continue
                            want = {"lt": a_si < y_si, "gt": a_si > y_si, "eq": False}[opname]
                            if r is not want:
                                ctx.violation(f"C06:{opname}:disagrees-with-si-order", f"{a!r} {opname} {b!r} is {r!r} after {nm} was stated as {[str(z) for z in sizes]} x {base_name} "
                                              f"(now {size}): SI values {core.sf(a_si)!r} vs {core.sf(y_si)!r}", case)
                            continue
                    except Exception as e:
                        ctx.violation(f"C06:{opname}:raised-{type(e).__name__}", f"{a!r} {opname} {b!r}: {e}", case)
                        continue
                    if abs(got - want) > max(abs(want), abs(a_si)) * Fraction(1, 10**9):
                        ctx.violation(f"C06:{opname if opname != 'radd' else 'add'}:si-value-differs", f"{a!r} {opname} {b!r} = {r!r} after {nm} was stated as {[str(z) for z in sizes]} x {base_name} "
                                      f"(now {size}): SI value {core.sf(got)!r}, expected {core.sf(want)!r}", case)


def run(ctx):
    env = kit.Env(ctx)
    kit.aliasing_probe(ctx, env.m, "C06")   # before anything else: what follows runs in a process whose program aliases and updates in place
    m, mdl, pools, rng, orc = env.m, env.mdl, env.pools, ctx.rng, env.orc
    CNF = env.conv.ConversionNotFound
    Q = m.Quantity

    def si(q):
        lo, hi, roots = orc.si_value(q.magnitude, q.unit)
        return lo, hi, roots

    def express(value: Fraction, factors):
        """a quantity of SI value `value` written in the unit given by factors"""
        u = mdl.eval_real(pools.factors_term(factors))
        lo, hi, _ = orc.unit_size(u)
        size = (lo + hi) / 2
        mag = core.sf(value / size)
        if rng.random() < 0.25:
            ctx.count("operands_with_decimal_magnitude")
            return Q(Decimal(repr(mag)), u)   # the same reading, handed over as a Decimal
        return Q(mag, u)

    def overlaps(got, want, tol_abs):
        return got[0] - tol_abs <= want[1] and want[0] - tol_abs <= got[1]

    n = ctx.scale(10000, 500_000)
    for i in range(n):
        ctx.count("evaluations")
        fa = pools.random_factors(rng, max_factors=rng.choice([1, 2, 3]), hostile=0.25, physical_only=True)
        try:
            ua = mdl.eval_real(pools.factors_term(fa))
        except Exception:
            continue
        if not orc.knows(ua):
            continue
        a = Q(pools.magnitude(rng, kind=rng.choice(["int", "float", "float", "decimal"]), allow_zero=False), ua)
        alo, ahi, _ = si(a)
        amid = (alo + ahi) / 2
        if not (Fraction(1, 10**120) < abs(amid) < 10**120):
            ctx.count("skipped_out_of_range")
            continue
        additive = rng.random() < 0.6
        if additive:
            delta = rng.choice([Fraction(0), Fraction(1, 1000), Fraction(-1, 1000), Fraction(1, 2), Fraction(-1, 2), Fraction(9), Fraction(-3)])
            fb = pools.same_dimension_alternative(rng, fa, compose_prob=0.2)
            if rng.random() < 0.2:
                # the same quantity in a unit of another STRUCTURE: with a ratio of two units of one dimension in it (a density
                # times cups over litres, pints per gallon), as products and quotients of quantities leave behind.  The
                # library may decline to relate the two spellings; if it answers, the pair's size (0.2366, 0.125) counts
                wide = sorted(d_ for d_, ns in pools.by_dim_moderate.items() if len(ns) >= 2 and any(tuple(d_)) and not any(orc.uses_offset(pools.units[n_]) for n_ in ns))
                if wide:
                    x_, y_ = rng.sample(pools.by_dim_moderate[rng.choice(wide)], 2)
                    fb = list(fb) + [(None, x_, 1), (None, y_, -1)]
                    ctx.count("operands_with_a_ratio_of_two_units_of_one_dimension")
            try:
                b = express(amid * (1 + delta), fb)
            except Exception:
                continue
            ops = [("add", operator.add), ("sub", operator.sub), ("eq", operator.eq), ("lt", operator.lt)]
        else:
            fb = pools.random_factors(rng, max_factors=2, hostile=0.2, physical_only=True)
            try:
                b = Q(pools.magnitude(rng, kind=rng.choice(["int", "float", "float", "decimal"]), allow_zero=False), mdl.eval_real(pools.factors_term(fb)))
            except Exception:
                continue
            ops = [("mul", operator.mul), ("truediv", operator.truediv), ("pow", None)]
        if rng.random() < 0.04:
            b, fb = a, fa   # the very same object on both sides: a + a, a - a, a / a, a == a, a < a
            ctx.count("operand_pairs_that_are_one_object")
        if not orc.knows(b.unit) or not kit.finite(b.magnitude) or b.magnitude == 0:
            continue
        blo, bhi, _ = si(b)
        # re-expressions of each operand (constructed by the oracle, never by in_unit)
        variants_a, variants_b = [(a, fa)], [(b, fb)]
        for _ in range(2):
            try:
                f2 = pools.same_dimension_alternative(rng, fa, compose_prob=0.2)
                variants_a.append((express(amid, f2), f2))
                f3 = pools.same_dimension_alternative(rng, fb, compose_prob=0.2)
                variants_b.append((express((blo + bhi) / 2, f3), f3))
            except Exception:
                pass
        opname, fn = rng.choice(ops)
        power = rng.randint(-3, 3)
        for (xa, fxa) in variants_a:
            for (xb, fxb) in variants_b:
                if not (kit.finite(xa.magnitude) and kit.finite(xb.magnitude)) or xa.magnitude == 0 or xb.magnitude == 0:
                    continue
                if orc.dynamic_range(xa.unit) + orc.dynamic_range(xb.unit) + 80 > 280:
                    ctx.count("skipped_partial_products_may_leave_float_range")
                    continue
                if not (1e-40 < abs(xa.magnitude) < 1e40 and 1e-40 < abs(xb.magnitude) < 1e40):
                    ctx.count("skipped_operand_magnitude_out_of_range")  # float under/overflow is not a unit question
                    continue
                case = {"op": opname, "a": [model.enc_mag(xa.magnitude), pools.factors_term(fxa)], "b": [model.enc_mag(xb.magnitude), pools.factors_term(fxb)], "n": power}
                sa, sb = si(xa), si(xb)
                if opname in ("add", "sub", "eq", "lt") and (sa[2] != sb[2] or not any(mdl.dim_of_unit(xa.unit))):
                    # no chain of declarations relates the two (e.g. a pure number against an angle
                    # unit): the oracle has no opinion; dimensionless compounds are C04's known finding
                    ctx.count("skipped_operands_not_related_by_declarations")
                    continue
                ctx.distinct((opname, pools.shape_class(fxa), pools.shape_class(fxb)), xa.unit is not xb.unit)
                try:
                    if opname == "pow":
                        res = xa**power
                    else:
                        res = fn(xa, xb)
                        res2 = fn(xb, xa) if opname in ("eq", "lt", "add", "mul") else None
                except (CNF, TypeError):
                    ctx.count(f"no_answer/{opname}")
                    continue
                except (OverflowError, ZeroDivisionError):
                    ctx.count("magnitude_arithmetic_error")
                    continue
                except Exception as e:  # an internal error of the planner is C07's business: no answer here
                    ctx.count(f"no_answer_other_exception/{type(e).__name__}")
                    continue
                if isinstance(res, Q) and (not kit.finite(res.magnitude) or not (1e-200 < abs(res.magnitude) < 1e200) and opname != "sub"):
                    ctx.count("skipped_result_out_of_float_range")
                    continue
                ctx.count(f"operations/{opname}")
                degree = orc.degree(xa.unit, xb.unit)
                if opname in ("add", "sub"):
                    if not kit.finite(res.magnitude):
                        continue
                    got = si(res)[:2]
                    want = (sa[0] + sb[0], sa[1] + sb[1]) if opname == "add" else (sa[0] - sb[1], sa[1] - sb[0])
                    scale = max(abs(sa[0]), abs(sa[1]), abs(sb[0]), abs(sb[1]))
                    if not overlaps(got, want, scale * (TOL * degree + R9)):
                        ctx.violation(f"C06:{opname}:si-value-differs", f"{xa!r} {opname} {xb!r} = {res!r}: SI {core.sf(got[0])!r} expected {core.sf(want[0])!r}", case)
                    if opname == "add" and res2 is not None and kit.finite(res2.magnitude):
                        got2 = si(res2)[:2]
                        if not overlaps(got2, want, scale * (TOL * degree + R9)):
                            ctx.violation("C06:add:si-value-differs", f"{xb!r} + {xa!r} = {res2!r}", case)
                elif opname in ("mul", "truediv", "pow"):
                    if not kit.finite(res.magnitude):
                        continue
                    got = si(res)
                    if opname == "mul":
                        cands = [sa[i] * sb[j] for i in (0, 1) for j in (0, 1)]
                    elif opname == "truediv":
                        cands = [sa[i] / sb[j] for i in (0, 1) for j in (0, 1)]
                    else:
                        if power < 0 and (sa[0] == 0 or sa[1] == 0):
                            continue
                        cands = [sa[0] ** power, sa[1] ** power]
                    want = (min(cands), max(cands))
                    scale = max(abs(want[0]), abs(want[1]))
                    if scale and not (Fraction(1, 10**250) < scale < 10**250):
                        continue
                    if got[0] == 0 and got[1] == 0 and res.magnitude != 0 and isinstance(res.unit.prefix.exponent, float):
                        # the oracle's own limit, not the library's: the value of a prefix with a float exponent (mixed bases) is
                        # base ** exponent in float arithmetic, and 2 ** -1154.1 underflows to 0.0 there (thorough seed 17)
                        ctx.count("not_judged_oracle_underflow_of_a_float_exponent_prefix")
                        continue
                    if not overlaps(got[:2], want, scale * R9):
                        ctx.violation(f"C06:{opname}:si-value-differs", f"{xa!r} {opname} {(xb if opname != 'pow' else power)!r} = {res!r}: SI {core.sf(got[0])!r} expected {core.sf(want[0])!r}", case)
                    if opname == "mul" and res2 is not None and kit.finite(res2.magnitude) and not overlaps(si(res2)[:2], want, scale * R9):
                        ctx.violation("C06:mul:si-value-differs", f"{xb!r} * {xa!r} = {res2!r}", case)
                else:
                    # comparisons: truth must follow the SI values away from ties
                    scale = max(abs(sa[0]), abs(sa[1]), abs(sb[0]), abs(sb[1]))
                    band = scale * (TOL * degree + R9)
                    if sa[1] + band < sb[0]:
                        order = -1
                    elif sb[1] + band < sa[0]:
                        order = 1
                    else:
                        ctx.count("ties_skipped")
                        continue
                    ctx.count("comparisons_away_from_ties")
                    if opname == "eq":
                        if res is not False or res2 is not False:
                            ctx.violation("C06:eq:true-for-different-values", f"{xa!r} == {xb!r} is {res!r}/{res2!r}; SI values differ", case)
                    else:
                        want_lt = order < 0
                        if res is not want_lt or res2 is not (not want_lt):
                            ctx.violation("C06:lt:disagrees-with-si-order", f"{xa!r} < {xb!r} is {res!r}, reverse {res2!r}; SI order says {want_lt}", case)
                if i % 700 == 9 and len(ctx.samples) < 8 and xa.unit is not xb.unit:
                    ctx.sample({"op": opname, "a": str(xa), "b": str(xb), "result": str(res)})
        # equality of re-expressions of one value (tie side: must not be *ordered* inconsistently)
    corrected_equivalences(ctx, env)
    asked_with_little_stack(ctx, env)
    ladders_of_declarations(ctx, env)
    ctx.require("operations/add", 100)
    ctx.require("operations/mul", 100)
    ctx.require("comparisons_away_from_ties", 100)
