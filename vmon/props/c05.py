"""C05 — conversion is an invertible linear scaling, independent of the route taken."""
from __future__ import annotations

from decimal import Decimal
from fractions import Fraction

from .. import core, kit, model, oracle, synth

ID = "C05"
LEVEL = "exploration"
RULE = ("triples (a, b, c) of equal-dimension offset-free units from C04's space (products of <= 3 factors, |exp| <= 3, "
        "registered prefixes) x magnitudes (int, float, Decimal; both signs; zero) x scale factors k; relations: "
        "linearity, zero, sign, self-conversion, round trip, via-intermediate; the same relations on synthetic "
        "exactly-consistent systems in fresh processes.  distinct = (relation, shape classes of a, b, c); non-trivial = "
        "a is not b and all legs returned"
        " A section asks the angle-in-compound shapes the library gets right (one angle unit on each side); the aliasing probe runs first.")
ASSUMPTIONS = [
    "relations are evaluated only when every conversion involved succeeds (the statement's own condition)",
    "linearity / self-conversion tolerance 1e-12 relative; round trip and via-intermediate 1e-5 relative per degree on "
    "shipped definitions, widened by the oracle's size interval where shipped declarations disagree; 1e-12 on synthetic",
    "units of dimension Number inside compounds are excluded from the random triples (known finding of C04); one angle unit at exponent +1 on each side is asked in a section of its own",
]
SHARDS = {"quick": 4, "thorough": 14}
R12 = Fraction(1, 10**12)
KS = [-3, 0.5, 7, 1e6, Decimal("0.1")]


def rel_diff(a, b):
    a, b = oracle.F(a), oracle.F(b)
    if a == b:
        return Fraction(0)
    return abs(a - b) / max(abs(a), abs(b))


def angles_in_compounds(ctx, env):
    """One angle unit at exponent +1 on each side, next to physical factors that cancel within a side or convert across the
    sides (rad/s * h -> degree; rad*m/ft -> arcminute; degree*ft -> rad*m; rad*m/s -> degree*ft/min): the shapes with a
    dimensionless unit that this library converts correctly.  (Negative or higher exponents on the dimensionless unit, or
    cancelling surplus of different dimensions on the two sides, are the known finding of C04 and are not asked here.)
    The direct answer, the answer by way of the radian, and there-and-back agree with the sizes of the units"""
    import math
    m, rng = env.m, ctx.rng
    U = m.Unit._by_name
    Q = m.Quantity
    angles = {n: v for n, v in (("radian", 1.0), ("degree", math.pi / 180), ("arcminute", math.pi / 10800), ("arcsecond", math.pi / 648000)) if n in U}
    lens = {n: v for n, v in (("meter", 1.0), ("foot", 0.3048), ("inch", 0.0254), ("mile", 1609.344)) if n in U}
    times = {n: v for n, v in (("second", 1.0), ("minute", 60.0), ("hour", 3600.0)) if n in U}
    energy = {n: v for n, v in (("joule", 1.0), ("watt", None)) if n in U}
    if len(angles) < 2 or len(lens) < 2 or len(times) < 2:
        ctx.count("angles_in_compounds_skipped")
        return
    for _ in range(ctx.scale(150, 20000)):
        a1, a2 = rng.sample(sorted(angles), 2)
        l1, l2, l3, l4 = (rng.choice(sorted(lens)) for _ in range(4))
        t1, t2 = rng.choice(sorted(times)), rng.choice(sorted(times))
        kind = rng.choice(["angle*len/len -> angle", "angle/time*time -> angle", "angle*len -> angle*len", "angle/time -> angle/time", "angle*len/len -> angle*len/len",
                           "angle -> angle*len/len", "angle*len/time -> angle*len/time", "angle*W*h -> angle*J"])
        if kind == "angle*len/len -> angle":
            src, sv, dst, dv = U[a1] * U[l1] / U[l2], angles[a1] * lens[l1] / lens[l2], U[a2], angles[a2]
        elif kind == "angle/time*time -> angle":
            src, sv, dst, dv = U[a1] / U[t1] * U[t2], angles[a1] / times[t1] * times[t2], U[a2], angles[a2]
        elif kind == "angle*len -> angle*len":
            src, sv, dst, dv = U[a1] * U[l1], angles[a1] * lens[l1], U[a2] * U[l2], angles[a2] * lens[l2]
        elif kind == "angle/time -> angle/time":
            src, sv, dst, dv = U[a1] / U[t1], angles[a1] / times[t1], U[a2] / U[t2], angles[a2] / times[t2]
        elif kind == "angle*len/len -> angle*len/len":
            src, sv, dst, dv = U[a1] * U[l1] / U[l2], angles[a1] * lens[l1] / lens[l2], U[a2] * U[l3] / U[l4], angles[a2] * lens[l3] / lens[l4]
        elif kind == "angle -> angle*len/len":
            src, sv, dst, dv = U[a1], angles[a1], U[a2] * U[l3] / U[l4], angles[a2] * lens[l3] / lens[l4]
        elif kind == "angle*len/time -> angle*len/time":
            src, sv, dst, dv = U[a1] * U[l1] / U[t1], angles[a1] * lens[l1] / times[t1], U[a2] * U[l2] / U[t2], angles[a2] * lens[l2] / times[t2]
        else:
            if "watt" not in U or "joule" not in U:
                continue
            src, sv, dst, dv = U[a1] * U["watt"] * U[t1], angles[a1] * times[t1], U[a2] * U["joule"], angles[a2]
        mag = rng.choice([2.0, 6, -3.5, 1000.0, Decimal("2.5")])
        want = float(mag) * sv / dv
        case = {"shape": kind, "source": str(src), "target": str(dst), "magnitude": repr(mag)}
        ctx.count("evaluations")
        ctx.count(f"angles_in_compounds/{kind}")
        ctx.distinct(("angle-in-compound", kind, a1, a2), True)
        try:
            direct = Q(mag, src).in_unit(dst)
            via = Q(mag, src).in_unit(U["radian"] * (src / U[a1])).in_unit(dst) if a1 != "radian" else None
            back = direct.in_unit(src)
        except env.conv.ConversionNotFound:
            ctx.count("angles_in_compounds/refused")
            continue
        except Exception as e:
            ctx.violation(f"C05:raised:{type(e).__name__}", f"{mag} {src} -> {dst}: {e}", case)
            continue
        if abs(float(direct.magnitude) - want) > 1e-9 * abs(want):
            ctx.violation("C05:route-dependent", f"{mag} {src} -> {dst} = {direct.magnitude!r}; the sizes of the units give {want!r} (an angle unit stands once on each side)", case)
        if via is not None and abs(float(via.magnitude) - float(direct.magnitude)) > 1e-9 * abs(want):
            ctx.violation("C05:route-dependent", f"{mag} {src} -> {dst} = {direct.magnitude!r} directly, {via.magnitude!r} by way of the radian", case)
        if abs(float(back.magnitude) - float(mag)) > 1e-9 * abs(float(mag)):
            ctx.violation("C05:round-trip", f"{mag} {src} -> {dst} -> back = {back.magnitude!r}", case)


def own_unit_questions(ctx, env):
    """A quantity converts to its own unit, is added to and subtracted from itself - whatever its unit looks like: a prefixed
    product of two of the program's units of one dimension that nothing connects (built after the unprefixed product was
    interned in the other order), a prefixed unit on which an equivalence into another dimension is declared (a lap is 90
    seconds).  Nothing has to be converted for these; they cannot legitimately fail"""
    m, rng = env.m, ctx.rng
    Q, P = m.Quantity, env.pools.prefixes
    for k in range(8 if ctx.tier == "quick" else 400):
        tag = f"zqc05own{ctx.shard}x{k}"
        dim = rng.choice([m.Length, m.Mass, m.Time])
        foo, bar = m.Unit.define(dim, tag + "foo", tag + "foo"), m.Unit.define(dim, tag + "bar", tag + "bar")
        p = P[rng.choice(["kilo", "milli", "mega", "kibi"])]
        if rng.random() < 0.6:
            bar * foo                                   # the unprefixed product exists first, factors in the other order
        shapes = [("prefixed product of two unconnected units", (p * foo) * bar), ("its square", ((p * foo) * bar) ** 2), ("a quotient", (p * foo) / bar)]
        if rng.random() < 0.5:
            other = {m.Length: "second", m.Mass: "joule", m.Time: "meter"}[dim]
            if other in m.Unit._by_name:
                foo.equals(90 * m.Unit._by_name[other])          # an equivalence into another dimension, legal
                shapes += [("a prefixed unit with an equivalence into another dimension", p * foo), ("the unit itself", foo)]
        for label, u in shapes:
            x = rng.choice([2, 3.5, Decimal("1.25")])
            q = Q(x, u)
            ctx.count("evaluations")
            ctx.count("own_unit_questions")
            ctx.distinct(("own-unit", label), True)
            case = {"unit": str(u), "shape": label}
            for what, ask, want in (("in_unit(its own unit)", lambda: q.in_unit(u).magnitude, x), ("q + q", lambda: (q + q).magnitude, x + x), ("q - q", lambda: (q - q).magnitude, x - x),
                                    ("q == q", lambda: q == Q(x, u), True), ("q < 2q", lambda: q < Q(x + x, u), True)):
                try:
                    got = ask()
                except Exception as e:
                    ctx.violation("C05:self-conversion-changes-magnitude", f"{what} for {x} {u} ({label}) raised {type(e).__name__}: {e}", case)
                    continue
                close_enough = got is want if isinstance(want, bool) else abs(oracle.F(got) - oracle.F(want)) <= R12 * max(abs(oracle.F(x)), 1)
                if not close_enough:
                    ctx.violation("C05:self-conversion-changes-magnitude", f"{what} for {x} {u} ({label}) gives {got!r}, not {want!r}", case)


def run(ctx):
    # odd shards import the unit modules in a shuffled order: the order of neighbours in the ratio
    # table follows declaration order and steers the depth-first path search (route choice)
    order = None
    if ctx.shard % 2 == 1:
        from .. import boot as B
        order = list(B.ALL_MODULES)
        ctx.rng.shuffle(order)
        ctx.count("shards_with_shuffled_import_order")
    env = kit.Env(ctx, order=order)
    kit.aliasing_probe(ctx, env.m, "C05")   # before anything else: what follows runs in a process whose program aliases and updates in place
    m, mdl, pools, rng, orc = env.m, env.mdl, env.pools, ctx.rng, env.orc
    CNF = env.conv.ConversionNotFound
    angles_in_compounds(ctx, env)
    n = ctx.scale(8000, 300_000)
    for i in range(n):
        ctx.count("evaluations")
        fa = pools.random_factors(rng, hostile=rng.choice([0.0, 0.4]), physical_only=True)
        fb = pools.same_dimension_alternative(rng, fa, compose_prob=rng.choice([0.0, 0.4]))
        fc = pools.same_dimension_alternative(rng, fa, compose_prob=rng.choice([0.0, 0.4]))
        try:
            a, b, c = (mdl.eval_real(pools.factors_term(f)) for f in (fa, fb, fc))
        except Exception:
            ctx.count("build_failed")
            continue
        mag = pools.magnitude(rng)
        import math
        if not all(orc.knows(u) for u in (a, b, c)) or max(orc.dynamic_range(u) for u in (a, b, c)) * 2 + abs(math.log10(abs(float(mag)) or 1)) + 6 > 280:
            ctx.count("skipped_partial_products_may_leave_float_range")  # denormal intermediates lose bits: not a linearity question
            continue
        shapes = (pools.shape_class(fa), pools.shape_class(fb), pools.shape_class(fc))
        case = {"a": pools.factors_term(fa), "b": pools.factors_term(fb), "c": pools.factors_term(fc), "mag": model.enc_mag(mag)}
        degree = orc.degree(a, b)

        def conv(q, u):
            try:
                r = q.in_unit(u)
            except CNF:
                ctx.count("legs_not_found")
                return None
            except ArithmeticError:
                ctx.count("legs_magnitude_arithmetic_error")  # float overflow on extreme prefixes, not a linearity question
                return None
            except Exception as e:  # an internal error of the planner is C07's business; the relation has no answer
                ctx.count(f"legs_other_exception/{type(e).__name__}")
                return None
            if r.unit is not u:
                ctx.violation("C05:wrong-unit", f"{q!r}.in_unit({u}) has unit {r.unit}", case)
                return None
            if not kit.finite(r.magnitude):
                return None
            if q.magnitude != 0 and not (1e-200 < abs(r.magnitude) < 1e200):
                ctx.count("legs_out_of_float_range")  # intermediate under/overflow is not a linearity question
                return None
            return r

        q = mag * a
        ab = conv(q, b)
        # self conversion
        aa = conv(q, a)
        if aa is not None:
            ctx.count("relations/self_conversion")
            # an integer beyond 2**53 is not representable once the plan multiplies by its float ratio 1.0
            exact = a.prefix.base == 0 and not (isinstance(mag, int) and abs(mag) > 2**53)
            if (exact and aa.magnitude != mag) or rel_diff(aa.magnitude, mag) > R12:
                ctx.violation("C05:self-conversion-changes-magnitude", f"({mag!r} {a}).in_unit(same) = {aa.magnitude!r}", case)
        # zero and sign
        z = conv(0 * a, b)
        if z is not None:
            ctx.count("relations/zero")
            if z.magnitude != 0:
                ctx.violation("C05:zero-not-preserved", f"0 {a} -> {b} = {z.magnitude!r}", case)
        if ab is None:
            continue
        if mag != 0:
            ctx.count("relations/sign")
            if (ab.magnitude > 0) != (mag > 0) and ab.magnitude != 0:
                ctx.violation("C05:sign-flipped", f"{mag!r} {a} -> {b} = {ab.magnitude!r}", case)
        # linearity
        k = rng.choice(KS)
        try:
            kq = k * q
            kab = conv(kq, b)
        except Exception:
            kab = None
        if kab is not None and kit.finite(kq.magnitude):
            ctx.count("relations/linearity")
            try:
                expect = oracle.F(k) * oracle.F(ab.magnitude)
                d = rel_diff(kab.magnitude, expect)
            except Exception:
                d = 0
            ctx.maxi("linearity_rel_diff", core.sf(d))
            ctx.distinct(("linear", shapes[0], shapes[1], type(k).__name__), a is not b)
            if d > R12 * 100 and abs(expect) > Fraction(1, 10**280):
                ctx.violation("C05:not-linear", f"conv({k!r}*{mag!r} {a} -> {b}) = {kab.magnitude!r} but k*conv = {core.sf(expect)!r}", {**case, "k": repr(k)})
        # round trip a -> b -> a
        width = 1
        r = orc.ratio(a, b)
        if r is not None and r[0] > 0:
            width = r[1] / r[0]
        tol = Fraction(1, 100000) * degree * 2 + (width - 1) * 2
        back = conv(ab, a)
        if back is not None and mag != 0:
            ctx.count("relations/round_trip")
            d = rel_diff(back.magnitude, mag)
            ctx.maxi("round_trip_rel_diff", core.sf(d))
            ctx.distinct(("round", shapes[0], shapes[1]), a is not b)
            if d > tol:
                ctx.violation("C05:round-trip", f"{mag!r} {a} -> {b} -> back = {back.magnitude!r} (rel diff {core.sf(d):.3g}, tol {core.sf(tol):.3g})", case)
        # via intermediate a -> c -> b
        ac = conv(q, c)
        if ac is not None:
            acb = conv(ac, b)
            if acb is not None and mag != 0:
                ctx.count("relations/via_intermediate")
                r2 = orc.ratio(a, c)
                w2 = (r2[1] / r2[0]) if r2 and r2[0] > 0 else 1
                tol2 = Fraction(1, 100000) * (degree + orc.degree(c)) * 2 + (width - 1) * 2 + (w2 - 1) * 2
                d = rel_diff(acb.magnitude, ab.magnitude)
                ctx.maxi("via_intermediate_rel_diff", core.sf(d))
                ctx.distinct(("via", shapes), a is not b and b is not c)
                if d > tol2:
                    ctx.violation("C05:route-dependent", f"{mag!r} {a} -> {c} -> {b} = {acb.magnitude!r} but direct = {ab.magnitude!r} (rel diff {core.sf(d):.3g})", case)
                if i % 400 == 5:
                    ctx.sample({"a": str(a), "c": str(c), "b": str(b), "mag": repr(mag), "direct": repr(ab.magnitude), "via_c": repr(acb.magnitude)})
    own_unit_questions(ctx, env)      # last in this process: it declares equivalences across dimensions, which steer later searches
    synthetic(ctx)
    # the same questions asked by two threads at once (deterministic line scheduler, units of the scenario's own with exact
    # ratios, the temperature scales, levels): what this property says about an answer holds for every thread's answer
    if ctx.shard == 0:
        from .. import concurrent_conv
        _mon = locals().get("mon")
        if _mon is not None:
            _mon.paused = True
        try:
            concurrent_conv.section(ctx, env, trials=(120 if ctx.tier == "quick" else 1500), key="C05")
        finally:
            if _mon is not None:
                _mon.paused = False
    ctx.require("relations/round_trip", 50)
    ctx.require("relations/linearity", 50)
    ctx.require("relations/via_intermediate", 20)


def synthetic(ctx):
    rng = ctx.rng
    nsys = ctx.scale(96, 3200)
    specs, metas = [], []
    for s in range(nsys):
        sysm = synth.System(rng, tag=f"c05s{ctx.shard}x{s}")
        ops = sysm.define_ops() + [sysm.declare_op(e) for e in sysm.edges]
        meta = []
        for _ in range(25):
            a = sysm.random_factors(rng)
            b, c = sysm.alternative(rng, a), sysm.alternative(rng, a)
            if not b or not c:
                continue
            mag = synth.small_mag(rng)
            k = rng.choice([-3, 8, 0.5])
            ta, tb, tc = sysm.term(a), sysm.term(b), sysm.term(c)
            kmag = model.enc_mag(model.dec_mag(mag) * (Decimal(str(k)) if mag[0] == "d" else k))
            base = len(ops)
            ops += [["convert", mag, ta, tb], ["convert", kmag, ta, tb], ["convert", ["i", 0], ta, tb], ["convert", mag, ta, ta],
                    ["chain", mag, [ta, tb, ta]], ["chain", mag, [ta, tc, tb]]]
            meta.append((base, mag, k, a, b, c))
        specs.append({"modules": [], "ops": ops})
        metas.append((sysm, meta))
    logs = synth.run_specs(specs, jobs=max(2, 16 // max(1, ctx.nshards)))
    for (sysm, meta), log in zip(metas, logs):
        ctx.count("synthetic/systems")
        if "inconclusive" in log or log.get("fatal"):
            ctx.not_reached(f"synthetic worker: {log.get('inconclusive') or log.get('fatal')}")
            continue
        res = log["results"]
        for base, mag, k, a, b, c in meta:
            r = res[base:base + 6]
            case = {"system": {n: [d, str(s)] for n, (d, s) in sysm.units.items()}, "declarations": [[x, str(kk), rhs] for x, kk, rhs in sysm.edges],
                    "a": a, "b": b, "c": c, "mag": mag, "k": k, "results": r}
            m0 = Fraction(model.dec_mag(mag))
            if "ok" in r[0] and "ok" in r[1]:
                ctx.count("synthetic/linearity")
                x, kx = Fraction(model.dec_mag(r[0]["ok"]["mag"])), Fraction(model.dec_mag(r[1]["ok"]["mag"]))
                if rel_diff(kx, Fraction(k) * x) > R12:
                    ctx.violation("C05:not-linear:synthetic", f"synthetic: conv(k*q)={core.sf(kx)!r}, k*conv(q)={core.sf(Fraction(k) * x)!r}", case)
            if "ok" in r[2]:
                ctx.count("synthetic/zero")
                if model.dec_mag(r[2]["ok"]["mag"]) != 0:
                    ctx.violation("C05:zero-not-preserved:synthetic", f"synthetic: 0 -> {r[2]['ok']}", case)
            if "ok" in r[3]:
                ctx.count("synthetic/self")
                if Fraction(model.dec_mag(r[3]["ok"]["mag"])) != m0:
                    ctx.violation("C05:self-conversion-changes-magnitude:synthetic", f"synthetic: {mag} -> {r[3]['ok']}", case)
            if "ok" in r[4]:
                ctx.count("synthetic/round_trip")
                back = Fraction(model.dec_mag(r[4]["ok"][-1]))
                ctx.distinct(("synthetic-round", tuple(sorted(e for _, e in a)), tuple(sorted(e for _, e in b))))
                if rel_diff(back, m0) > R12:
                    ctx.violation("C05:round-trip:synthetic", f"synthetic: {mag} -> ... -> {core.sf(back)!r}", case)
            if "ok" in r[5] and "ok" in r[0]:
                ctx.count("synthetic/via_intermediate")
                via = Fraction(model.dec_mag(r[5]["ok"][-1]))
                direct = Fraction(model.dec_mag(r[0]["ok"]["mag"]))
                if rel_diff(via, direct) > R12:
                    ctx.violation("C05:route-dependent:synthetic", f"synthetic: via {core.sf(via)!r} direct {core.sf(direct)!r}", case)
