"""C08 — conversion results depend only on declared equivalences, not on query history."""
from __future__ import annotations

from fractions import Fraction

from .. import core, model, synth

ID = "C08"
LEVEL = "exploration"
RULE = ("each case is a pair of fresh interpreters: P1 runs a random interleaving of unit definitions, equivalence "
        "declarations (simple, compound, re-declared with another value, bridging shipped units; every fourth history "
        "over scales with a zero point - shipped and declared at run time - and compound units carrying them) and conversion / "
        "== / < queries - with queries deliberately placed *before* the declarations that enable or change them - and "
        "finally re-asks a fixed list of queries; P2 runs only the declarations (same order) and then the same final "
        "queries.  Final outcomes must be identical (same magnitude bits or same exception type); in P1 every repeated "
        "query must repeat its answer unless a declaration came in between, and answers must survive emptying the "
        "library's memo tables.  distinct = (units, declaration shapes, positions of queries relative to declarations); "
        "non-trivial = at least one final query was also asked before a declaration that changes its answer"
        " Every fourth history is over scales with a zero point and compound units around them, every fourth over power-defined user units against shipped named units (questions in both directions); odd declarations (across dimensions, overflowing ratios) and switches of the ambient decimal precision occur in between; finally pairs of questions, corrections and level() calls are run by two threads under the deterministic scheduler (random schedules, and every line of equate/_forget_plans/convert for one preemption) against exact expected answers."
        " Every eighth history is a ring of equivalences that does not close exactly (two routes, measurably different numbers), and questions are also asked with little stack to spare right after the last declaration."
        " Level questions, Decimal units of derived dimensions under coarse contexts, and histories in which an anonymous product gets a name between two askings are part of the mix.")
ASSUMPTIONS = [
    "the baseline is a fresh interpreter that never asked anything before the final queries, so no knowledge of which "
    "caches exist is needed for the deciding comparison",
    "a worker that times out or dies makes that history inconclusive, never a violation",
]


def gen_history(rng, tag, shipped):
    sysm = synth.System(rng, tag=tag, compound=True)
    names = list(sysm.units)
    defs = sysm.define_ops()
    decls = [sysm.declare_op(e) for e in sysm.edges]
    # re-declarations with a different value (the last one wins) and bridges to shipped units
    extra = []
    if rng.random() < 0.6 and sysm.edges:
        # re-declare, with another value, an equivalence whose unit occurs in no other declaration:
        # the declarations stay mutually consistent, only the size of that one unit changes
        mentions = {}
        for a, k, rhs in sysm.edges:
            for n in [a] + [b for b, _ in rhs]:
                mentions[n] = mentions.get(n, 0) + 1
        leaves = [(a, k, rhs) for a, k, rhs in sysm.edges if len(rhs) == 1 and rhs[0][1] == 1 and (mentions[a] == 1 or mentions[rhs[0][0]] == 1)]
        if leaves:
            a, k, rhs = rng.choice(leaves)
            extra.append(["declare", ["u", a], synth.enc_fraction(k * rng.choice([2, 4, 8])), sysm.rhs_term(rhs)])
    if shipped:
        for d, target in (("length", "meter"), ("time", "second"), ("mass", "gram")):
            if d in sysm.by_dim and rng.random() < 0.7:
                a = rng.choice(sysm.by_dim[d])
                extra.append(["declare", ["u", a], ["i", rng.choice([1, 2, 4, 8])], ["u", target]])
    # now and then the user also states something odd: an equivalence across dimensions (a mass taken for an energy),
    # or a ratio so large that its square leaves the float range.  Searches that run into these are abandoned by an
    # exception; the questions about everything else must go on being answered as in a fresh process
    odd_defs, odd_queries = [], []
    if rng.random() < 0.4:
        o = [f"zq{tag}odd{k}" for k in range(6)]
        odd_defs = [["define", o[0], o[0], ["dimname", "mass"]], ["define", o[1], o[1], ["dimname", "energy"]], ["define", o[2], o[2], ["dimname", "mass"]],
                    ["define", o[3], o[3], ["dimname", "energy"]], ["define", o[4], o[4], ["dimname", "length"]], ["define", o[5], o[5], ["dimname", "length"]]]
        extra.append(["declare", ["u", o[0]], ["i", 4], ["u", o[1]]])            # mass = energy
        extra.append(["declare", ["u", o[2]], ["i", 2], ["u", o[0]]])
        extra.append(["declare", ["u", o[3]], ["i", 8], ["u", o[1]]])
        extra.append(["declare", ["u", o[4]], ["f", (1e200).hex()], ["u", o[5]]])  # a ratio whose square overflows
        odd_queries = [["convert", ["i", 1], ["u", o[2]], ["u", o[3]]], ["convert", ["i", 1], ["u", o[3]], ["u", o[2]]], ["eq", ["i", 1], ["u", o[2]], ["i", 4], ["u", o[1]]],
                       ["convert", ["i", 2], ["pow", ["u", o[4]], 2], ["pow", ["u", o[5]], 2]], ["convert", ["i", 2], ["pow", ["u", o[5]], 3], ["pow", ["u", o[4]], 3]],
                       ["lt", ["i", 1], ["mul", ["u", o[2]], ["u", o[4]]], ["i", 1], ["mul", ["u", o[3]], ["u", o[5]]]]]
    defs = defs + odd_defs
    # two units declared in terms of one another (and one of them against shipped units): questions about either one inside
    # compounds - some of which are legitimately refused - must not change what is answered about the other
    mutual_queries = []
    if shipped and rng.random() < 0.8:
        sn, pz = f"zq{tag}sn", f"zq{tag}pz"
        newton_t = ["mul", ["u", "kilogram"], ["div", ["u", "meter"], ["pow", ["u", "second"], 2]]]
        defs = defs + [["define", sn, sn, ["dimname", "force"]], ["define", pz, pz, ["dimname", "pressure"]]]
        extra.append(["declare", ["u", sn], ["i", 1000], newton_t])
        extra.append(["declare", ["u", pz], ["i", 1], ["div", ["u", sn], ["pow", ["u", "meter"], 2]]])
        extra.append(["declare", ["u", sn], ["i", 1], ["mul", ["u", pz], ["pow", ["u", "meter"], 2]]])
        mutual_queries = [["convert", ["i", 2], ["mul", ["u", sn], ["u", "second"]], ["mul", ["u", "kilogram"], ["div", ["u", "meter"], ["u", "second"]]]],
                          ["convert", ["i", 3], ["mul", ["u", pz], ["u", "second"]], ["div", ["u", "kilogram"], ["mul", ["u", "meter"], ["u", "second"]]]],
                          ["convert", ["i", 5], ["u", sn], newton_t], ["convert", ["i", 5], ["u", pz], ["div", newton_t, ["pow", ["u", "meter"], 2]]],
                          ["eq", ["i", 1], ["u", sn], ["i", 1], ["mul", ["u", pz], ["pow", ["u", "meter"], 2]]]]
    # ratios stated as Decimals, asked with Decimal magnitudes while the program changes the ambient decimal precision in
    # between (a report printed with 5 digits, then the exact computation): what was asked under a coarse context must not
    # be what is answered later under the ordinary one
    dec_queries = []
    if rng.random() < 0.35:
        dn = [f"zq{tag}dec{k}" for k in range(3)]
        defs = defs + [["define", x, x, ["dimname", "length"]] for x in dn]
        extra.append(["declare", ["u", dn[0]], ["d", "1.2345678901234"], ["u", dn[1]]])
        extra.append(["declare", ["u", dn[1]], ["d", "3"], ["u", dn[2]]])
        # ... and a unit of a derived dimension (an energy) stated as a Decimal number of joules, asked inside compound units:
        # the planner spells it out, and the spelled-out plan is what must not remember the coarse context
        de = f"zq{tag}dece"
        defs = defs + [["define", de, de, ["dimname", "energy"]]]
        extra.append(["declare", ["u", de], ["d", "1.234567890123456789012345"], ["mul", ["u", "kilogram"], ["div", ["pow", ["u", "meter"], 2], ["pow", ["u", "second"], 2]]]])
        watt_t = ["mul", ["u", "kilogram"], ["div", ["pow", ["u", "meter"], 2], ["pow", ["u", "second"], 3]]]
        dec_queries.append(["convert", ["d", "1"], ["div", ["u", de], ["u", "second"]], watt_t])
        dec_queries.append(["convert", ["d", "1"], watt_t, ["div", ["u", de], ["u", "second"]]])
        dec_queries.append(["convert", ["d", "2.5"], ["mul", ["u", de], ["u", "meter"]], ["mul", ["mul", ["u", "kilogram"], ["div", ["pow", ["u", "meter"], 2], ["pow", ["u", "second"], 2]]], ["u", "meter"]]])
        for a_, b_ in ((dn[0], dn[2]), (dn[2], dn[0]), (dn[0], dn[1])):
            dec_queries.append(["convert", ["d", "1"], ["u", a_], ["u", b_]])
            dec_queries.append(["convert", ["d", "2.5"], ["pow", ["u", a_], 2], ["pow", ["u", b_], 2]])
            dec_queries.append(["convert", ["d", "6"], ["div", ["u", "one"], ["u", a_]], ["div", ["u", "one"], ["u", b_]]])
    rng.shuffle(decls)
    # the re-declaration must come *after* the original to change the answer; bridges anywhere
    decls = decls + extra if rng.random() < 0.5 else decls[: len(decls) // 2] + extra + decls[len(decls) // 2:]

    def rand_query():
        if rng.random() < 0.45:
            # a plain path query between two single units of one dimension
            d = rng.choice([d for d, ns in sysm.by_dim.items() if len(ns) >= 2])
            x, w = rng.sample(sysm.by_dim[d], 2)
            e = rng.choice([1, 1, 1, 2, -1])
            src, dst = [(x, e)], [(w, e)]
        else:
            src = sysm.random_factors(rng, max_factors=2, max_exp=2)
            dst = sysm.alternative(rng, src) or src
        if shipped and rng.random() < 0.3:
            d = sysm.units[src[0][0]][0]
            tgt = {"length": "foot", "time": "minute", "mass": "pound"}.get(d)
            if tgt and len(src) == 1:
                return ["convert", synth.small_mag(rng), sysm.term(src), ["u", tgt] if src[0][1] == 1 else ["pow", ["u", tgt], src[0][1]]]
        kind = rng.choice(["convert", "convert", "convert", "eq", "lt", "level"])
        if kind == "convert":
            return ["convert", synth.small_mag(rng), sysm.term(src), sysm.term(dst)]
        if kind == "level":
            # how many decibels above 1 <dst> is this much <src>: a conversion like any other, with a logarithm after it
            return ["level", ["i", 1], sysm.term(dst), ["i", rng.choice([1, 2, 5, 10, 40])], sysm.term(src)]
        return [kind, synth.small_mag(rng), sysm.term(src), synth.small_mag(rng), sysm.term(dst)]

    def reverse(q):
        """the same question asked the other way round (b -> a, b == a, b < a)"""
        if q[0] == "convert":
            return ["convert", q[1], q[3], q[2]]
        if q[0] == "level":
            return ["level", q[1], q[4], q[3], q[2]]
        return [q[0], q[3], q[4], q[1], q[2]]

    finals = [rand_query() for _ in range(rng.randint(6, 12))]
    finals += [reverse(q) for q in finals if rng.random() < 0.4]   # a search that fails one way may succeed the other way
    # a pair of units that have nothing to do with the rest: asked about while neither has any equivalence, connected by the
    # LAST declaration of the history (nothing is declared afterwards that would empty a memo table by the way)
    lone = None
    if rng.random() < 0.6:
        lx, ly = f"zq{tag}lx", f"zq{tag}ly"
        defs = defs + [["define", lx, lx, ["dimname", "length"]], ["define", ly, ly, ["dimname", "length"]]]
        lone = [["convert", ["i", 3], ["u", lx], ["u", ly]], ["convert", ["i", 8], ["u", ly], ["u", lx]], ["eq", ["i", 1], ["u", lx], ["i", 4], ["u", ly]],
                ["lt", ["i", 1], ["u", lx], ["i", 5], ["u", ly]]]
        decls = decls + [["declare", ["u", lx], ["i", 4], ["u", ly]]]
        finals += lone
    # the pair that the very first declaration is going to connect (neither unit has any equivalence until then) is asked
    # about before anything is declared - in one direction or both - and again at the end
    first_pair = None
    d0 = decls[0] if decls else None
    if d0 is not None and d0[0] == "declare" and d0[1][0] == "u" and d0[3][0] == "u":
        first_pair = [["convert", ["i", 3], d0[1], d0[3]], ["convert", ["i", 3], d0[3], d0[1]], ["eq", ["i", 1], d0[1], ["i", 1], d0[3]]]
        finals += first_pair
    if mutual_queries:
        finals += rng.sample(mutual_queries, len(mutual_queries))
        odd_queries = odd_queries + mutual_queries      # ... and they are asked in between, in another order, too
    ops1 = list(defs)
    if rng.random() < 0.5:
        ops1 += finals  # every final query is first asked before anything has been declared
    elif first_pair:
        ops1 += rng.sample(first_pair, rng.randint(1, 3))
    if lone:
        ops1 += rng.sample(lone, rng.randint(1, 3))
    for d in decls:
        for _ in range(rng.randint(0, 4)):
            q = rng.choice(finals) if rng.random() < 0.7 else rand_query()
            if rng.random() < 0.3:
                q = reverse(q)
            if odd_queries and rng.random() < 0.3:
                ops1.append(rng.choice(odd_queries))   # abandoned by an exception, or not: it only has to leave no trace
            ops1.append(q)
        ops1.append(["cache_info"])
        ops1.append(d)
    # after the last declaration nothing empties the memo tables any more: questions asked now (the finals the other
    # way round, other pairs) are the history the final answers must not depend on
    for _ in range(rng.randint(0, 6)):
        if odd_queries and rng.random() < 0.5:
            ops1.append(rng.choice(odd_queries))
        ops1.append(reverse(rng.choice(finals)) if rng.random() < 0.7 else rand_query())
    trailing_from = max((i for i, op in enumerate(ops1) if op[0] in ("declare", "scale")), default=len(ops1) - 1) + 1
    if rng.random() < 0.5:
        # the program asks from deep inside its own recursion, with a few dozen interpreter frames to spare: the search
        # may die of RecursionError at any depth.  An answer that does come back must be the right one, and a search
        # that died must leave nothing behind for the ordinary askings that follow
        for _ in range(rng.randint(1, 5)):
            q = rng.choice(finals)
            ops1.insert(rng.choice([len(ops1), trailing_from]),   # ... or first thing after the last declaration, before anything is memoised again
                        ["little_stack", rng.choice([4, 8, 12, 16, 20, 24, 28, 32, 40, 50, 64]), reverse(q) if rng.random() < 0.3 else q])
    if odd_queries:
        ops1.append(rng.choice(odd_queries))   # the first final question is the first search after an abandoned one
    if dec_queries:
        finals = finals + dec_queries
        ops1.append(["decimal_prec", rng.choice([5, 7, 9])])
        ops1 += rng.sample(dec_queries, rng.randint(3, len(dec_queries)))    # first asked under the coarse context
        ops1.append(["decimal_prec", 28])
    final_start = len(ops1)
    ops1 += finals
    ops1 += [["cache_info"], ["flush"]]
    after_flush = len(ops1)
    ops1 += finals
    ops2 = list(defs) + list(decls)
    base_start = len(ops2)
    ops2 += finals
    mods = ["si", "us"] if shipped else []
    return ({"modules": mods, "ops": ops1}, {"modules": mods, "ops": ops2}, finals, final_start, after_flush, base_start, len(defs), len(decls))


def gen_scale_history(rng, tag):
    """the same experiment over units with a zero point: the shipped temperature scales, scales declared at run
    time, and compound units that carry a scale at an exponent other than 1 (J/K, W/(m*K), 1/degC, K**2); the
    final queries are the plain scale conversions and comparisons, the queries in between are mostly the
    compound ones (whose own values are nobody's business here: only whether asking them changes a later answer)"""
    T = ["dimname", "temperature"]
    shipped = ["kelvin", "celsius", "fahrenheit", "Rankine"]
    mine = [f"zq{tag}deg{k}" for k in range(rng.randint(1, 2))]
    decls = []
    for k, n in enumerate(mine):
        zero_unit = rng.choice(shipped[:1] + ["Rankine"])
        decls.append(["scale", n, n, T, ["f", float(rng.choice([100, 255.375, 32, 491.67])).hex()], ["u", zero_unit]])
    step = f"zq{tag}step"
    defs = [["define", step, step, T]]
    decls.append(["declare", ["u", step], ["f", (2.5).hex()], ["u", "kelvin"]])
    rng.shuffle(decls)
    scales = shipped + mine + [step]

    def scale_term(n):
        t = ["u", n]
        if rng.random() < 0.25:
            t = ["pfx", rng.choice(["milli", "kilo", "micro"]), t]
        return t

    def plain_query():
        a, b = rng.sample(scales, 2)
        kind = rng.choice(["convert", "convert", "convert", "eq", "lt"])
        mag = rng.choice([["i", 0], ["i", 100], ["f", (273.15).hex()], ["f", (-40.0).hex()], ["i", 300], ["d", "25.5"], ["f", (491.67).hex()], small_mag(rng)])
        if kind == "convert":
            return ["convert", mag, scale_term(a), scale_term(b)]
        return [kind, mag, scale_term(a), small_mag(rng), scale_term(b)]

    def compound_query():
        a, b = rng.sample(scales, 2)
        e = rng.choice([-1, -1, -2, 2, 3])
        carrier = rng.choice([None, ["u", "joule"], ["mul", ["u", "watt"], ["pow", ["u", "meter"], -1]], ["u", "second"]])

        def wrap(n):
            t = ["pow", ["u", n], e]
            return t if carrier is None else ["mul", carrier, t]
        kind = rng.choice(["convert", "convert", "eq", "lt"])
        if kind == "convert":
            return ["convert", small_mag(rng), wrap(a), wrap(b)]
        return [kind, small_mag(rng), wrap(a), small_mag(rng), wrap(b)]

    finals = [plain_query() for _ in range(rng.randint(8, 14))] + [compound_query() for _ in range(2)]
    ops1 = list(defs)
    if rng.random() < 0.5:
        ops1 += finals
    for d in decls:
        for _ in range(rng.randint(1, 5)):
            ops1.append(compound_query() if rng.random() < 0.6 else rng.choice(finals))
        ops1.append(["cache_info"])
        ops1.append(d)
    for _ in range(rng.randint(2, 6)):
        ops1.append(compound_query() if rng.random() < 0.8 else plain_query())
    final_start = len(ops1)
    ops1 += finals
    ops1 += [["cache_info"], ["flush"]]
    after_flush = len(ops1)
    ops1 += finals
    ops2 = list(defs) + list(decls)
    base_start = len(ops2)
    ops2 += finals
    mods = ["si", "us"]
    return ({"modules": mods, "ops": ops1}, {"modules": mods, "ops": ops2}, finals, final_start, after_flush, base_start, len(defs), len(decls))


small_mag = synth.small_mag


def gen_power_history(rng, tag):
    """user units of a derived dimension (volume, area, speed, pressure) declared as a number of a *power or product*
    of shipped units, asked against the shipped named units of that dimension in both directions - a search that
    fails one way (load -> cup) often succeeds the other way (cup -> load), and must go on doing so"""
    families = {
        "volume": (["mul", ["pow", ["u", "yard"], 3], ["u", "one"]], ["pow", ["u", "foot"], 3], ["cup", "pint", "quart", "gallon", "liter", "fluid ounce", "barrel", "tablespoon", "minim", "bushel", "gill", "peck", "cord", "stere", "acre-foot", "teaspoon"]),
        "area": (["pow", ["u", "yard"], 2], ["pow", ["u", "meter"], 2], ["acre", "hectare", "barn", "section", "shed", "survey township"]),
        "speed": (["div", ["u", "mile"], ["u", "hour"]], ["div", ["u", "meter"], ["u", "second"]], ["knot"]),
        "pressure": (["div", ["u", "newton"], ["pow", ["u", "meter"], 2]], ["div", ["u", "pound-force"], ["pow", ["u", "inch"], 2]], ["pascal", "pounds per square inch"]),
    }
    dim = rng.choice(["volume", "volume", "area", "area", "speed", "pressure"])
    t1, t2, named = families[dim]
    mine = [f"zq{tag}{dim[0]}{k}" for k in range(rng.randint(1, 2))]
    defs = [["define", n, n, ["dimname", dim]] for n in mine]
    decls = []
    for k, n in enumerate(mine):
        decls.append(["declare", ["u", n], ["i", rng.choice([2, 8, 10])], rng.choice([t1, t2]) if k == 0 else ["u", mine[0]]])

    def query(a=None, b=None):
        a = a or rng.choice(mine)
        b = b or rng.choice(named)
        if rng.random() < 0.5:
            a, b = b, a
        kind = rng.choice(["convert", "convert", "convert", "eq", "lt"])
        if kind == "convert":
            return ["convert", small_mag(rng), ["u", a], ["u", b]]
        return [kind, small_mag(rng), ["u", a], small_mag(rng), ["u", b]]

    def reverse(q):
        if q[0] == "convert":
            return ["convert", q[1], q[3], q[2]]
        return [q[0], q[3], q[4], q[1], q[2]]

    finals = [query() for _ in range(rng.randint(6, 10))]
    finals += [reverse(q) for q in finals if rng.random() < 0.5]
    finals += [query(a=rng.choice(named), b=rng.choice(named)) for _ in range(3)]
    ops1 = list(defs)
    if rng.random() < 0.4:
        ops1 += finals
    for d in decls:
        for _ in range(rng.randint(0, 3)):
            ops1.append(rng.choice(finals))
        ops1.append(["cache_info"])
        ops1.append(d)
    for _ in range(rng.randint(3, 10)):
        ops1.append(reverse(rng.choice(finals)) if rng.random() < 0.7 else query())
    final_start = len(ops1)
    ops1 += finals
    ops1 += [["cache_info"], ["flush"]]
    after_flush = len(ops1)
    ops1 += finals
    ops2 = list(defs) + list(decls)
    base_start = len(ops2)
    ops2 += finals
    mods = ["si", "us", "avoirdupois", "metric"]
    return ({"modules": mods, "ops": ops1}, {"modules": mods, "ops": ops2}, finals, final_start, after_flush, base_start, len(defs), len(decls))


def gen_naming_history(rng, tag):
    """a unit of a derived dimension with two statements of its size - one against a product of shipped units that has no
    name of its own (778.17 ft*lbf), one against a named unit (1055.06 J) - whose numbers differ in the sixth digit, as
    handbook numbers do.  Questions are asked; then the program gives the product a name (Unit.derive: a definition, not an
    equivalence - nothing is re-declared); the same questions are asked again.  A fresh process in which the name was
    given before anything was asked answers the same"""
    fam = rng.choice([
        ("energy", ["mul", ["u", "foot"], ["u", "pound-force"]], 778.17, ["u", "joule"], 1055.06, [["div", None, ["u", "hour"]], ["u", "watt"]]),
        ("energy", ["mul", ["u", "newton"], ["u", "meter"]], 4.1868, ["u", "calorie"], 1.00001, [["div", None, ["u", "second"]], ["u", "watt"]]),
        ("pressure", ["div", ["u", "pound-force"], ["pow", ["u", "foot"], 2]], 2088.5, ["u", "pascal"], 100000.0, [["mul", None, ["pow", ["u", "meter"], 2]], ["u", "newton"]]),
        ("power", ["div", ["mul", ["u", "foot"], ["u", "pound-force"]], ["u", "second"]], 550.0, ["u", "watt"], 745.7, [["mul", None, ["u", "hour"]], ["u", "joule"]]),
    ])
    dim, product, k1, named, k2, (wrap, target) = fam
    mine = f"zq{tag}nm"
    defs = [["define", mine, mine, ["dimname", dim]]]
    decls = [["declare", ["u", mine], ["f", float(k1).hex()], product], ["declare", ["u", mine], ["f", float(k2).hex()], named]]
    if rng.random() < 0.3:
        decls.reverse()
    src = [wrap[0], ["u", mine], wrap[2]]
    questions = [["convert", ["f", float(x).hex()], src, target] for x in (1, 2.5)] + [["convert", ["i", 3], target, src], ["convert", ["i", 1], ["u", mine], named],
                                                                                         ["eq", ["i", 1], src, ["f", (0.293).hex()], target], ["lt", ["i", 1], src, ["i", 1], target]]
    naming = ["name", product, f"zq{tag}product", f"zq{tag}pr"]
    ops1 = list(defs) + list(decls)
    for _ in range(rng.randint(1, 4)):
        ops1.append(rng.choice(questions))
    ops1.append(naming)
    for _ in range(rng.randint(0, 3)):
        ops1.append(rng.choice(questions))
    finals = list(questions)
    final_start = len(ops1)
    ops1 += finals
    ops1 += [["cache_info"], ["flush"]]
    after_flush = len(ops1)
    ops1 += finals
    ops2 = list(defs) + list(decls) + [naming]
    base_start = len(ops2)
    ops2 += finals
    mods = ["si", "us", "avoirdupois", "energy"]
    return ({"modules": mods, "ops": ops1}, {"modules": mods, "ops": ops2}, finals, final_start, after_flush, base_start, len(defs), len(decls))


def gen_ring_history(rng, tag):
    """handbook numbers seldom close exactly: a ring of the user's units (r0 = k0 r1, r1 = k1 r2, ..., r(n-1) = K r0) whose
    last statement is a few 1e-5 off what the others multiply out to, with a few units hanging off the ring.  Two routes
    lead from any member to any other and they give measurably different numbers - which one the library takes is its
    business, but it has to be the one a fresh process takes, whatever was asked before (there is no declaration after
    the questions begin, so nothing empties a memo table in between)"""
    n = rng.randint(4, 7)
    dim = rng.choice(["length", "mass", "time"])
    ring = [f"zq{tag}r{k}" for k in range(n)]
    spurs = [f"zq{tag}p{k}" for k in range(rng.randint(0, 3))]
    defs = [["define", x, x, ["dimname", dim]] for x in ring + spurs]
    ks = [rng.choice([2.5, 0.3, 7000.0, 12.0, 0.0254, 3.0, 1.609344, 60.0, 0.45359237]) for _ in range(n - 1)]
    prod = 1.0
    for k in ks:
        prod *= k
    closing = (1 / prod) * (1 + rng.choice([3e-5, -2e-5, 7e-5]))
    decls = [["declare", ["u", ring[i]], ["f", float(ks[i]).hex()], ["u", ring[i + 1]]] for i in range(n - 1)]
    decls.append(["declare", ["u", ring[-1]], ["f", float(closing).hex()], ["u", ring[0]]])
    for sp in spurs:
        decls.append(["declare", ["u", sp], ["f", float(rng.choice([2.0, 0.1, 36.0])).hex()], ["u", rng.choice(ring)]])
    rng.shuffle(decls)

    def query():
        a, b = rng.sample(ring + spurs, 2)
        e = rng.choice([1, 1, 1, 2, -1])
        ta, tb = (["u", a], ["u", b]) if e == 1 else (["pow", ["u", a], e], ["pow", ["u", b], e])
        kind = rng.choice(["convert", "convert", "convert", "eq", "lt"])
        if kind == "convert":
            return ["convert", ["f", float(rng.choice([1, 2.5, 40, 1000])).hex()], ta, tb]
        return [kind, ["i", rng.choice([1, 3, 10])], ta, ["i", rng.choice([1, 3, 10])], tb]

    def reverse(q):
        if q[0] == "convert":
            return ["convert", q[1], q[3], q[2]]
        return [q[0], q[3], q[4], q[1], q[2]]

    finals = [query() for _ in range(rng.randint(6, 12))]
    ops1 = list(defs) + list(decls)
    for _ in range(rng.randint(3, 14)):
        r = rng.random()
        ops1.append(reverse(rng.choice(finals)) if r < 0.4 else rng.choice(finals) if r < 0.5 else query())
    final_start = len(ops1)
    ops1 += finals
    ops1 += [["cache_info"], ["flush"]]
    after_flush = len(ops1)
    ops1 += finals
    ops2 = list(defs) + list(decls)
    base_start = len(ops2)
    ops2 += finals
    return ({"modules": [], "ops": ops1}, {"modules": [], "ops": ops2}, finals, final_start, after_flush, base_start, len(defs), len(decls))


class Num:
    """a returned magnitude compared *numerically*: the route a plan takes may depend on the
    order in which compound units happened to be interned, which changes a Decimal's
    trailing zeros (and, on shipped non-binary ratios, the last float bit) but not the value"""

    def __init__(self, enc):
        self.enc = tuple(enc)
        self.value = model.dec_mag(enc)

    def __eq__(self, other):
        if not isinstance(other, Num) or self.enc[0] != other.enc[0]:
            return False
        a, b = Fraction(self.value), Fraction(other.value)
        return a == b or abs(a - b) <= max(abs(a), abs(b)) * Fraction(1, 10**12)

    def __ne__(self, other):
        return not self.__eq__(other)

    def __hash__(self):
        return hash(self.enc[0])

    def __repr__(self):
        return f"{self.value!r}"


def build_only_run(spec1, final_start):
    ops = []
    for idx, op in enumerate(spec1["ops"]):
        if idx < final_start and op[0] == "little_stack":
            op = op[2]
        if idx < final_start and op[0] in ("convert", "eq", "lt", "level"):
            terms = [op[2], op[3]] if op[0] == "convert" else [op[2], op[4]]
            ops.append(["build", terms])
        else:
            ops.append(op)
    log = synth.run_spec({"modules": spec1["modules"], "ops": ops}, timeout=300)
    if "inconclusive" in log or log.get("fatal"):
        return None
    return log["results"]


def outcome(r):
    if "raise" in r:
        return ("raise", r["raise"])
    v = r["ok"]
    if isinstance(v, dict):
        return ("ok", Num(v["mag"]), v.get("unit_is_target"))
    return ("ok", v)


def known_witness(ctx):
    """the minimised history of the known finding (planner success depends on which expression interned a
    compound unit first), run as P1 / P2 / P3 exactly like a generated case"""
    u = [f"zqc08w{ctx.seed}u{i}" for i in range(4)]
    defs = [["define", n, n, ["dimname", "mass"]] for n in u]
    decls = [["declare", ["u", u[1]], ["f", (0.125).hex()], ["u", u[2]]], ["declare", ["u", u[2]], ["i", 8], ["u", u[0]]],
             ["declare", ["u", u[3]], ["i", 128], ["u", u[0]]]]
    early = ["lt", ["f", (-79.3125).hex()], ["mul", ["pow", ["u", u[1]], -1], ["pow", ["u", u[2]], 2]], ["i", 41], ["u", u[3]]]
    final = ["convert", ["f", (16.25).hex()], ["mul", ["pow", ["u", u[2]], 2], ["pow", ["u", u[1]], -1]], ["mul", ["pow", ["u", u[3]], 2], ["pow", ["u", u[1]], -1]]]
    p1 = synth.run_spec({"modules": [], "ops": defs + [early] + decls + [final]})
    p2 = synth.run_spec({"modules": [], "ops": defs + decls + [final]})
    p3 = synth.run_spec({"modules": [], "ops": defs + [["build", [early[2], early[4]]]] + decls + [final]})
    ctx.count("witnesses_rerun")
    if any("inconclusive" in x or x.get("fatal") for x in (p1, p2, p3)):
        return
    f1, f2, f3 = (outcome(x["results"][-1]) for x in (p1, p2, p3))
    still = f1 != f2 and f3 == f1
    ctx.witness("C08:history-dependent:interning-order:failure-vs-value", still)
    if f1 != f2 and f3 != f1:
        ctx.violation("C08:history-dependent:stale-failure", f"witness history: {f1} after an earlier query, {f2} in a fresh process, {f3} when only building", {"ops": defs + [early] + decls + [final]})


def run(ctx):
    rng = ctx.rng
    known_witness(ctx)
    n = ctx.scale(176, 3000)
    cases = []
    for i in range(n):
        if i % 16 == 2:
            cases.append(gen_naming_history(rng, tag=f"c08s{ctx.seed}i{i}"))
            ctx.count("histories_in_which_an_anonymous_product_gets_a_name_between_questions")
        elif i % 16 in (6, 14):
            cases.append(gen_ring_history(rng, tag=f"c08s{ctx.seed}i{i}"))
            ctx.count("histories_over_a_ring_of_equivalences_that_does_not_close_exactly")
        elif i % 4 == 1:
            cases.append(gen_scale_history(rng, tag=f"c08s{ctx.seed}i{i}"))
            ctx.count("histories_over_units_with_a_zero_point")
        elif i % 4 == 3:
            cases.append(gen_power_history(rng, tag=f"c08s{ctx.seed}i{i}"))
            ctx.count("histories_over_power_defined_units_against_shipped_named_units")
        else:
            cases.append(gen_history(rng, tag=f"c08s{ctx.seed}i{i}", shipped=(i % 3 == 2)))
    specs = []
    for c in cases:
        specs += [c[0], c[1]]
    logs = synth.run_specs(specs, jobs=14, timeout=300)
    ctx.count("child_processes", len(specs))
    for i, c in enumerate(cases):
        spec1, spec2, finals, final_start, after_flush, base_start, ndefs, ndecls = c
        l1, l2 = logs[2 * i], logs[2 * i + 1]
        ctx.count("evaluations")
        ctx.count("histories")
        bad = [l for l in (l1, l2) if "inconclusive" in l or l.get("fatal")]
        if bad:
            ctx.count("histories_inconclusive")
            if ctx.get("histories_inconclusive") > n // 4:
                ctx.not_reached(f"too many workers failed: {bad[0].get('inconclusive') or bad[0].get('fatal')}")
            continue
        r1, r2 = l1["results"], l2["results"]
        changed_by_later_declaration = 0
        third = None
        # queries before declarations: index of earlier askings of each final query
        earlier = {}
        last_decl_index = -1
        for idx, op in enumerate(spec1["ops"][:final_start]):
            if op[0] in ("declare", "scale"):
                last_decl_index = idx
            elif op[0] in ("convert", "eq", "lt", "level"):
                earlier.setdefault(repr(op), []).append((idx, outcome(r1[idx])))
        case_base = {"seed": ctx.seed, "history": i, "defs": ndefs, "declarations": ndecls}
        for idx, op in enumerate(spec1["ops"][:final_start]):
            if op[0] == "little_stack" and idx > last_decl_index and "ok" in r1[idx]:
                got = r1[idx]["ok"]
                ctx.count(f"asked_with_little_stack/{got[0]}")
                if got[0] == "answered" and op[2] in finals:
                    want = outcome(r2[base_start + finals.index(op[2])])
                    if want[0] == "ok" and outcome({"ok": got[1]}) != want:
                        ctx.violation("C08:answer-given-with-little-stack-differs", f"{op[2]} asked with {op[1]} frames to spare answered {got[1]}, a fresh process answers {want}",
                                      {**case_base, "query": op[2], "frames": op[1]})
            elif op[0] == "little_stack" and "raise" in r1[idx]:
                ctx.count(f"asked_with_little_stack/raised_{r1[idx]['raise']}")
        for k, q in enumerate(finals):
            f1 = outcome(r1[final_start + k])
            f1b = outcome(r1[after_flush + k])
            f2 = outcome(r2[base_start + k])
            ctx.count("final_queries_compared")
            asked_before = earlier.get(repr(q), [])
            if any(o != f2 for _, o in asked_before):
                changed_by_later_declaration += 1
            case = {**case_base, "query": q, "interleaved_process": r1[final_start + k], "fresh_process": r2[base_start + k],
                    "earlier_answers": [list(map(str, o)) for _, o in asked_before][:4], "ops_interleaved": spec1["ops"] if len(spec1["ops"]) < 120 else "(long)"}
            if f1 != f2:
                kind = "stale-failure" if f1[0] == "raise" and f2[0] == "ok" else "stale-value" if f1[0] == "ok" and f2[0] == "ok" else "stale-success"
                # Is it the *asking* that changed the answer, or only the order in which the earlier
                # expressions interned their compound units?  P3 = a third fresh process that builds the
                # same unit expressions in the same order but asks nothing before the final queries.
                if third is None:
                    third = build_only_run(spec1, final_start)
                    ctx.count("third_process_runs")
                if third is not None:
                    f3 = outcome(third[final_start + k])
                    if f3 == f1:
                        kind = "interning-order:" + ("failure-vs-value" if f1[0] != f2[0] else "value")
                    case["build_only_process"] = third[final_start + k]
                ctx.violation(f"C08:history-dependent:{kind}",
                              f"after the same declarations {model.show(q[2])} -> ... answers {f1} in the process that had asked before, {f2} in a fresh process", case)
            elif f1 != f1b:
                ctx.violation("C08:answer-changes-when-memo-tables-are-emptied", f"query {q}: {f1} before the flush, {f1b} after", case)
        # repeated queries with no declaration in between must repeat their answer
        for key, askings in earlier.items():
            for (i1, o1), (i2, o2) in zip(askings, askings[1:]):
                if not any(op[0] in ("declare", "scale") for op in spec1["ops"][i1:i2]):
                    ctx.count("repeated_queries_compared")
                    if o1 != o2:
                        ctx.violation("C08:repeated-query-differs", f"{key}: {o1} then {o2} with no declaration in between", case_base)
        # memo observability: cache hits recorded after a later declaration
        infos = [(idx, r1[idx]["ok"]) for idx, op in enumerate(spec1["ops"]) if op[0] == "cache_info" and "ok" in r1[idx]]
        if infos:
            hits = [sum(v[0] for v in info.values()) for _, info in infos]
            ctx.count("memo_hits_observed", max(hits) if hits else 0)
        ctx.count("final_queries_asked_before_a_declaration_that_changes_them", changed_by_later_declaration)
        ctx.distinct((ndefs, ndecls, tuple(op[0] for op in spec1["ops"][ndefs:final_start])), changed_by_later_declaration > 0)
        if len(ctx.samples) < 4 and changed_by_later_declaration:
            ctx.sample({"units_defined": ndefs, "declarations": ndecls, "interleaving": "".join({"declare": "D", "scale": "S", "convert": "q", "eq": "q", "lt": "q", "cache_info": ""}.get(op[0], "") for op in spec1["ops"][ndefs:final_start]),
                        "final_queries": len(finals), "answers_changed_by_later_declarations": changed_by_later_declaration})
    # questions, corrections and levels asked by two threads at once (deterministic scheduler, in this process)
    from .. import concurrent_conv, kit
    env = kit.Env(ctx, need_oracle=False, modules=["si", "us"])
    concurrent_conv.section(ctx, env, trials=(180 if ctx.tier == "quick" else 6000))
    ctx.require("final_queries_compared", 50)
    ctx.require("final_queries_asked_before_a_declaration_that_changes_them", 5)
