"""C20 — singletons stay singletons when constructed concurrently."""
from __future__ import annotations

import time

from .. import core, kit, sched

ID = "C20"
LEVEL = "exploration"
RULE = ("a deterministic scheduler (threading.settrace + condition variable) drives 2 and 3 threads through first-time "
        "construction of one dimension / prefix / unit / logarithm / logarithmic unit (constructor, *, /, **, root, "
        "Prefix*Unit, as_ratio, quantify, Decibel[ref]) at line granularity inside the interning constructors and the "
        "memoised multiply/divide helpers; all schedules up to a preemption bound are enumerated (complete within the "
        "bound) plus seeded random schedules; each trial uses a key never built before in the process.  distinct = hash "
        "of the (thread, function, line) trace; non-trivial = at least one preemption inside a traced window"
        " Plus declarations racing anonymous construction (name/symbol registries checked), refused declarations, two different base units declared side by side (all products of them are one object afterwards), and spellings stored before a later Dimension.define."
        " The functions to stop in are the listed ones plus whatever else of the same classes (and module-level helpers) one plain evaluation of the expression enters today (call-graph discovery)."
        " Units whose factors cancelled under a surviving prefix are raced; the free-running stress continues in a process that has formed 12 000 products.")
ASSUMPTIONS = [
    "line-granularity preemption is a subset of what CPython can do (the GIL can be dropped between any two "
    "bytecodes), so every observed violation is a real schedule; a single dict.setdefault call is atomic under the GIL",
    "a thread that makes no progress for 0.5 s while holding the token is treated as blocked on a lock and another "
    "thread is scheduled; a run that exceeds its watchdog is inconclusive",
]
SHARDS = {"quick": 10, "thorough": 15}


def scenarios(env, offset):
    m = env.m
    Dimension, Prefix, Unit, Logarithm, LogarithmicUnit = m.Dimension, m.Prefix, m.Unit, m.Logarithm, m.LogarithmicUnit
    U = Unit._by_name
    Meter, Foot, Second, Watt = U["meter"], U["foot"], U["second"], U["watt"]
    Length, Time, Mass = m.Length, m.Time, m.Mass
    width = len(m.Number.exponents)
    NEW = {"Dimension.__new__", "Dimension.__init__"}
    DIMOPS = NEW | {"Dimension._multiply", "Dimension._divide", "Dimension.__mul__", "Dimension.__truediv__", "Dimension.__pow__", "Dimension.root"}
    PFX = {"Prefix.__new__", "Prefix.__init__", "Prefix.__mul__", "Prefix.__truediv__", "Prefix.__pow__", "Prefix.root"}
    UNIT = {"Unit.__new__", "Unit.__init__", "Unit._build_key", "Unit._simplify", "Unit.alias"}
    UNITOPS = UNIT | {"Unit._multiply", "Unit._divide", "Unit.__mul__", "Unit.__truediv__", "Unit.__pow__", "Unit.root", "Unit.as_ratio", "Unit.quantify"}
    LOG = {"Logarithm.__new__", "Logarithm.__init__", "Logarithm.__mul__", "LogarithmicUnit.__new__", "LogarithmicUnit.__init__", "Logarithm.__getitem__"}

    def dim_exps(n):
        return tuple([0, 1000 + offset + n] + [0] * (width - 2))

    out = []

    def add(name, traced, expr, table=None, key=None, threads=(2, 3), wide=False, mixed=None, post=None, may_raise=(), independent=False):
        out.append(dict(name=name, traced=traced, expr=expr, table=table, key=key, threads=threads, wide=wide, mixed=mixed, post=post, may_raise=may_raise,
                        independent=independent))

    add("Dimension(exponents)", NEW, lambda n: (lambda: Dimension(dim_exps(n))), Dimension._known, lambda n: dim_exps(n))
    add("Length**k", DIMOPS, lambda n: (lambda: Length ** (2000 + offset + n)))
    add("Dimension*Dimension", DIMOPS, lambda n: (lambda a=Length ** (3000 + offset + n), b=Time ** (3000 + offset + n): a * b), wide=True)
    add("Dimension/Dimension", DIMOPS, lambda n: (lambda a=Mass ** (4000 + offset + n), b=Time ** (4000 + offset + n): a / b), wide=True)
    add("Prefix(base, exponent)", PFX, lambda n: (lambda: Prefix(7, 100 + offset + n)), Prefix._known, lambda n: (7, 100 + offset + n))
    add("Prefix*Prefix", PFX, lambda n: (lambda a=Prefix(11, 5000 + offset + n), b=Prefix(11, 1): a * b))
    add("Prefix**k", PFX, lambda n: (lambda a=Prefix(13, 1): a ** (6000 + offset + n)))
    add("Meter**k", UNITOPS | DIMOPS | PFX, lambda n: (lambda: Meter ** (50 + offset + n)), wide=True)
    add("Unit*Unit", UNITOPS | DIMOPS | PFX, lambda n: (lambda a=Meter ** (7000 + offset + n), b=Foot ** (7000 + offset + n): a * b), wide=True)
    add("Unit/Unit", UNITOPS | DIMOPS | PFX, lambda n: (lambda a=Meter ** (8000 + offset + n), b=Second ** (8000 + offset + n): a / b), wide=True)
    add("Unit.root", UNITOPS | DIMOPS | PFX, lambda n: (lambda a=Foot ** (2 * (9000 + offset + n)): a.root(2)), wide=True)
    # a unit whose factors have all cancelled while a prefix survives ((k*m)/m, k*One): the placeholder One is its only factor
    add("(Prefix*Unit)/Unit", UNITOPS | DIMOPS | PFX, lambda n: (lambda pm=Prefix(19, 20000 + offset + n) * Meter: pm / Meter), wide=True)
    add("Prefix*One", UNITOPS | PFX, lambda n: (lambda p=Prefix(19, 21000 + offset + n): p * m.One), wide=True)
    add("(Prefix*Unit)/Unit vs Prefix*One", UNITOPS | DIMOPS | PFX, lambda n: (lambda pm=Prefix(19, 22000 + offset + n) * Meter: pm / Meter),
        mixed=lambda n, k: [(lambda pm=Prefix(19, 22000 + offset + n) * Meter: pm / Meter), (lambda p=Prefix(19, 22000 + offset + n): p * m.One)][:k] if k == 2 else
        [(lambda pm=Prefix(19, 22000 + offset + n) * Meter: pm / Meter), (lambda p=Prefix(19, 22000 + offset + n): p * m.One), (lambda pm=Prefix(19, 22000 + offset + n) * Second: pm / Second)], wide=True)
    add("Prefix*Unit", UNIT | PFX | {"Prefix.__mul__"}, lambda n: (lambda p=Prefix(17, 10000 + offset + n): p * Meter), wide=True)
    add("Unit.as_ratio", UNITOPS, lambda n: (lambda a=Meter ** (11000 + offset + n) / Second ** (11000 + offset + n): a.as_ratio()[1]), wide=True)
    add("Unit.quantify", UNITOPS | PFX, lambda n: (lambda a=Prefix(19, 3) * Foot ** (12000 + offset + n): a.quantify().unit), wide=True)
    # other input shapes that reach the same constructors: float / Decimal exponents (what cross-base prefix
    # arithmetic produces), quotients, roots, quantity arithmetic, parsing and JSON decoding
    from decimal import Decimal as _D
    import json as _json
    from measured.json import MeasuredJSONDecoder as _Dec
    add("Prefix(base, float exponent)", PFX, lambda n: (lambda: Prefix(29, float(20000 + offset + n))), Prefix._known, lambda n: (29, float(20000 + offset + n)))
    add("Prefix(base, Decimal exponent)", PFX, lambda n: (lambda: Prefix(31, _D(21000 + offset + n))))
    add("Prefix*Prefix cross-base", PFX, lambda n: (lambda a=Prefix(2, 22000 + offset + n), b=Prefix(4, 3): a * b))
    add("Prefix/Prefix cross-base", PFX, lambda n: (lambda a=Prefix(3, 23000 + offset + n), b=Prefix(9, 2): a / b))
    add("Prefix/Prefix", PFX, lambda n: (lambda a=Prefix(37, 24000 + offset + n), b=Prefix(37, 1): a / b))
    add("Prefix.root", PFX, lambda n: (lambda a=Prefix(41, 2 * (25000 + offset + n)): a.root(2)))
    add("Dimension.root", DIMOPS, lambda n: (lambda a=Mass ** (2 * (26000 + offset + n)): a.root(2)))
    add("Dimension.as_ratio", DIMOPS | {"Dimension.as_ratio"}, lambda n: (lambda a=Length ** (27000 + offset + n) / Time ** (27000 + offset + n): a.as_ratio()[1]))
    add("cross-base Prefix*Unit", UNIT | PFX | {"Prefix.__mul__"}, lambda n: (lambda p=Prefix(4, 3), u=Prefix(2, 28000 + offset + n) * Meter: p * u), wide=True)
    add("Quantity*Quantity", UNITOPS | DIMOPS | PFX, lambda n: (lambda a=2 * Meter ** (29000 + offset + n), b=3 * Second ** (29000 + offset + n): (a * b).unit), wide=True)
    add("Unit.parse", UNITOPS | DIMOPS | PFX, lambda n: (lambda text=f"m^{30000 + offset + n}*ft.^{30000 + offset + n}": Unit.parse(text)), wide=True)
    add("Unit from JSON", UNIT | PFX | {"Unit.__from_json__", "Prefix.__from_json__", "Dimension.__from_json__"} | NEW,
        lambda n: (lambda blob=_json.dumps({"__measured__": "Unit", "name": None, "symbol": None,
                                             "dimension": {"__measured__": "Dimension", "name": None, "symbol": None, "exponents": [0, 31000 + offset + n] + [0] * (width - 2)},
                                             "prefix": None,
                                             "factors": [[{"__measured__": "Unit", "name": "meter", "symbol": "m", "dimension": {"__measured__": "Dimension", "name": "length", "symbol": "L", "exponents": list(Length.exponents)}, "prefix": None, "factors": None}, 31000 + offset + n]]}):
                   _json.loads(blob, cls=_Dec)), wide=True)
    add("Logarithm(base)", LOG, lambda n: (lambda: Logarithm(float(32000 + offset + n))), Logarithm._known, None)
    add("Prefix*Logarithm", LOG | PFX, lambda n: (lambda p=Prefix(23, 13000 + offset + n): p * m.Bel), Logarithm._known, None)
    add("Decibel[reference]", LOG, lambda n: (lambda ref=(14000 + offset + n) * Watt: m.Decibel[ref]), LogarithmicUnit._known, None)
    # a declaration (name and symbol given) racing with anonymous constructions of the same object: the threads
    # run *different* expressions denoting one object; afterwards every lookup that answers - by key, by name,
    # by symbol - answers with that object (a name that ends up unbound is not judged here)
    def lookups(pairs):
        def post(n, obj):
            bad = []
            for what, table, k in pairs(n):
                got = table.get(k)
                if got is not None and got is not obj:
                    bad.append(f"{what}[{k!r}] is another object (initialised: {getattr(got, '_initialized', '?')})")
            return bad
        return post

    def dname(n):
        return f"c20 dimension {offset + n}", f"c20D{offset + n}"

    def named_dim(n, k):
        nm, sy = dname(n)
        e = tuple([0, 0, 33000 + offset + n] + [0] * (width - 3))
        named, anon = (lambda: Dimension(e, name=nm, symbol=sy)), (lambda: Dimension(e))
        return [named, anon] if k == 2 else [named, anon, (lambda: Dimension(e, name=nm, symbol=sy))]
    add("Dimension declared vs anonymous", NEW, lambda n: (lambda: Dimension(tuple([0, 0, 33000 + offset + n] + [0] * (width - 3)))),
        Dimension._known, lambda n: tuple([0, 0, 33000 + offset + n] + [0] * (width - 3)), mixed=named_dim,
        post=lookups(lambda n: [("Dimension._by_name", Dimension._by_name, dname(n)[0])]))

    def pname(n):
        return f"c20prefix{offset + n}", f"c20p{offset + n}"

    def named_pfx(n, k):
        nm, sy = pname(n)
        named, anon = (lambda: Prefix(43, 34000 + offset + n, name=nm, symbol=sy)), (lambda: Prefix(43, 34000 + offset + n))
        return [named, anon] if k == 2 else [anon, named, (lambda a=Prefix(43, 34000 + offset + n - 1), b=Prefix(43, 1): a * b)]
    add("Prefix declared vs anonymous", PFX, lambda n: (lambda: Prefix(43, 34000 + offset + n)), Prefix._known, lambda n: (43, 34000 + offset + n), mixed=named_pfx,
        post=lookups(lambda n: [("Prefix._by_name", Prefix._by_name, pname(n)[0]), ("Prefix._by_symbol", Prefix._by_symbol, pname(n)[1])]))

    def uname(n):
        return f"c20unit{offset + n}", f"c20u{offset + n}"

    def named_unit(n, k):
        nm, sy = uname(n)
        e = 35000 + offset + n
        dim = Length ** e
        named, anon = (lambda: Unit(m.IdentityPrefix, {Meter: e}, dim, nm, sy)), (lambda: Meter ** e)
        return [named, anon] if k == 2 else [anon, named, (lambda: Unit(m.IdentityPrefix, {Meter: e}, dim))]
    add("Unit declared vs anonymous", UNITOPS | DIMOPS, lambda n: (lambda: Meter ** (35000 + offset + n)), mixed=named_unit, wide=True,
        post=lookups(lambda n: [("Unit._by_name", Unit._by_name, uname(n)[0]), ("Unit._by_symbol", Unit._by_symbol, uname(n)[1])]))
    # a declaration that is *refused* (symbol with a space, a name or symbol that belongs to something else) racing
    # with anonymous constructions of the same object: the refused thread raises ValueError, every other thread and
    # every later evaluation still gets one object
    def refused_unit(n, k):
        e = 36000 + offset + n
        dim = Length ** e
        bad = (lambda: Unit(m.IdentityPrefix, {Meter: e}, dim, f"c20refused{offset + n}", rng_symbol(n)))
        anon = (lambda: Meter ** e)
        return [bad, anon] if k == 2 else [anon, bad, (lambda a=Meter ** (e - 1): a * Meter)]

    def rng_symbol(n):
        return ["bad symbol", "m", "7 m"][n % 3]
    add("Unit refused declaration vs anonymous", UNITOPS | DIMOPS | {"Unit._check_alias"}, lambda n: (lambda: Meter ** (36000 + offset + n)), mixed=refused_unit, wide=True,
        may_raise=(ValueError,))

    def refused_prefix(n, k):
        e = 37000 + offset + n
        bad = (lambda: Prefix(47, e, name="kilo", symbol=f"c20q{offset + n}") if n % 2 else Prefix(47, e, name=f"c20refusedp{offset + n}", symbol="k"))
        anon = (lambda: Prefix(47, e))
        return [bad, anon] if k == 2 else [anon, bad, (lambda a=Prefix(47, e - 1), b=Prefix(47, 1): a * b)]
    add("Prefix refused declaration vs anonymous", PFX, lambda n: (lambda: Prefix(47, 37000 + offset + n)), Prefix._known, lambda n: (47, 37000 + offset + n),
        mixed=refused_prefix, may_raise=(ValueError,))

    def refused_dim(n, k):
        ex = tuple([0, 0, 0, 38000 + offset + n] + [0] * (width - 4))
        bad = (lambda: Dimension(ex, name="length", symbol="L"))
        anon = (lambda: Dimension(ex))
        return [bad, anon] if k == 2 else [anon, bad, (lambda: Dimension(ex))]
    add("Dimension refused declaration vs anonymous", NEW, lambda n: (lambda: Dimension(tuple([0, 0, 0, 38000 + offset + n] + [0] * (width - 4)))), Dimension._known,
        lambda n: tuple([0, 0, 0, 38000 + offset + n] + [0] * (width - 4)), mixed=refused_dim, may_raise=(ValueError,))
    # two (three) *different* base units declared side by side: afterwards every spelling of their product is one object
    def two_declarations(n, k):
        dims_ = [m.Time, m.Mass, m.Length]
        return [(lambda i=i: Unit.define(dims_[i], f"c20decl{offset + n}x{i}", f"c20d{offset + n}x{i}")) for i in range(k)]

    def products_commute(n, objs):
        bad = []
        import itertools
        units_ = list(objs)
        ref = None
        for perm in itertools.permutations(units_):
            p_ = perm[0]
            for u_ in perm[1:]:
                p_ = p_ * u_
            q_ = perm[0]
            for u_ in perm[1:]:
                q_ = q_ / u_ ** -1
            ref = ref or p_
            if p_ is not ref or q_ is not ref:
                bad.append(f"the product of {[u.names[0] for u in perm]} is another object than the product in another order")
                break
        if len({id(u) for u in units_}) != len(units_):
            bad.append("two declarations of different units returned one object")
        return bad
    add("two base units declared side by side", UNITOPS | {"Unit.define", "Unit._check_alias"}, lambda n: (lambda: None), mixed=two_declarations, post=products_commute,
        independent=True, wide=True)

    # exponents written down before a later Dimension.define (a stored document) racing with the current spelling and
    # with arithmetic: all three denote one dimension.  The declaration is made when this scenario starts - it is the
    # last one of its shard, so the other scenarios' tuples keep the width they were built with
    stale = {}

    def stale_dim(n, k):
        if "w" not in stale:
            stale["w"] = len(m.Number.exponents)
            Dimension.define(f"c20 extra dimension {offset}", f"C20x{offset}")
        w, e = stale["w"], 39000 + offset + n
        short = tuple([0, 0, 0, 0, e] + [0] * (w - 5))
        old_doc, current, arithmetic = (lambda: Dimension(short)), (lambda: Dimension(short + (0,))), (lambda: m.Temperature ** e)
        return [old_doc, rng_pick(n, [current, arithmetic, old_doc])] if k == 2 else [old_doc, current, arithmetic]

    def rng_pick(n, options):
        return options[n % len(options)]
    add("Dimension(exponents stored before a later define)", NEW | DIMOPS | {"Dimension._padded"}, lambda n: (lambda: m.Temperature ** (39000 + offset + n)), mixed=stale_dim)
    return out


def run(ctx):
    env = kit.Env(ctx, need_oracle=False)
    m = env.m
    target = m.__file__
    rng = ctx.rng
    all_sc = scenarios(env, offset=0)
    mine = [s for i, s in enumerate(all_sc) if i % ctx.nshards == ctx.shard]
    quick = ctx.tier == "quick"
    per_scenario_budget = (3.0 if quick else 120.0)
    widened = {}
    for sc in mine:
        for nthreads in sc["threads"]:
            if nthreads == 3:
                bound = 1 if quick else 2
            else:
                bound = 2 if quick else (2 if sc["wide"] else 3)
            base = {"n": 0}
            label = f"{sc['name']}/{nthreads} threads"

            def make(trial, sc=sc, nthreads=nthreads, base=base):
                base["n"] += 1
                n = base["n"] + (100000 if nthreads == 3 else 0)
                base["cur"] = n
                if sc["mixed"]:
                    return sc["mixed"](n, nthreads)
                thunk = sc["expr"]
                return [thunk(n) for _ in range(nthreads)]

            def check(run, trial, sc=sc, label=label, base=base):
                ctx.count("evaluations")
                ctx.count(f"executions/{label}")
                pre = run.preemptions()
                ctx.distinct(run.trace_hash(), pre >= 1)
                if run.blocked_events:
                    ctx.count("blocked_thread_events", run.blocked_events)
                if run.watchdog_fired:
                    ctx.count("watchdog_fired")
                    return
                case = {"scenario": label, "schedule": [c for c, _, _ in run.choices], "trace_head": [list(t) for t in run.trace[:40]]}
                refused = {t: e for t, e in run.errors.items() if isinstance(e, sc["may_raise"])} if sc["may_raise"] else {}
                other = {t: e for t, e in run.errors.items() if t not in refused}
                if other:
                    e = next(iter(other.values()))
                    ctx.violation(f"C20:thread-raised:{type(e).__name__}:{sc['name']}", f"{label}: a thread raised {type(e).__name__}: {e}", case)
                    return
                if refused:
                    ctx.count("refused_declarations_in_a_race", len(refused))
                objs = [run.results[t] for t in sorted(run.results)]
                if len(objs) + len(refused) < len(run.funcs) or not objs:
                    ctx.count("incomplete_runs")
                    return
                if sc["independent"]:
                    # the threads made *different* objects on purpose (two declarations side by side); what is judged is
                    # what those objects are to each other afterwards
                    ctx.count("independent_declarations_in_a_race")
                    for bad in sc["post"](base["cur"], objs):
                        ctx.violation(f"C20:later-evaluation-differs:{sc['name']}", f"{label}: after both declarations completed, {bad} under schedule {case['schedule']}", case)
                    return
                if any(o is not objs[0] for o in objs):
                    ctx.violation(f"C20:threads-hold-different-objects:{sc['name']}", f"{label}: threads obtained {len({id(o) for o in objs})} distinct objects for one expression under schedule {case['schedule']}", case)
                    return
                # later evaluations return that object, and the table holds it
                again = sc["expr"](base["cur"])()
                if again is not objs[0]:
                    ctx.violation(f"C20:later-evaluation-differs:{sc['name']}", f"{label}: a later evaluation returned another object", case)
                if sc["table"] is not None and sc["key"] is not None:
                    k = sc["key"](base["cur"])
                    if sc["table"].get(k) is not objs[0]:
                        ctx.violation(f"C20:table-holds-another-object:{sc['name']}", f"{label}: the intern table maps the key to another object", case)
                if sc["post"] is not None:
                    ctx.count("name_registry_lookups_checked")
                    for bad in sc["post"](base["cur"], objs[0]):
                        ctx.violation(f"C20:lookup-returns-another-object:{sc['name']}", f"{label}: after all threads obtained one object, {bad} under schedule {case['schedule']}", case)

            # the windows to preempt in are the functions this expression enters today: the listed ones plus whatever
            # else of the same classes (or module-level helpers) one plain evaluation is seen to call - a helper that
            # was renamed, merged or moved out of its class is still traced
            if f"{sc['name']}" not in widened:
                owners = {q.split(".")[0] for q in sc["traced"]}
                entered = set()
                for f in make(-1):
                    entered |= sched.discover(f, target)
                extra = {q for q in entered if q not in sc["traced"] and "<" not in q and (q.split(".")[0] in owners or "." not in q)}
                widened[sc["name"]] = frozenset(sc["traced"] | extra)
                for q in sorted(extra):
                    ctx.cov.setdefault("functions_traced_beyond_the_listed_ones", {}).setdefault(sc["name"], []).append(q)
                ctx.count("traced_functions_discovered", len(extra))
            traced = widened[sc["name"]]
            deadline = time.time() + per_scenario_budget
            # iterative preemption bounding: every lower bound is completed before the next one starts, so a
            # time cap can only truncate the highest bound
            n, seen, done = 0, set(), []
            for bnd in range(1, bound + 1):
                k, sn, complete = sched.explore(make, traced, target, check, max_preempt=bnd, limit=200000, deadline=deadline if bnd > 1 else None)
                n += k
                seen |= sn
                done.append(f"bound {bnd}: {'complete' if complete else 'time-capped'} ({k} executions)")
                if not complete:
                    break
            ctx.count(f"schedules_enumerated/{label}", n)
            ctx.cov.setdefault("complete_within_bound", {})[label] = "; ".join(done)
            # seeded random schedules beyond the bound
            rn = sched.random_schedules(make, traced, target, check, rng, (60 if quick else 4000), seen, deadline=time.time() + per_scenario_budget / 2)
            ctx.count(f"random_schedules/{label}", rn)
            if len(ctx.samples) < 3 and n:
                ctx.sample({"scenario": label, "preemption_bound": bound, "schedules": n, "distinct_traces": len(seen)})
    if ctx.get("watchdog_fired") > max(3, ctx.get("evaluations") // 50):
        ctx.not_reached(f"the scheduler watchdog fired {ctx.get('watchdog_fired')} times")
    ctx.require("evaluations", 20)


def finish(ctx):
    # free-running stress is a weaker extra workload: 16 threads, tiny switch interval
    import sys
    import threading

    env = kit.Env(ctx, need_oracle=False)
    m = env.m
    old = sys.getswitchinterval()
    sys.setswitchinterval(1e-6)
    try:
        Meter = m.Unit._by_name["meter"]
        rounds = 200 if ctx.tier == "quick" else 5000
        for r in range(rounds):
            results = [None] * 16
            barrier = threading.Barrier(16)

            def work(i, r=r):
                barrier.wait()
                results[i] = (m.Dimension(tuple([0, 500000 + r] + [0] * (len(m.Number.exponents) - 2))), m.Prefix(29, 500000 + r), Meter ** (500000 + r))

            ts = [threading.Thread(target=work, args=(i,)) for i in range(16)]
            for t in ts:
                t.start()
            for t in ts:
                t.join(30)
            ctx.count("free_running_stress_rounds")
            for k, what in enumerate(("Dimension", "Prefix", "Unit")):
                if any(x is None or x[k] is not results[0][k] for x in results):
                    ctx.violation(f"C20:free-running-stress:{what}", f"16 free-running threads obtained different {what} objects in round {r}", {"round": r})
                    break
        # a process that has lived for a while: thousands of products and quotients were formed before (whatever is kept per
        # operand pair has reached whatever size it is allowed to reach); then 8 threads form the same 48 new products each
        # round, all at once
        Second, Gram = m.Unit._by_name["second"], m.Unit._by_name["gram"]
        built = 0
        for a_ in range(1, 80):
            for b_ in range(1, 80):
                Meter**a_ * Second**b_
                Meter**a_ / Gram**b_
                built += 2
        ctx.count("products_formed_before_the_long_lived_stress", built)
        rounds = 40 if ctx.tier == "quick" else 1200
        for r in range(rounds):
            nthreads = 8
            results, errors = [None] * nthreads, [None] * nthreads
            barrier = threading.Barrier(nthreads)

            def work2(i, r=r):
                out = []
                barrier.wait()
                try:
                    for j in range(48):
                        out.append(Meter ** (100 + r) * Gram ** (j + 1))
                        out.append(Second ** (100 + r) / Gram ** (j + 1))
                    results[i] = out
                except BaseException as e:  # noqa
                    errors[i] = e

            ts = [threading.Thread(target=work2, args=(i,)) for i in range(nthreads)]
            for t in ts:
                t.start()
            for t in ts:
                t.join(60)
            ctx.count("long_lived_stress_rounds")
            bad = next((e for e in errors if e is not None), None)
            if bad is not None:
                ctx.violation(f"C20:free-running-stress:thread-raised:{type(bad).__name__}", f"in a process that had formed {built} products before, one of {nthreads} threads forming "
                              f"the same new products at once raised {type(bad).__name__}: {bad}", {"round": r})
                break
            if any(x is None or any(p is not q for p, q in zip(x, results[0])) for x in results):
                ctx.violation("C20:free-running-stress:Unit", f"{nthreads} free-running threads obtained different objects for one product in round {r} of a long-lived process", {"round": r})
                break
    finally:
        sys.setswitchinterval(old)
