"""C03 — quantity operations obey dimensional analysis; incommensurables are rejected."""
from __future__ import annotations

import operator
from decimal import Decimal

from .. import core, kit, model


def _r(x):
    """repr for a case record: an int magnitude with more digits than str() may write must not take the check down"""
    try:
        return repr(x)
    except Exception as e:
        return f"<{type(x).__name__} whose repr raised {type(e).__name__}>"

ID = "C03"
LEVEL = "exploration"
RULE = ("post-conditions on the real Quantity operators over the table operator x left magnitude type x right operand "
        "kind (Quantity int/float/Decimal, int, float, Decimal, Unit) x reflected-or-not x unit shape x exponent/root "
        "degree; incommensurable pairs are built by changing one dimension exponent; distinct = (operator, left type, "
        "right kind, shape classes, exponent); non-trivial = operands are not both bare base units with magnitude 1"
        " Incommensurable cases include NaN, sNaN and infinite magnitudes."
        " Incommensurable operands also meet in level() and in orderings against levels."
        " Int magnitudes beyond the str() digit limit and bool magnitudes meet Decimal operands (four operators, both orders): a Decimal result of the right dimension.")
ASSUMPTIONS = [
    "expected dimensions come from the normal-form model over dimensions captured at Unit.define",
    "int ** negative legitimately gives float; roots of negative magnitudes are outside the statement (skipped, counted)",
    "NotImplemented results are followed to what Python finally does (TypeError)",
]
SHARDS = {"quick": 4, "thorough": 14}

MAG_KINDS = ["int", "float", "decimal"]


def mag_kind(x):
    return "decimal" if isinstance(x, Decimal) else "float" if isinstance(x, float) else "int"


def run(ctx):
    env = kit.Env(ctx, need_oracle=False)
    m, mdl, pools, rng = env.m, env.mdl, env.pools, ctx.rng
    Q, Unit = m.Quantity, m.Unit
    CNF = env.conv.ConversionNotFound
    width = len(m.Number.exponents)

    def dim(u):
        return mdl.dim_of_unit(u)

    def vec(op, a, b=None, n=None):
        if op == "mul":
            return tuple(x + y for x, y in zip(a, b))
        if op == "div":
            return tuple(x - y for x, y in zip(a, b))
        if op == "pow":
            return tuple(x * n for x in a)
        if op == "root":
            if n == 0:
                return tuple([0] * width)
            if any(x % n for x in a):
                return None
            return tuple(x // n for x in a)

    # ---- post-conditions on the real methods ---------------------------------------------
    def expect_quantity(label, result, want_dim, decimal_in, left_unit=None, case=None):
        ctx.count(f"postconditions/{label}")
        if not isinstance(result, Q):
            if result is NotImplemented:
                return
            ctx.violation(f"C03:{label}:result-is-not-a-quantity", f"{label} returned {result!r}", case)
            return
        if want_dim is not None and tuple(result.unit.dimension.exponents) != tuple(want_dim):
            ctx.violation(f"C03:{label}:wrong-dimension", f"{label}: result {result!r} has dimension {result.unit.dimension}, expected exponents {want_dim}", case)
        if tuple(result.unit.dimension.exponents) != dim(result.unit):
            ctx.violation(f"C03:{label}:unit-dimension-inconsistent-with-factors", f"{label}: {result.unit!r}", case)
        if decimal_in and not isinstance(result.magnitude, Decimal):
            ctx.violation(f"C03:{label}:decimal-lost", f"{label}: a Decimal operand produced magnitude {result.magnitude!r} ({type(result.magnitude).__name__})", case)
        if not kit.numeric_type_ok(result.magnitude):
            ctx.violation(f"C03:{label}:non-numeric-magnitude", f"{label}: magnitude {result.magnitude!r}", case)
        if left_unit is not None and result.unit is not left_unit:
            ctx.violation(f"C03:{label}:not-in-left-unit", f"{label}: result unit {result.unit} is not the left operand's {left_unit}", case)

    def other_dim_and_dec(other):
        if isinstance(other, Q):
            return dim(other.unit), isinstance(other.magnitude, Decimal)
        if isinstance(other, Unit):
            return dim(other), False
        if isinstance(other, (int, float, Decimal)) and not isinstance(other, bool):
            return tuple([0] * width), isinstance(other, Decimal)
        return None, False

    def post_binary(label, op, reflected=False):
        def cond(a, k, result, exc):
            self, other = a[0], a[1]
            od, odec = other_dim_and_dec(other)
            case = {"op": label, "self": _r(self), "other": _r(other)}
            if exc is not None:
                ctx.count(f"postcondition_saw_raise/{label}/{type(exc).__name__}")
                return
            if od is None:
                return
            sd = dim(self.unit)
            want = vec(op, od, sd) if reflected else vec(op, sd, od)
            if reflected and op == "div" and isinstance(result, Q) and result.unit is self.unit and any(sd) \
                    and not isinstance(other, (Q, Unit)):
                ctx.count(f"postconditions/{label}")
                ctx.violation("C03:number-divided-by-quantity-keeps-unit", f"{other!r} / {self!r} = {result!r} (unit not inverted)", case)
                return
            expect_quantity(label, result, want, odec or isinstance(self.magnitude, Decimal), case=case)
        return cond

    def post_addsub(label):
        def cond(a, k, result, exc):
            self, other = a[0], a[1]
            case = {"op": label, "self": _r(self), "other": _r(other)}
            if not isinstance(other, Q):
                return
            same = dim(self.unit) == dim(other.unit)
            if exc is not None:
                ctx.count(f"postcondition_saw_raise/{label}/{type(exc).__name__}")
                if not isinstance(exc, (TypeError, CNF)) and not same:
                    ctx.violation(f"C03:{label}:raised-{type(exc).__name__}", f"{label} raised {type(exc).__name__}: {exc}", case)
                return
            if not same:
                ctx.violation(f"C03:{label}:incommensurable-accepted", f"{self!r} {label} {other!r} returned {result!r}", case)
                return
            expect_quantity(label, result, dim(self.unit), isinstance(self.magnitude, Decimal) or isinstance(other.magnitude, Decimal),
                            left_unit=self.unit, case=case)
        return cond

    def post_pow(a, k, result, exc):
        self, n = a[0], a[1]
        case = {"op": "__pow__", "self": _r(self), "n": n}
        if exc is not None or not isinstance(n, int):
            return
        expect_quantity("__pow__", result, vec("pow", dim(self.unit), n=n), isinstance(self.magnitude, Decimal), case=case)

    def post_root(a, k, result, exc):
        self, n = a[0], a[1]
        case = {"op": "root", "self": _r(self), "n": n}
        want = vec("root", dim(self.unit), n=n) if isinstance(n, int) else None
        if exc is not None:
            ctx.count(f"postcondition_saw_raise/root/{type(exc).__name__}")
            if want is not None and n != 0 and isinstance(exc, m.FractionalDimensionError):
                nf = mdl.nf_of_unit(self.unit)
                try:
                    nf.root(n)
                    ctx.violation("C03:root:exact-root-refused", f"{self!r}.root({n}) raised {exc}", case)
                except model.ModelError:
                    pass
            return
        if want is None:
            ctx.violation("C03:root:fractional-dimension-accepted", f"{self!r}.root({n}) = {result!r}", case)
            return
        if isinstance(self.magnitude, (int, float)) and self.magnitude < 0 and n != 0:
            ctx.count("root_negative_magnitude_skipped")
            return
        expect_quantity("root", result, want, isinstance(self.magnitude, Decimal) and n != 0, case=case)

    def post_unary(label):
        def cond(a, k, result, exc):
            if exc is not None:
                return
            self = a[0]
            expect_quantity(label, result, dim(self.unit), isinstance(self.magnitude, Decimal), left_unit=self.unit, case={"op": label, "self": _r(self)})
        return cond

    def post_compare(label):
        def cond(a, k, result, exc):
            self, other = a[0], a[1]
            if not isinstance(other, Q):
                return
            ctx.count(f"postconditions/{label}")
            if exc is not None:
                ctx.violation(f"C03:{label}:raised-{type(exc).__name__}", f"{self!r} {label} {other!r} raised {exc}", {"self": _r(self), "other": _r(other)})
                return
            if dim(self.unit) != dim(other.unit) and result is not NotImplemented and result is not False:
                ctx.violation(f"C03:{label}:incommensurable-compared", f"{self!r} {label} {other!r} returned {result!r}", {"self": _r(self), "other": _r(other)})
        return cond

    kt = env.kit
    kt.post(Q, "__mul__", post_binary("__mul__", "mul"))
    kt.post(Q, "__rmul__", post_binary("__rmul__", "mul", reflected=True))
    kt.post(Q, "__truediv__", post_binary("__truediv__", "div"))
    kt.post(Q, "__rtruediv__", post_binary("__rtruediv__", "div", reflected=True))
    kt.post(Q, "__add__", post_addsub("__add__"))
    kt.post(Q, "__sub__", post_addsub("__sub__"))
    kt.post(Q, "__pow__", post_pow)
    kt.post(Q, "root", post_root)
    kt.post(Q, "__neg__", post_unary("__neg__"))
    kt.post(Q, "__pos__", post_unary("__pos__"))
    kt.post(Q, "__abs__", post_unary("__abs__"))
    kt.post(Q, "__eq__", post_compare("__eq__"))
    kt.post(Q, "__lt__", post_compare("__lt__"))

    def post_convert(a, k, result, exc):
        q, target = a[0], a[1]
        ctx.count("postconditions/convert")
        same = dim(q.unit) == dim(target)
        if exc is None and not same:
            ctx.violation("C03:convert:incommensurable-accepted", f"{q!r} -> {target!r} returned {result!r}", {"q": repr(q), "target": repr(target)})
        if exc is not None and not isinstance(exc, (CNF, TypeError)):
            ctx.count(f"postcondition_saw_raise/convert/{type(exc).__name__}")
    kt.post(env.conv, "convert", post_convert)

    # ---- workload ---------------------------------------------------------------------------
    def rand_unit():
        f = pools.random_factors(rng, max_factors=rng.choice([1, 1, 2, 3]), max_exp=3, hostile=0.25, prefix_prob=0.3)
        return f, mdl.eval_real(pools.factors_term(f))

    class Money(Decimal):
        """a program's own Decimal type: an instance is a Decimal magnitude like any other"""

    def rand_q(kind=None):
        f, u = rand_unit()
        mag = pools.magnitude(rng, kind=kind or rng.choice(MAG_KINDS))
        if isinstance(mag, Decimal) and type(mag) is Decimal and rng.random() < 0.3:
            mag = Money(mag)
            ctx.count("magnitudes_of_a_decimal_subclass")
        return f, Q(mag, u)

    def other_dimension_unit(u):
        """a unit differing from u in at least one dimension exponent"""
        extra = rng.choice(["meter", "second", "gram", "kelvin", "coulomb"])
        return u * m.Unit._by_name[extra] ** rng.choice([1, -1, 2])

    n = ctx.scale(80000, 2_000_000)
    binops = [("mul", operator.mul), ("truediv", operator.truediv)]
    for i in range(n):
        ctx.count("evaluations")
        lf, left = rand_q()
        lk = mag_kind(left.magnitude)
        r = rng.random()
        try:
            if r < 0.45:
                name, fn = rng.choice(binops)
                rk = rng.choice(["Qint", "Qfloat", "Qdecimal", "int", "float", "decimal", "Unit"])
                if rk.startswith("Q"):
                    rf, right = rand_q(rk[1:])
                elif rk == "Unit":
                    rf, right = rand_unit()
                else:
                    rf, right = (), pools.magnitude(rng, kind=rk, allow_zero=False)
                reflected = rng.random() < 0.4 and rk in ("int", "float", "decimal", "Unit")
                cell = f"cells/{name}/{lk}/{rk}/{'reflected' if reflected else 'direct'}"
                ctx.count(cell)
                ctx.distinct((name, lk, rk, reflected, pools.shape_class(lf), pools.shape_class(rf) if rf else None))
                if isinstance(right, Q) and right.magnitude == 0 and name == "truediv":
                    continue
                if left.magnitude == 0 and reflected and name == "truediv":
                    continue
                res = fn(right, left) if reflected else fn(left, right)
                if reflected and name == "truediv" and rk in ("int", "float", "decimal"):
                    # number / quantity: the reflected method's post-condition carries the verdict
                    pass
                if i % 2500 == 3:
                    ctx.sample(f"{right!r} {name} {left!r}" if reflected else f"{left!r} {name} {right!r}")
            elif r < 0.6:
                e = rng.randint(-4, 4)
                ctx.count(f"cells/pow/{lk}/{e}")
                ctx.distinct(("pow", lk, e, pools.shape_class(lf)))
                if left.magnitude == 0 and e < 0:
                    continue
                left**e
            elif r < 0.7:
                d = rng.choice([-3, -2, -1, 0, 1, 2, 3])
                k = abs(d) or 1
                fu, u = rand_unit()
                q = Q(abs(left.magnitude) if rng.random() < 0.8 else left.magnitude, u**k if rng.random() < 0.7 else u)
                ctx.count(f"cells/root/{mag_kind(q.magnitude)}/{d}")
                ctx.distinct(("root", mag_kind(q.magnitude), d, pools.shape_class(fu)))
                if q.magnitude == 0 and d < 0:
                    continue
                try:
                    q.root(d)
                except m.FractionalDimensionError:
                    pass
                except (ValueError, ArithmeticError, TypeError):
                    ctx.count("root_magnitude_arithmetic_errors")
            elif r < 0.78:
                fnu = rng.choice([operator.neg, operator.pos, abs])
                ctx.count(f"cells/unary/{fnu.__name__}/{lk}")
                ctx.distinct(("unary", fnu.__name__, lk, pools.shape_class(lf)))
                fnu(left)
            elif r < 0.9:
                # commensurable + / - (same unit or convertible alternative)
                name, fn = rng.choice([("add", operator.add), ("sub", operator.sub)])
                alt = pools.same_dimension_alternative(rng, lf, compose_prob=0.2) if rng.random() < 0.6 else lf
                ru = mdl.eval_real(pools.factors_term(alt))
                right = Q(pools.magnitude(rng), ru)
                rk = mag_kind(right.magnitude)
                ctx.count(f"cells/{name}/{lk}/{rk}")
                ctx.distinct((name, lk, rk, pools.shape_class(lf), pools.shape_class(alt)))
                try:
                    fn(left, right)
                except CNF:
                    ctx.count("commensurable_not_convertible")
            else:
                # incommensurable: every rejecting operator
                right = Q(pools.magnitude(rng), other_dimension_unit(left.unit))
                if rng.random() < 0.1:
                    # magnitudes that are not numbers at all: dimensional analysis comes first (no Decimal NaN signal,
                    # no silent False from a float nan, no infinity shortcut)
                    special = rng.choice([Decimal("NaN"), float("nan"), float("inf"), Decimal("-Infinity"), Decimal("sNaN")])
                    if rng.random() < 0.5:
                        left = Q(special, left.unit)
                    else:
                        right = Q(special, right.unit)
                    ctx.count("incommensurable_cases_with_nan_or_infinite_magnitudes")
                opname = rng.choice(["add", "sub", "lt", "le", "gt", "ge", "in_unit", "eq", "ne", "level", "lt_level", "eq"])
                ctx.count(f"cells/incommensurable/{opname}")
                ctx.distinct(("incommensurable", opname, lk, pools.shape_class(lf)))
                case = {"left": repr(left), "right": repr(right), "op": opname}
                try:
                    if opname == "in_unit":
                        res = left.in_unit(right.unit)
                    elif opname in ("level", "lt_level"):
                        # a level is a conversion into the reference's unit with a logarithm after it: a length has no
                        # level in decibels above a watt, and does not order against one
                        lu = rng.choice([m.Decibel, m.Bel, m.Neper])[Q(rng.choice([1, 20, 0.5]), right.unit)]
                        pos = Q(abs(core.sf(left.magnitude)) or 1.0, left.unit) if core.sf(left.magnitude) == core.sf(left.magnitude) else left
                        if opname == "level":
                            res = rng.choice([lambda: pos.level(lu), lambda: lu.level(pos)])()
                        else:
                            lv = m.Level(rng.choice([3, 20.0, -6]), lu)
                            res = rng.choice([lambda: pos < lv, lambda: lv < pos, lambda: pos >= lv, lambda: sorted([pos, lv])])()
                    else:
                        res = getattr(operator, opname)(left, right)
                except (TypeError, CNF):
                    ctx.count("incommensurable_rejected")
                    if opname in ("eq", "ne"):
                        ctx.violation(f"C03:{opname}:raised-on-incommensurable", f"{left!r} {opname} {right!r} raised", case)
                    continue
                except Exception as e:
                    ctx.violation(f"C03:incommensurable:{opname}:raised-{type(e).__name__}", f"{left!r} {opname} {right!r} raised {type(e).__name__}: {e}", case)
                    continue
                if opname == "eq" and res is False or opname == "ne" and res is True:
                    ctx.count("incommensurable_unequal")
                else:
                    ctx.violation(f"C03:incommensurable:{opname}:yielded-a-value", f"{left!r} {opname} {right!r} = {res!r}", case)
        except (ZeroDivisionError, OverflowError, ArithmeticError) as e:
            ctx.count(f"magnitude_arithmetic/{type(e).__name__}")
        except TypeError as e:
            if r < 0.9 and not isinstance(locals().get("right") if (r < 0.45 or r >= 0.78) else None, m.Unit):
                # (a bare Unit as the other operand is refused for some operators by design; that is counted below)
                # every operand of these branches is a quantity, a unit or a plain number of a numeric type (a program's own
                # Decimal subclass included): the operation is defined, TypeError is not an answer
                ctx.violation("C03:raised-TypeError:numeric-operands", f"an operation on {left!r} (branch {('binary', 'pow', 'root', 'unary', 'add/sub')[sum(r >= x for x in (0.45, 0.6, 0.7, 0.78))]}"
                              f"{', other operand ' + repr(locals().get('right')) if r < 0.45 or r >= 0.78 else ''}) raised TypeError: {e}", {"left": repr(left)})
            else:
                ctx.count("type_errors_from_unsupported_operand_kinds")
        except Exception as e:  # e.g. an internal error of the conversion planner: C07's business, not C03's
            ctx.count(f"other_exceptions_from_the_library/{type(e).__name__}")

    # ---- int magnitudes a Decimal operand meets that are unusual as ints: more digits than str() is allowed to write
    # (sys.get_int_max_str_digits, 4300 by default), and bool (a subclass of int): the result is a quantity of the right
    # dimension with a Decimal magnitude, as for every other int
    import sys as _sys
    U_ = m.Unit._by_name
    odd_ints = [10 ** 5000, -(10 ** 4400) + 7, 3 ** 12000, True, False, 10 ** 4299]
    if hasattr(_sys, "get_int_max_str_digits"):
        ctx.extra["int_max_str_digits"] = _sys.get_int_max_str_digits()
    for big in odd_ints:
        for dec in (Decimal(2), Decimal("0.5"), Money("12.50"), Decimal("-3E+2")):
            for opname, fn in binops + [("add", operator.add), ("sub", operator.sub)]:
                for order in ("int-first", "decimal-first"):
                    for plain in (False, True):
                        ua, ub = U_["meter"], (U_["meter"] if opname in ("add", "sub") else U_["second"])
                        a, b = Q(big, ua), (dec if plain and opname in ("mul", "truediv") else Q(dec, ub))
                        if plain and opname in ("add", "sub"):
                            continue
                        if order == "decimal-first":
                            a, b = (Q(dec, ub), (big if plain else Q(big, ua)))
                        if opname == "truediv" and (b is False or getattr(b, "magnitude", 1) == 0):
                            continue
                        ctx.count("evaluations")
                        ctx.count("unusual_ints_against_decimals")
                        ctx.distinct(("odd-int", type(big).__name__, len(str(abs(int(big))) if abs(int(big)) < 10 ** 4000 else "long") , opname, order, plain))
                        case = {"op": opname, "order": order, "int": "bool " + str(big) if isinstance(big, bool) else f"an int of {int(big).bit_length()} bits", "decimal": repr(dec)}
                        try:
                            res = fn(a, b)
                        except (ZeroDivisionError, OverflowError) as e:
                            ctx.count(f"unusual_ints_against_decimals_raised/{type(e).__name__}")
                            continue
                        except Exception as e:
                            ctx.violation(f"C03:unusual-int-with-decimal:raised-{type(e).__name__}", f"{opname} ({order}) of {case['int']} and {dec!r} raised {type(e).__name__}: {str(e)[:120]}", case)
                            continue
                        want_dim = {"mul": ua.dimension * (m.Number if isinstance(b, (int, Decimal)) else b.unit.dimension) if order == "int-first" else a.unit.dimension * (m.Number if plain else ua.dimension),
                                    "truediv": None, "add": ua.dimension, "sub": ua.dimension}[opname]
                        if not isinstance(res, Q) or not isinstance(res.magnitude, Decimal) or (want_dim is not None and res.unit.dimension is not want_dim):
                            ctx.violation("C03:unusual-int-with-decimal:wrong-result", f"{opname} ({order}) of {case['int']} and {dec!r} = a {type(getattr(res, 'magnitude', res)).__name__} magnitude in {getattr(res, 'unit', None)}", case)

    # every cell of the operator x operand-kind table must have been exercised
    missing = []
    for name, _ in binops:
        for lk in MAG_KINDS:
            for rk in ["Qint", "Qfloat", "Qdecimal", "int", "float", "decimal", "Unit"]:
                if ctx.get(f"cells/{name}/{lk}/{rk}/direct") == 0:
                    missing.append(f"{name}/{lk}/{rk}")
    if missing and ctx.nshards == 1:
        ctx.not_reached(f"table cells never exercised: {missing[:5]}")
    for e in ctx.known:
        if e.get("status") == "known":
            ctx.witness(e["key"], ctx.known_hits.get(e["key"], 0) > 0)
    ctx.require("postconditions/__mul__", 100)
    ctx.require("postconditions/__add__", 50)
