"""C15 — pickle, copy and JSON round-trip every value, preserving singleton identity."""
from __future__ import annotations

import base64
import copy
import json
import pickle
import subprocess
import sys
from decimal import Decimal
from fractions import Fraction

from .. import core, kit, model, oracle, synth
from . import c13

ID = "C15"
LEVEL = "exploration"
RULE = ("every registered dimension, prefix and unit (full sweep) and sampled compound/prefixed units from C13's space x "
        "codecs {pickle protocols 2-5, cloudpickle, copy, deepcopy, MeasuredJSONEncoder/Decoder, codecs_installed(), "
        "pydantic TypeAdapter python + JSON mode}; quantities with int/float/Decimal magnitudes additionally through the "
        "SQL composite form; the same blobs loaded in a *fresh* interpreter; dump -> name/alias -> load histories, and decode-a-text -> declare-that-symbol -> round-trip histories.  "
        "distinct = (codec, object) resp. (codec, unit shape class, magnitude type); non-trivial = object is not "
        "Number / IdentityPrefix / One"
        " Also: process-wide json install(), decoding options on the installed route, one document validated twice, quantities with a prefix of the user's own, dump -> Dimension.define -> load, and one shard with the integer-string limit disabled."
        " Codecs include documents edited by the caller before re-encoding and decoders with parse_float options; units whose decimal and binary prefixes cancelled are included."
        " Decimal and float inf/-inf/nan magnitudes through every codec (type and value, NaN-ness for NaNs).")
ASSUMPTIONS = [
    "pickle protocols 0 and 1 are out of scope: CPython refuses them for __slots__ classes without __getstate__",
    "quantities are compared by magnitude type + value and by the unit's identity (pickle/copy) or oracle size and "
    "dimension (JSON forms, SQL composite), not with the library's ==",
    "quantity JSON and the SQL composite store str(unit); where C13 has a known finding for that string the event is "
    "attributed to C13's mechanism key and not counted again",
]
SHARDS = {"quick": 2, "thorough": 8}
R9 = Fraction(1, 10**9)

LOADER = r"""
import sys, json, base64, pickle
sys.path.insert(0, sys.argv[1])
from vmon import boot, model
b = boot.boot()
mdl = model.Model(b)
import cloudpickle
from measured.json import MeasuredJSONDecoder
out = []
for item in json.load(sys.stdin):
    kind, codec, term, blob = item["kind"], item["codec"], item["term"], item["blob"]
    try:
        if kind == "unit":
            fresh = mdl.eval_real(term)
        elif kind == "prefix":
            fresh = b.measured.Prefix._by_name[term]
        else:
            fresh = b.measured.Dimension._by_name[term]
        names_before = (getattr(fresh, "names", None), getattr(fresh, "symbols", None), getattr(fresh, "name", None), getattr(fresh, "symbol", None))
        if codec == "json":
            loaded = json.loads(blob, cls=MeasuredJSONDecoder)
        else:
            loaded = pickle.loads(base64.b64decode(blob))
        names_after = (getattr(fresh, "names", None), getattr(fresh, "symbols", None), getattr(fresh, "name", None), getattr(fresh, "symbol", None))
        out.append({"identical": loaded is fresh, "names_kept": names_before == names_after, "repr": repr(loaded)[:200]})
    except Exception as e:
        out.append({"raise": type(e).__name__, "msg": str(e)[:200]})
print(json.dumps(out))
"""


NON_FINITE_KEY = "C15:non-finite-float-magnitude-through-pydantic-json-comes-back-as-None"

def run(ctx):
    # the last shard runs in a process whose integer-string-conversion limit was changed, as programs that handle
    # big numbers do (0 = no limit, the usual answer to "Exceeds the limit (4300 digits)"): decoding must not care
    if ctx.nshards > 1 and ctx.shard >= max(1, ctx.nshards - 2) and hasattr(sys, "set_int_max_str_digits"):
        limit = 0 if ctx.shard == ctx.nshards - 1 else ctx.rng.choice([100000, 640])
        sys.set_int_max_str_digits(limit)
        ctx.count("shards_with_changed_int_max_str_digits")
        ctx.cov["int_max_str_digits"] = limit
    env = kit.Env(ctx)
    m, mdl, pools, rng, orc = env.m, env.mdl, env.pools, ctx.rng, env.orc
    Unit, Prefix, Dimension, Q = m.Unit, m.Prefix, m.Dimension, m.Quantity
    import cloudpickle
    from pydantic import TypeAdapter

    from measured.json import MeasuredJSONDecoder, MeasuredJSONEncoder, codecs_installed

    shipped_dimension_names = sorted(Dimension._by_name)
    c13_known = {e["key"] for e in core.load_known("C13") if e.get("status") == "known"}
    adapters = {cls: TypeAdapter(cls) for cls in (Unit, Prefix, Dimension, Q)}

    def via_codecs_installed(x):
        with codecs_installed():
            return json.loads(json.dumps(x))

    def via_codecs_installed_with_options(x):
        # the installed route with ordinary decoding options (they make the standard library build a decoder of its own)
        with codecs_installed():
            text = json.dumps(x)
            return rng.choice([lambda: json.loads(text, strict=False), lambda: json.loads(text, parse_constant=float),
                               lambda: json.loads(text, parse_int=int), lambda: json.load(__import__("io").StringIO(text))])()

    def via_same_document_twice(x):
        # one in-memory document validated twice (a cached configuration, a retry): the first reading must not use it up
        import copy as _copy
        doc = adapters[type(x)].dump_python(x, mode="json")
        keep = _copy.deepcopy(doc)
        first = adapters[type(x)].validate_python(doc)
        second = adapters[type(x)].validate_python(doc)
        if doc != keep:
            raise AssertionError(f"decoding altered the caller's document: {str(doc)[:120]}")
        if isinstance(x, Q):
            return second if first == second else first
        return second if first is second else None

    def via_edited_document(x):
        # the caller takes the object's document (obj.__json__(), the encoder's default(), pydantic's python dump) and edits
        # its own copy - strips the tag, renames a field, empties the nested documents; what the library writes for the
        # object afterwards is what it wrote before
        def wreck(d, depth=0):
            if isinstance(d, dict):
                for v in list(d.values()):
                    wreck(v, depth + 1)
                d.pop("__measured__", None)
                if "name" in d:
                    d["name"] = "edited by the caller"
                d["note"] = "the caller's own field"
            elif isinstance(d, list):
                for v in d:
                    wreck(v, depth + 1)
                del d[:]

        for take in (lambda: x.__json__(), lambda: MeasuredJSONEncoder().default(x), lambda: adapters[type(x)].dump_python(x, mode="json")):
            try:
                doc = take()
            except Exception:
                continue
            wreck(doc)
        return json.loads(json.dumps(x, cls=MeasuredJSONEncoder), cls=MeasuredJSONDecoder)

    def via_install(x):
        # the process-wide switch: measured.json.install() ... uninstall()
        from measured import json as mjson
        mjson.install()
        try:
            return json.loads(json.dumps(x))
        finally:
            mjson.uninstall()

    codecs = {
        # the two oldest protocols are refused today (TypeError: a class with __slots__ and no __getstate__); refused is fine,
        # a twin is not
        "pickle0": lambda x: pickle.loads(pickle.dumps(x, 0)),
        "pickle1": lambda x: pickle.loads(pickle.dumps(x, 1)),
        "pickle2": lambda x: pickle.loads(pickle.dumps(x, 2)),
        "pickle3": lambda x: pickle.loads(pickle.dumps(x, 3)),
        "pickle4": lambda x: pickle.loads(pickle.dumps(x, 4)),
        "pickle5": lambda x: pickle.loads(pickle.dumps(x, 5)),
        "cloudpickle": lambda x: cloudpickle.loads(cloudpickle.dumps(x)),
        "copy": copy.copy,
        "deepcopy": copy.deepcopy,
        "json": lambda x: json.loads(json.dumps(x, cls=MeasuredJSONEncoder), cls=MeasuredJSONDecoder),
        "codecs_installed": via_codecs_installed,
        "json-install": via_install,
        # decoder options that belong to the numbers of the caller's own data: floats read exactly (parse_float=Decimal) or as
        # usual (parse_float=float), integers as usual - an int magnitude stays an int, a measured object stays what it is
        "json-parse_float-Decimal": lambda x: json.loads(json.dumps(x, cls=MeasuredJSONEncoder), cls=MeasuredJSONDecoder, parse_float=Decimal),
        "json-parse_float-float": lambda x: json.loads(json.dumps(x, cls=MeasuredJSONEncoder), cls=MeasuredJSONDecoder, parse_float=float, parse_int=int),
        "json-after-the-caller-edited-an-earlier-document": via_edited_document,
        "codecs_installed-options": via_codecs_installed_with_options,
        "pydantic-same-document-twice": via_same_document_twice,
        "pydantic-python": lambda x: adapters[type(x)].validate_python(adapters[type(x)].dump_python(x)),
        "pydantic-json": lambda x: adapters[type(x)].validate_python(json.loads(adapters[type(x)].dump_json(x), cls=MeasuredJSONDecoder)),
        "pydantic-json-mode-python": lambda x: adapters[type(x)].validate_python(adapters[type(x)].dump_python(x, mode="json")),
    }
    identity_codecs = list(codecs)

    def ident(x):
        return (getattr(x, "names", None), getattr(x, "symbols", None), getattr(x, "name", None), getattr(x, "symbol", None))

    def float_inside(x):
        """a measured object whose own document contains a float (the exponent of a mixed SI/IEC prefix): a caller who asks
        for floats to be read as Decimals gets that number as a Decimal too - another prefix, by the caller's own choice"""
        p_ = getattr(getattr(x, "unit", x), "prefix", x if isinstance(x, Prefix) else None)
        return isinstance(getattr(p_, "exponent", None), float)

    def roundtrip_singleton(kind, label, x, trivial):
        for cname, fn in codecs.items():
            if cname == "json-parse_float-Decimal" and float_inside(x):
                ctx.count("objects_with_a_float_inside_not_judged_under_parse_float_Decimal")
                continue
            ctx.count("evaluations")
            ctx.count(f"objects_x_codecs/{kind}/{cname}")
            ctx.distinct((cname, kind, label), not trivial)
            before = ident(x)
            try:
                y = fn(x)
            except TypeError as e:
                if cname in ("pickle0", "pickle1"):
                    ctx.count(f"oldest_pickle_protocols_refused/{kind}")
                    continue
                shape = "compound-unit" if kind == "unit" and len(x.factors) > 1 or (kind == "unit" and next(iter(x.factors)) is not x) else kind
                ctx.violation(f"C15:{cname}:raised-{type(e).__name__}:{shape}", f"{cname} round trip of {label} raised {type(e).__name__}: {str(e)[:150]}", {"kind": kind, "object": label, "codec": cname})
                continue
            except Exception as e:
                shape = "compound-unit" if kind == "unit" and len(x.factors) > 1 or (kind == "unit" and next(iter(x.factors)) is not x) else kind
                ctx.violation(f"C15:{cname}:raised-{type(e).__name__}:{shape}", f"{cname} round trip of {label} raised {type(e).__name__}: {str(e)[:150]}", {"kind": kind, "object": label, "codec": cname})
                continue
            if y is not x:
                ctx.violation(f"C15:{cname}:not-identical:{kind}", f"{cname} round trip of {label} returned a different object {y!r}", {"kind": kind, "object": label, "codec": cname})
            if ident(x) != before:
                ctx.violation(f"C15:{cname}:names-changed:{kind}", f"{cname} round trip of {label} changed names/symbols from {before} to {ident(x)}", {"kind": kind, "object": label, "codec": cname})

    # ---- full sweep of the registries (sharded) ----------------------------------------------------
    dims = sorted({id(d): d for d in Dimension._known.values()}.values(), key=lambda d: tuple(d.exponents))
    prefixes = sorted({id(p): p for p in Prefix._known.values()}.values(), key=lambda p: (p.base, core.sf(p.exponent)))
    units = [pools.units[n] for n in pools.unit_names]
    for i, d in enumerate(dims):
        if i % ctx.nshards == ctx.shard:
            roundtrip_singleton("dimension", d.name or str(d.exponents), d, d is m.Number)
    for i, p in enumerate(prefixes):
        if i % ctx.nshards == ctx.shard:
            roundtrip_singleton("prefix", p.name or f"{p.base}^{p.exponent}", p, p is m.IdentityPrefix)
    for i, u in enumerate(units):
        if i % ctx.nshards == ctx.shard:
            roundtrip_singleton("unit", u.name, u, u is m.One)
    ctx.cov["exhaustive_over_registered_objects"] = True
    ctx.count("registered/dimensions", len(dims) if ctx.shard == 0 else 0)
    ctx.count("registered/prefixes", len(prefixes) if ctx.shard == 0 else 0)
    ctx.count("registered/units", len(units) if ctx.shard == 0 else 0)

    # ---- units in which decimal and binary prefixes have cancelled ((G*bit)*byte/(G*byte), (k*m)*(Gi*B)/((Gi*m)*(k*B))): what
    # is left of the prefix is 10**1.8e-15 or 2**-4e-16 - not the identity, and the unit is not the unit without it
    if ctx.shard == 0:
        si_p = [pools.prefixes[n_] for n_ in ("giga", "kilo", "mega", "milli", "tera") if n_ in pools.prefixes]
        iec_p = [pools.prefixes[n_] for n_ in ("gibi", "kibi", "mebi") if n_ in pools.prefixes]
        bit_, byte_, meter_ = pools.units.get("bit"), pools.units.get("byte"), pools.units["meter"]
        if bit_ is not None and byte_ is not None:
            for sp in si_p:
                for bp in iec_p:
                    for label_, make in ((f"({sp.name}*bit)*byte/({sp.name}*byte)", lambda: (sp * bit_) * byte_ / (sp * byte_)),
                                         (f"({sp.name}*m)*({bp.name}*B)/(({bp.name}*m)*({sp.name}*B))", lambda: (sp * meter_) * (bp * byte_) / ((bp * meter_) * (sp * byte_))),
                                         (f"({sp.name}*{bp.name}*m)/({bp.name}*m)/{sp.name}", lambda: ((sp * bp) * meter_) / (bp * meter_) / (sp * m.One))):
                        try:
                            u_ = make()
                        except Exception:
                            continue
                        ctx.count("units_with_a_cancelled_mixed_base_prefix")
                        roundtrip_singleton("unit", label_, u_, False)

    # ---- compound / prefixed units and quantities ---------------------------------------------------
    n = ctx.scale(1500, 60000)
    cross = []
    for i in range(n):
        factors = pools.random_factors(rng, max_factors=3, max_exp=3, hostile=0.15, prefix_prob=0.5)
        term = pools.factors_term(factors)
        try:
            u = mdl.eval_real(term)
        except Exception:
            continue
        roundtrip_singleton("unit", model.show(term), u, False)
        if len(cross) < (60 if ctx.tier == "quick" else 600):
            cross.append(("unit", term, u))
        mag = rng.choice([
            rng.randint(-10**6, 10**6), 0, -1, 2**60, 10**30, -(2**63) - 1,                              # int: small, zero, beyond double precision
            round(rng.uniform(-1e5, 1e5), 4), 1e-7, 5.0, -0.0, 1e22, 123456789.125,                      # float: fractional, integral, signed zero
            Decimal("12.50"), Decimal(repr(round(rng.uniform(-100, 100), 3))), Decimal("5"), Decimal(-12),  # Decimal: trailing zero, integral
            Decimal(1000), Decimal("1E+3"), Decimal("0.10"), Decimal("-0"), Decimal("123456789012345678901234567890.5"),
        ])
        q = Q(mag, u)
        mkind = type(mag).__name__
        ustr_class = None
        for cname, fn in list(codecs.items()) + [("sql-composite", lambda x: Q(*x.__composite_values__()))]:
            ctx.count("evaluations")
            ctx.count(f"quantities_x_codecs/{cname}/{mkind}")
            ctx.distinct((cname, "quantity", pools.shape_class(factors), mkind))
            case = {"quantity": [model.enc_mag(mag), term], "codec": cname}
            uses_unit_str = cname in ("json", "json-parse_float-Decimal", "json-parse_float-float", "json-after-the-caller-edited-an-earlier-document", "codecs_installed", "json-install", "codecs_installed-options", "pydantic-same-document-twice", "pydantic-python", "pydantic-json", "pydantic-json-mode-python", "sql-composite")
            if cname == "pydantic-python":
                uses_unit_str = False  # python mode hands the Quantity object through
            try:
                y = fn(q)
            except Exception as e:
                if cname in ("pickle0", "pickle1") and isinstance(e, TypeError):
                    ctx.count("oldest_pickle_protocols_refused/quantity")
                    continue
                if uses_unit_str:
                    ustr_class = ustr_class or c13.classify_unit_str(m, u)
                    if ustr_class in c13_known:
                        ctx.count(f"attributed_to_C13/{ustr_class.split(':', 1)[1]}")
                        continue
                ctx.violation(f"C15:{cname}:quantity-raised-{type(e).__name__}", f"{cname} round trip of {q!r} raised {type(e).__name__}: {str(e)[:150]}", case)
                continue
            if not isinstance(y, Q):
                ctx.violation(f"C15:{cname}:quantity-wrong-type", f"{cname} round trip of {q!r} returned {y!r}", case)
                continue
            identical_unit_required = cname.startswith("pickle") or cname in ("cloudpickle", "copy", "deepcopy", "pydantic-python")
            if identical_unit_required:
                if y.unit is not u or type(y.magnitude) is not type(mag) or y.magnitude != mag or str(y.magnitude) != str(mag):
                    ctx.violation(f"C15:{cname}:quantity-changed", f"{cname} round trip of {q!r} returned {y!r}", case)
                continue
            # text forms: the unit travels as str(unit) and may legitimately come back as an equal unit with the
            # magnitude scaled (prefix folding); judge by SI value and magnitude type
            # the magnitude keeps its type; only prefix folding by str(unit) may turn an int into a float
            ok_type = type(y.magnitude) is type(mag) or (type(mag) is int and type(y.magnitude) is float and y.unit is not u)
            if cname == "json-parse_float-Decimal" and type(mag) is float:
                ok_type = isinstance(y.magnitude, (float, Decimal))   # the caller asked for floats to be read as Decimals
            same = False
            if orc.knows(u) and orc.knows(y.unit) and mdl.dim_of_unit(u) == mdl.dim_of_unit(y.unit):
                a, b = orc.si_value(q.magnitude, q.unit), orc.si_value(y.magnitude, y.unit)
                ma, mb = (a[0] + a[1]) / 2, (b[0] + b[1]) / 2
                same = a[2] == b[2] and abs(ma - mb) <= max(abs(ma), abs(mb)) * R9
            if not same:
                ustr_class = ustr_class or c13.classify_unit_str(m, u, parsed_to=y.unit)
                if ustr_class in c13_known:
                    ctx.count(f"attributed_to_C13/{ustr_class.split(':', 1)[1]}")
                    continue
                ctx.violation(f"C15:{cname}:quantity-value-changed", f"{cname} round trip of {q!r} returned {y!r}", case)
            elif not ok_type:
                ctx.violation(f"C15:{cname}:quantity-magnitude-type-changed", f"{cname} round trip of {q!r} returned {y!r}", case)
        if i % 100 == 5:
            ctx.sample({"unit": model.show(term), "quantity": repr(q)[:120], "json": json.dumps(q, cls=MeasuredJSONEncoder)[:160] if not isinstance(mag, Decimal) or True else ""})

    # ---- magnitudes that are not finite: a Decimal infinity stays a Decimal infinity, a float one a float one, a NaN a NaN
    # of its type (two NaNs are never equal, so the type and the NaN-ness are what can be compared) ------------------
    import math
    U_ = m.Unit._by_name
    for u in (U_["meter"], m.Prefix._by_name["kilo"] * U_["meter"], U_["meter"] / U_["second"], U_["newton"]):
        for mag in (Decimal("Infinity"), Decimal("-Infinity"), float("inf"), float("-inf"), Decimal("NaN"), float("nan")):
            q = Q(mag, u)
            for cname, fn in codecs.items():
                ctx.count("evaluations")
                ctx.count(f"non_finite_magnitudes_x_codecs/{type(mag).__name__}")
                ctx.distinct((cname, "non-finite", str(mag), str(u)))
                case = {"quantity": repr(q), "codec": cname}
                # the known finding is stated here, not asked of the library: a *float* that is not finite, through one of the
                # three codecs that let pydantic write the JSON, comes back as a quantity whose magnitude is None
                through_pydantic_json = type(mag) is float and cname in ("pydantic-json", "pydantic-json-mode-python", "pydantic-same-document-twice")
                try:
                    y = fn(q)
                except Exception as e:
                    if cname in ("pickle0", "pickle1") and isinstance(e, TypeError):
                        continue
                    if through_pydantic_json and isinstance(e, TypeError) and "NoneType" in str(e):
                        ctx.violation(NON_FINITE_KEY, f"{cname} round trip of {q!r}: the magnitude was written as null and read back as None ({e})", case)
                        continue
                    ctx.violation(f"C15:{cname}:non-finite-quantity-raised-{type(e).__name__}", f"{cname} round trip of {q!r} raised {type(e).__name__}: {str(e)[:150]}", case)
                    continue
                ym = getattr(y, "magnitude", None)
                if through_pydantic_json and isinstance(y, Q) and ym is None:
                    ctx.violation(NON_FINITE_KEY, f"{cname} round trip of {q!r} returned {y!r}: the magnitude was written as null", case)
                    continue
                if cname == "json-parse_float-Decimal" and type(mag) is float and isinstance(ym, Decimal):
                    ym = float(ym)     # the caller asked for floats to be read as Decimals
                nan = mag != mag
                if not isinstance(y, Q) or type(ym) is not type(mag) or (nan and ym == ym) or (not nan and ym != mag):
                    ctx.violation(f"C15:{cname}:non-finite-magnitude-changed:{type(mag).__name__}", f"{cname} round trip of {q!r} returned {y!r}", case)

    # ---- dump -> name/alias -> load, in one process ---------------------------------------------------
    for k in range(6 if ctx.tier == "quick" else 60):
        base = Unit.define(m.Length, f"zqc15s{ctx.shard}k{k}", f"zqc15s{ctx.shard}k{k}")
        anon = base ** (3 + k % 3) / m.Unit._by_name["second"]
        blobs = {p: pickle.dumps(anon, p) for p in (2, 3, 4, 5)}
        blobs["cloudpickle"] = cloudpickle.dumps(anon)
        n1, s1 = f"zqc15named{ctx.shard}k{k}", f"zqc15N{ctx.shard}k{k}"
        Unit.derive(anon, n1, s1)
        for pname, blob in blobs.items():
            ctx.count("evaluations")
            ctx.count("histories/dump-name-load/unit")
            ctx.distinct(("dump-name-load", "unit", pname, k))
            y = pickle.loads(blob)
            if y is not anon:
                ctx.violation("C15:stale-blob:not-identical", f"loading a blob dumped before naming returned another object", {"protocol": pname})
            if n1 not in anon.names or Unit._by_name.get(n1) is not anon or s1 not in anon.symbols:
                ctx.violation("C15:stale-blob-reverts-names:unit", f"pickle {pname}: dumps(u); Unit.derive(u, {n1!r}); loads(blob) left u.names = {anon.names}", {"protocol": pname})
                anon.names, anon.symbols = (n1,), (s1,)
        d_anon = m.Length ** (20 + k + 10 * ctx.shard)
        if not d_anon.name:
            blob = pickle.dumps(d_anon)
            dn = f"zqc15dim{ctx.shard}k{k}"
            Dimension.derive(d_anon, dn)
            pickle.loads(blob)
            ctx.count("histories/dump-name-load/dimension")
            if d_anon.name != dn or Dimension._by_name.get(dn) is not d_anon:
                ctx.violation("C15:stale-blob-reverts-names:dimension", f"dumps(d); Dimension.derive(d, {dn!r}); loads(blob) left d.name = {d_anon.name!r}", {})
                d_anon.name = dn
        p_anon = Prefix(17, 50 + k + 100 * ctx.shard)
        blob = pickle.dumps(p_anon)
        pn = f"zqc15p{ctx.shard}k{k}"
        try:
            Prefix(17, 50 + k + 100 * ctx.shard, name=pn, symbol=pn)
        except Exception:
            pass
        pickle.loads(blob)
        ctx.count("histories/dump-name-load/prefix")
        if Prefix._by_name.get(pn) is p_anon and p_anon.name != pn:
            ctx.violation("C15:stale-blob-reverts-names:prefix", f"dumps(p); Prefix(..., name={pn!r}); loads(blob) left p.name = {p_anon.name!r}", {})
            p_anon.name = p_anon.symbol = pn

    # ---- decode -> declare that very symbol -> round trip, in one process ------------------------------
    # a document decoded earlier in the process wrote a unit as text that resolved as prefix + symbol; a unit
    # with exactly that symbol is declared afterwards; a quantity of the new unit must still round-trip
    abc = "abcdefghijklmnopqrstuvwxyz"
    qcodecs = ("json", "codecs_installed", "json-install", "pydantic-python", "pydantic-json", "pydantic-json-mode-python")
    for k in range(4 if ctx.tier == "quick" else 40):
        sym = "zqv" + abc[ctx.shard % 26] + abc[k % 26] + abc[k // 26]
        base = Unit.define(m.Length, f"zqc15v{ctx.shard}k{k}", sym)
        pfx = pools.prefixes[rng.choice(["kilo", "milli", "mega", "hecto", "kibi"])]
        text = pfx.symbol + sym
        if text in Unit._by_symbol:
            continue
        decoders = {
            "json": lambda t: json.loads(json.dumps({"__measured__": "Quantity", "magnitude": 2, "unit": t}), cls=MeasuredJSONDecoder),
            "composite": lambda t: Q(2, t),
            "pydantic": lambda t: adapters[Q].validate_python({"magnitude": 2, "unit": t}),
        }
        how = rng.choice(sorted(decoders))
        try:
            early = decoders[how](text)
        except Exception as e:
            ctx.count(f"histories/decode-declare-roundtrip/early-decode-raised/{type(e).__name__}")
            continue
        if early.unit is not pfx * base:
            ctx.violation("C15:quantity-text-decoded-to-another-unit", f"{how}: unit text {text!r} decoded to {early.unit!r}", {"text": text})
        nu = Unit.define(m.Length, f"zqc15w{ctx.shard}k{k}", text)
        for mag in (3, 2.5, Decimal("1.25")):
            q = Q(mag, nu)
            outs = {c: codecs[c] for c in qcodecs}
            outs["composite"] = lambda x: Q(*x.__composite_values__())
            for cname, f in outs.items():
                ctx.count("evaluations")
                ctx.count("histories/decode-declare-roundtrip")
                ctx.distinct(("decode-declare-roundtrip", how, cname, type(mag).__name__, k))
                try:
                    y = f(q)
                except Exception as e:
                    ctx.violation(f"C15:{cname}:raised-{type(e).__name__}:quantity", f"{cname} round trip of {q!r} raised {e}", {"text": text, "earlier": how})
                    continue
                if not (isinstance(y, Q) and y.unit is nu and y == q and type(y.magnitude) is type(mag)):
                    ctx.violation(f"C15:{cname}:quantity-value-changed", f"after {text!r} was decoded (by {how}) before the unit with that symbol was declared: "
                                  f"{cname} round trip of {q!r} returned {y!r}", {"text": text, "earlier": how})

    # ---- parse something prefixed -> declare a prefix of one's own (anonymous first or not) -> round trip ----------
    # a user's prefix is a registered prefix like any other: quantities written with it go through the text codecs
    for k in range(4 if ctx.tier == "quick" else 40):
        try:
            Q(2, rng.choice(["km", "ms", "MiB", "kg/s"]))   # the parser has resolved prefixed symbols before
        except Exception:
            pass
        e = 41 + (k + 50 * ctx.shard) % 240   # 2.5 * 10**e must stay a float
        how = rng.choice(["anonymous-first-by-arithmetic", "anonymous-first-by-constructor", "fresh"])
        if how == "anonymous-first-by-arithmetic":
            (2 * (Prefix(10, e - 1) * m.Unit._by_name["meter"])) * Q(3, Prefix(10, 1) * m.One)
            Prefix(10, e - 1) * Prefix(10, 1)
        elif how == "anonymous-first-by-constructor":
            Prefix(10, e)
        psym = "Zq" + abc[ctx.shard % 26] + abc[k % 26]
        try:
            mine = Prefix(10, e, name=f"zqc15prefix{ctx.shard}k{k}", symbol=psym)
        except Exception as ex:
            ctx.count(f"histories/own-prefix/declaration-raised/{type(ex).__name__}")
            continue
        for uname in ("meter", "second", "gram"):
            unit = mine * m.Unit._by_name[uname]
            for mag in (3, 2.5, Decimal("1.25")):
                q = Q(mag, unit)
                outs = {c: codecs[c] for c in qcodecs}
                outs["composite"] = lambda x: Q(*x.__composite_values__())
                for cname, f in outs.items():
                    ctx.count("evaluations")
                    ctx.count("histories/own-prefix-roundtrip")
                    ctx.distinct(("own-prefix-roundtrip", how, cname, uname, type(mag).__name__))
                    try:
                        y = f(q)
                    except Exception as ex:
                        ctx.violation(f"C15:{cname}:raised-{type(ex).__name__}:quantity", f"{cname} round trip of {q!r} (prefix {psym!r} declared at run time, {how}) raised {ex}", {"prefix": psym, "how": how})
                        continue
                    if not (isinstance(y, Q) and y.unit is unit and y == q and type(y.magnitude) is type(mag)):
                        ctx.violation(f"C15:{cname}:quantity-value-changed", f"{cname} round trip of {q!r} (prefix {psym!r} declared at run time, {how}) returned {y!r}", {"prefix": psym, "how": how})

    # ---- cross-process: load in a fresh interpreter ------------------------------------------------------
    if ctx.shard == 0:
        items = []
        for kind, term, obj in cross:
            for p in (2, 5):
                items.append({"kind": "unit", "codec": f"pickle{p}", "term": term, "blob": base64.b64encode(pickle.dumps(obj, p)).decode()})
            items.append({"kind": "unit", "codec": "cloudpickle", "term": term, "blob": base64.b64encode(cloudpickle.dumps(obj)).decode()})
            try:
                items.append({"kind": "unit", "codec": "json", "term": term, "blob": json.dumps(obj, cls=MeasuredJSONEncoder)})
            except Exception:
                pass
        for name in pools.prefix_names:
            items.append({"kind": "prefix", "codec": "pickle5", "term": name, "blob": base64.b64encode(pickle.dumps(pools.prefixes[name], 5)).decode()})
            items.append({"kind": "prefix", "codec": "json", "term": name, "blob": json.dumps(pools.prefixes[name], cls=MeasuredJSONEncoder)})
        for name in shipped_dimension_names:
            items.append({"kind": "dimension", "codec": "pickle5", "term": name, "blob": base64.b64encode(pickle.dumps(Dimension._by_name[name], 5)).decode()})
            items.append({"kind": "dimension", "codec": "json", "term": name, "blob": json.dumps(Dimension._by_name[name], cls=MeasuredJSONEncoder)})
        try:
            p = subprocess.run([sys.executable, "-B", "-c", LOADER, core.VERIF], input=json.dumps(items), capture_output=True, text=True, timeout=300, env=synth.child_env())
            results = json.loads(p.stdout)
        except Exception as e:
            ctx.not_reached(f"cross-process loader failed: {e}")
            results = []
        for item, r in zip(items, results):
            ctx.count("evaluations")
            ctx.count(f"cross_process_loads/{item['kind']}/{item['codec']}")
            ctx.distinct(("cross", item["kind"], item["codec"], str(item["term"])))
            label = model.show(item["term"]) if item["kind"] == "unit" else item["term"]
            if "raise" in r:
                ctx.violation(f"C15:cross-process:{item['codec']}:raised-{r['raise']}:{item['kind']}", f"loading {label} in a fresh process raised {r['raise']}: {r['msg']}", {"item": item["term"], "codec": item["codec"]})
            elif not r["identical"]:
                ctx.violation(f"C15:cross-process:{item['codec']}:not-identical:{item['kind']}", f"{label} loaded in a fresh process is not the freshly evaluated object: {r['repr']}", {"item": item["term"], "codec": item["codec"]})
            elif not r["names_kept"]:
                ctx.violation(f"C15:cross-process:{item['codec']}:names-changed:{item['kind']}", f"loading {label} in a fresh process changed its names", {"item": item["term"], "codec": item["codec"]})
    # ---- dump -> declare a new fundamental dimension -> load, in one process ----------------------------
    # Dimension.define re-keys every interned dimension (one more exponent); what was serialised before must
    # still come back as the identical objects
    # (last, so that the cross-process loads above ran between processes with the same fundamental dimensions)
    if ctx.shard == 0:
        sample_units = [pools.units[nm] for nm in rng.sample(pools.unit_names, min(25, len(pools.unit_names)))]
        sample_units += [sample_units[0] ** 2 / sample_units[1], pools.prefixes["kilo"] * sample_units[2] ** -1]
        sample_dims = [Dimension._by_name[nm] for nm in shipped_dimension_names] + [m.Length ** 7 / m.Time ** 3]
        stale = []
        for obj in sample_dims + sample_units + [Q(3, sample_units[-2]), Q(Decimal("2.5"), sample_units[0])]:
            for cname in ("pickle2", "pickle5", "cloudpickle", "json"):
                try:
                    if cname == "json":
                        blob = json.dumps(obj, cls=MeasuredJSONEncoder)
                    elif cname == "cloudpickle":
                        blob = cloudpickle.dumps(obj)
                    else:
                        blob = pickle.dumps(obj, int(cname[-1]))
                    stale.append((obj, cname, blob))
                except Exception:
                    pass
        nd = Dimension.define(f"zqc15newdim{ctx.seed}", f"Zq15x{ctx.seed}")
        ctx.count("histories/dimensions_declared_between_dump_and_load")
        for obj, cname, blob in stale:
            ctx.count("evaluations")
            ctx.count("histories/dump-define-load")
            kind = type(obj).__name__
            ctx.distinct(("dump-define-load", kind, cname, repr(obj)[:80]))
            try:
                y = json.loads(blob, cls=MeasuredJSONDecoder) if cname == "json" else pickle.loads(blob)
            except Exception as e:
                ctx.violation(f"C15:{cname}:raised-{type(e).__name__}:after-dimension-define", f"loading {obj!r} dumped before Dimension.define raised {e}", {"codec": cname})
                continue
            same = (y == obj and y.unit is obj.unit) if isinstance(obj, Q) else (y is obj)
            if not same:
                ctx.violation(f"C15:{cname}:not-identical:{kind}:after-dimension-define",
                              f"{cname}: {obj!r} dumped, a fundamental dimension declared, then loaded: came back as {y!r} (identical: {y is obj})", {"codec": cname, "object": repr(obj)})

    ctx.require("evaluations", 500)
    ctx.require("histories/dump-name-load/unit", 4)
    ctx.require("histories/decode-declare-roundtrip", 10)
    ctx.require("histories/own-prefix-roundtrip", 10)
