"""C13 — str() output parses back to the same unit/quantity; spellings are equivalent."""
from __future__ import annotations

import re
from fractions import Fraction

from .. import core, kit, model, oracle

ID = "C13"
LEVEL = "exploration"
RULE = ("every registered prefix (plus none) x named unit x exponent in {-3..3}\\{0} is enumerated in full for each "
        "configuration of imported unit modules (each configuration in its own fresh process); random products of up to "
        "3 such terms and int/float quantities over them are sampled; every product is also written in alternative "
        "spellings (^n / superscripts, * / dot / whitespace, a/b / negative exponents, symbol / registered name).  "
        "distinct = the rendered string (spellings by token skeleton); non-trivial = the string has a prefix, an "
        "exponent or >= 2 terms"
        " Plus everyday ratio spellings (kb/B, km/h...), every whitespace character of the grammar, staged imports with failing parses right before each import and a read-back of the newly declared symbols right after, and (thorough) a process that builds 330 000 other units before reading the units in use back."
        " Prefixes the program registers itself (symbols of 2-5 characters) go through the table like shipped ones."
        " Units that came out of roots, and prefixes on whole compounds whose first factor cannot take them, are in the table; the known-finding classifier states the rendering rule itself.")
ASSUMPTIONS = [
    "the judge of 'same unit' is the declaration-log size oracle and the model dimension, not in_unit",
    "a spelling is a string of the grammar's language: registered names with characters outside the SYMBOL terminal "
    "(spaces, non-ASCII letters outside the grammar's ranges) are counted as not spellable and not demanded",
    "mixed SI/IEC prefix products differ in the last float digits of the prefix exponent: numeric 1e-9 claim only",
]
# shards = (configuration, part of the table)
CONFIGS = {
    "quick": [("all", 0, 3), ("all", 1, 3), ("all", 2, 3), (["si"], 0, 1), (["si", "us"], 0, 1), (["si", "iec"], 0, 1), ("staged", 0, 1)],
    "thorough": [("all", i, 6) for i in range(6)] + [(["si"], 0, 1), (["si", "us"], 0, 1), (["si", "iec"], 0, 1), (["si", "energy"], 0, 1),
                                                     (["si", "astronomical", "natural"], 0, 1), (["si", "avoirdupois", "troy", "metric"], 0, 1),
                                                     (["si", "iso", "eu", "fff", "apocrypha", "computing"], 0, 1), (["si", "us", "iec", "energy", "music", "acoustics", "electronics"], 0, 1),
                                                     ("staged", 0, 1), ("staged", 1, 1)],
}
SHARDS = {k: len(v) for k, v in CONFIGS.items()}
R9 = Fraction(1, 10**9)
SYMBOL_RE = re.compile(r"^[1a-zA-ZÅₐ-ₜΑ-ω☉.°\-()]+$")


def _magnitude_and_terms(m, u):
    """what str() does with a unit, from its public fields only: the unit's prefix times the first factor's own is pushed into the first factor when it has a root of
    that factor's exponent, else it becomes a leading magnitude"""
    terms = [(f.prefix, f.symbol, e) for f, e in u.factors.items()]
    (prefix, symbol, exponent), rest = terms[0], terms[1:]
    prefix = u.prefix * prefix
    magnitude = 1
    try:
        first = (prefix.root(exponent), symbol, exponent)
    except m.FractionalDimensionError:
        first = terms[0]
        magnitude = prefix.quantify()
    return magnitude, [first] + rest


def classify_unit_str(m, u, parsed_to=None):
    """mechanism key for a str() that does not parse back to the unit"""
    Unit = m.Unit
    try:
        # the rendering rule as it stands on the tree the findings were recorded on, re-stated here from public fields: a
        # tree that renders otherwise (pushes the prefix somewhere else, say) and then collides is not that finding
        magnitude, terms = _magnitude_and_terms(m, u)
    except Exception:
        return "C13:str-raised"
    if u.symbol:
        terms, magnitude = [], 1
    # each known mechanism has one outcome: text with a magnitude or a numeric prefix in it is *rejected* by the
    # parser, a colliding symbol *parses* to the other unit; the opposite outcome is not that mechanism
    if magnitude != 1:
        return "C13:leading-magnitude-in-unit-str" if parsed_to is None else "C13:parses-to-a-different-unit"
    for prefix, symbol, exponent in terms:
        if prefix.base != 0 and not prefix.symbol:
            return "C13:numeric-prefix-rendering" if parsed_to is None else "C13:parses-to-a-different-unit"
    for prefix, symbol, exponent in terms:
        if prefix.base != 0 and prefix.symbol and symbol:
            glued = f"{prefix.symbol}{symbol}"
            if glued in Unit._by_symbol:
                return f"C13:prefixed-symbol-collides:{glued}" if parsed_to is not None else "C13:str-does-not-parse"
            # an earlier, shorter split of the glued string resolves to something else
            for i in range(1, len(glued)):
                if i != len(prefix.symbol) and glued[:i] in m.Prefix._by_symbol and glued[i:] in Unit._by_symbol:
                    if i < len(prefix.symbol):
                        return f"C13:prefixed-symbol-ambiguous-split:{glued}"
    return "C13:parses-to-a-different-unit" if parsed_to is not None else "C13:str-does-not-parse"



CANDIDATES = ("hh", "cd", "TR", "Pa", "ha", "min.", "nmi.", "kn", "pt", "ch", "ft", "Mm")
STAGES = [["si"], ["us", "iec"], ["energy", "avoirdupois", "troy"], ["astronomical", "natural", "metric"],
          ["iso", "eu", "fff", "apocrypha", "computing", "acoustics", "electronics", "music", "geometry", "physics"]]


def run(ctx):
    config, part, parts = CONFIGS[ctx.tier][ctx.shard] if ctx.nshards > 1 else ("all", 0, 1)
    if config != "staged":
        env = kit.Env(ctx, modules=config)
        return one_configuration(ctx, env, config, part, parts)
    # a process whose set of imported unit modules GROWS: everything rendered and parsed in an earlier
    # stage (e.g. 'hh' as hecto-hour while only si is imported) must not change what a later stage's units
    # parse to (us.Hand has the symbol 'hh')
    import importlib

    from .. import gen
    stages = list(STAGES)
    if part == 1:
        ctx.rng.shuffle(stages)
        stages = [["si"]] + [st for st in stages if st != ["si"]]
    env = kit.Env(ctx, modules=stages[0])
    imported = list(stages[0])
    def newly_declared_symbols_read_back(before):
        """right after an import - before anything else is parsed - every symbol the new modules declared reads back
        as its unit, even though the last thing the parser did was to fail on a text containing those very spellings"""
        fresh = [s_ for s_ in env.b.measured.Unit._by_symbol if s_ not in before and SYMBOL_RE.match(s_)]
        ctx.rng.shuffle(fresh)
        first = [c for c in CANDIDATES if c in fresh]   # spellings the parser resolved (as prefix + symbol) just before the import
        for s_ in first + [x for x in fresh if x not in first][:10]:
            owner = env.b.measured.Unit._by_symbol[s_]
            if s_ not in first:
                try:
                    env.b.measured.Unit.parse(f"{s_}/zzqqnotaunit")    # resolves s_, then fails on the unknown symbol
                except Exception:
                    pass
            ctx.count("evaluations")
            ctx.count("symbols_parsed_right_after_their_declaration")
            try:
                got = env.b.measured.Unit.parse(s_)
            except Exception as e:
                got = e
            if got is not owner and str(owner) == s_:
                ctx.violation("C13:parses-to-a-different-unit", f"str({owner.names[0] if owner.names else owner!r}) = {s_!r} parsed right after its module was imported gives {got!r}", {"str": s_})

    for k, mods in enumerate(stages):
        if k:
            # the parser's last words before the import: a text that resolves every spelling it can and then fails
            before = set(env.b.measured.Unit._by_symbol)
            for cand in CANDIDATES:
                try:
                    env.b.measured.Unit.parse(f"{cand}*zzqqnotaunit")
                except Exception:
                    pass
            try:
                env.b.measured.Unit.parse("hh*cd*TR*Pa*ha/zzqqnotaunit")
            except Exception:
                pass
            for name in mods:
                importlib.import_module(f"measured.{name}")
                env.b.modules.append(name)
            imported += mods
            newly_declared_symbols_read_back(before)
            env.orc = oracle.Oracle(env.b.measured, env.b.decls, env.b.scales)
            env.pools = gen.Pools(env.b, env.mdl, env.orc)
        ctx.count("staged_import_stages")
        one_configuration(ctx, env, list(imported), 0, 1, label=f"staged:{'+'.join(imported)}", products=ctx.scale(3000, 300_000) // len(stages), last=(k == len(stages) - 1))
    for e in ctx.known:
        if e.get("status") == "known":
            ctx.witness(e["key"], ctx.known_hits.get(e["key"], 0) > 0)


def one_configuration(ctx, env, config, part, parts, label=None, products=None, last=True):
    m, mdl, pools, rng, orc = env.m, env.mdl, env.pools, ctx.rng, env.orc
    Unit, Q = m.Unit, m.Quantity
    from measured import formatting
    from measured.parsing import ParseError

    cfg_name = label or ("all" if config == "all" else "+".join(config))
    ctx.count(f"configurations/{cfg_name.split(':')[0]}")
    prefixes = [(None, m.IdentityPrefix)] + [(n, pools.prefixes[n]) for n in pools.prefix_names]
    units = [(n, pools.units[n]) for n in pools.unit_names if pools.units[n] is not m.One]

    def same_unit(a, b):
        """'identical', 'equal' (same dimension and oracle size within 1e-9) or a reason string"""
        if a is b:
            return "identical"
        if mdl.dim_of_unit(a) != mdl.dim_of_unit(b) or a.dimension is not b.dimension:
            return "different dimension"
        if not (orc.knows(a) and orc.knows(b)):
            return "equal" if mdl.nf_of_unit(a).key() == mdl.nf_of_unit(b).key() else "unknown size"
        r = orc.ratio(a, b)
        if r is None:
            return "different root content"
        if r[0] * (1 - R9) <= 1 <= r[1] * (1 + R9):
            return "equal"
        return f"size ratio {core.sf(r[0]):.12g}"

    def classify_failure(u, s, parsed_to=None):
        return classify_unit_str(m, u, parsed_to)

    def roundtrip_unit(u, desc, nontrivial=True):
        ctx.count("evaluations")
        try:
            s = str(u)
        except Exception as e:
            ctx.violation(f"C13:str-raised:{type(e).__name__}", f"str({desc}) raised {e}", {"unit": desc})
            return None
        ctx.distinct(("unit", cfg_name, s), nontrivial)
        try:
            v = Unit.parse(s)
        except (ParseError, KeyError) as e:
            ctx.count("outcomes/parse_error")
            ctx.violation(classify_failure(u, s), f"str({desc}) = {s!r} does not parse: {type(e).__name__}", {"unit": desc, "str": s, "config": cfg_name})
            return s
        except Exception as e:
            ctx.violation(f"C13:parse-raised:{type(e).__name__}", f"Unit.parse({s!r}) raised {type(e).__name__}: {e}", {"unit": desc, "str": s})
            return s
        verdict = same_unit(u, v)
        if verdict == "identical":
            ctx.count("outcomes/identical")
        elif verdict == "equal":
            ctx.count("outcomes/equal_by_size")
        else:
            ctx.count("outcomes/different_value")
            ctx.violation(classify_failure(u, s, parsed_to=v), f"str({desc}) = {s!r} parses to {v!r}: {verdict}", {"unit": desc, "str": s, "parsed": repr(v), "config": cfg_name})
        return s

    # ---- the full table ---------------------------------------------------------------------------
    for ui, (uname, u) in enumerate(units):
        if ui % parts != part:
            continue
        for pname, p in prefixes:
            for e in (-3, -2, -1, 1, 2, 3):
                try:
                    x = (p * u) ** e
                except Exception as ex:
                    ctx.violation(f"C13:construct:{type(ex).__name__}", f"({pname}*{uname})**{e}: {ex}", {})
                    continue
                ctx.count("table_cells")
                roundtrip_unit(x, f"({pname or ''}*{uname})**{e}", nontrivial=bool(pname) or e != 1)
    ctx.cov["exhaustive_table_per_configuration"] = True
    # ---- prefixes the program registers itself (lakh, crore, dozen ...), with symbols of one to five characters: from
    # then on they are registered prefixes like any other, on every unit, at every exponent
    own = []
    for pname, psym, base, exponent in (("zqlakh", "lkh", 10, 5), ("zqcrore", "cror", 10, 7), ("zqgross", "grs", 12, 2), ("zqmyria", "my", 10, 4),
                                       ("zqhalfk", "hlfKi", 2, 9), ("zqwan", "wan", 10, -4)):
        try:
            own.append((pname, m.Prefix._by_name[pname] if pname in m.Prefix._by_name else m.Prefix(base, exponent, pname, psym)))
        except ValueError:
            ctx.count("own_prefix_declarations_refused")   # another (base, exponent) owner in this configuration
    some_units = [x for i, x in enumerate(units) if i % parts == part][: (40 if ctx.tier == "quick" else 400)]
    for uname, u in some_units + [(n, pools.units[n]) for n in ("meter", "second", "gram", "bit") if n in pools.units]:
        if not u.symbols or not u.symbols[0].isalpha():
            continue
        for pname, p in own:
            for e in (1, 2, -1, 3):
                ctx.count("table_cells_with_a_prefix_of_the_programs_own")
                x = (p * u) ** e
                roundtrip_unit(x, f"({pname}*{uname})**{e}")
                try:
                    q2 = Q.parse(str(Q(3, x)))
                    a_, b_ = orc.si_value(3, x), orc.si_value(q2.magnitude, q2.unit)
                    ma, mb = (a_[0] + a_[1]) / 2, (b_[0] + b_[1]) / 2
                    if mdl.dim_of_unit(q2.unit) != mdl.dim_of_unit(x) or a_[2] != b_[2] or abs(ma - mb) > max(abs(ma), abs(mb)) * R9:
                        ctx.violation(classify_failure(x, str(x), parsed_to=q2.unit), f"str(3 * ({pname}*{uname})**{e}) = {str(Q(3, x))!r} parses to {q2!r}", {"unit": f"({pname}*{uname})**{e}"})
                except (ParseError, KeyError) as ex:
                    ctx.violation(classify_failure(x, str(x)), f"str(3 * ({pname}*{uname})**{e}) = {str(Q(3, x))!r} does not parse: {type(ex).__name__}", {"unit": f"({pname}*{uname})**{e}"})

    # ---- a prefix on a whole compound whose first factor cannot take it (centi * (m^3 * day): 3 does not divide -2): the
    # prefix becomes a number in front today; wherever a tree puts it instead, the text must not read as another unit
    lead = pools.units["meter"]
    for ui, (uname, u) in enumerate(units):
        if ui % parts != part or u is lead or not u.symbols:
            continue
        for pname, p in prefixes:
            if pname is None or not isinstance(p.exponent, int):
                continue
            for e1 in (3, 2):
                if p.exponent % e1 == 0:
                    continue
                try:
                    x = p * (lead ** e1 * u)
                except Exception:
                    continue
                ctx.count("table_cells_with_a_prefix_on_a_whole_compound")
                roundtrip_unit(x, f"{pname}*(meter**{e1}*{uname})")
                break

    # ---- units that came out of a root (an r.m.s. of ppm deviations, the side of a square in km^2): roots of powers of
    # prefixed units and of prefixed dimensionless units (kilo * One, micro * One) read back like the units they are
    some_bases = [m.One] + [u for _, u in units[:: max(1, len(units) // 12)]][:12]
    for pname, p in prefixes:
        if pname is None:
            continue
        for base in some_bases:
            for n_ in (2, 3):
                try:
                    x = ((p * base) ** n_).root(n_)
                except m.FractionalDimensionError:
                    ctx.count("roots_refused_for_mixed_base_prefixes")   # a float exponent has no whole root: C14's known finding, not a rendering
                    continue
                except Exception as ex:
                    ctx.violation(f"C13:construct:{type(ex).__name__}", f"(({pname}*{base})**{n_}).root({n_}): {ex}", {})
                    continue
                ctx.count("table_cells_from_roots")
                roundtrip_unit(x, f"(({pname}*{base})**{n_}).root({n_})")
                try:
                    q2 = Q.parse(str(Q(5.0, x)))
                    a_, b_ = orc.si_value(5.0, x), orc.si_value(q2.magnitude, q2.unit)
                    if orc.knows(x) and orc.knows(q2.unit):
                        ma, mb = (a_[0] + a_[1]) / 2, (b_[0] + b_[1]) / 2
                        if mdl.dim_of_unit(q2.unit) != mdl.dim_of_unit(x) or abs(ma - mb) > max(abs(ma), abs(mb)) * R9:
                            key_ = classify_failure(x, str(x), parsed_to=q2.unit)
                            ctx.violation(key_ if "collides" in key_ else "C13:quantity-parses-to-a-different-value", f"str(5.0 * (({pname}*{base})**{n_}).root({n_})) = {str(Q(5.0, x))!r} parses to {q2!r}",
                                          {"unit": f"(({pname}*{base})**{n_}).root({n_})"})
                except (ParseError, KeyError):
                    pass   # reported by the unit round trip above, under its own key

    # ---- random products, quantities, spellings ---------------------------------------------------
    n = products if products is not None else ctx.scale(3000, 300_000)
    for i in range(n):
        factors = pools.random_factors(rng, max_factors=3, max_exp=3, hostile=0.1, prefix_prob=0.5)
        term = pools.factors_term(factors)
        try:
            u = mdl.eval_real(term)
        except Exception:
            continue
        ctx.count("products")
        s = roundtrip_unit(u, model.show(term))
        # quantity round trip
        mag = rng.choice([rng.randint(-1000, 1000), core.sf(round(rng.uniform(-1e4, 1e4), 3)), 5, 0.25, 1e-7, 12345678901234567890])
        q = Q(mag, u)
        ctx.count("quantities")
        try:
            qs = str(q)
            ctx.distinct(("quantity", cfg_name, qs))
            q2 = Q.parse(qs)
        except (ParseError, KeyError) as e:
            ctx.violation(classify_failure(u, str(u)), f"str({q!r}) = {str(q)!r} does not parse", {"quantity": [model.enc_mag(mag), term], "config": cfg_name})
            q2 = None
        except Exception as e:
            ctx.violation(f"C13:quantity-parse-raised:{type(e).__name__}", f"Quantity.parse({str(q)!r}): {e}", {"quantity": [model.enc_mag(mag), term]})
            q2 = None
        if q2 is not None:
            if type(q2.magnitude) is not type(mag) and not (isinstance(mag, int) and isinstance(q2.magnitude, (int, float))):
                ctx.violation("C13:quantity-magnitude-type-changed", f"{q!r} -> {qs!r} -> {q2!r}", {"quantity": [model.enc_mag(mag), term]})
            if orc.knows(q.unit) and orc.knows(q2.unit) and mdl.dim_of_unit(q.unit) == mdl.dim_of_unit(q2.unit):
                a, b = orc.si_value(q.magnitude, q.unit), orc.si_value(q2.magnitude, q2.unit)
                ma, mb = (a[0] + a[1]) / 2, (b[0] + b[1]) / 2
                if a[2] != b[2] or abs(ma - mb) > max(abs(ma), abs(mb)) * R9:
                    key = classify_failure(u, str(u), parsed_to=q2.unit)
                    if "collides" not in key:
                        # the known findings about magnitudes inside a *unit's* str() are about text the unit grammar
                        # cannot read; a quantity's str() folds that magnitude into its own and must read back equal
                        key = "C13:quantity-parses-to-a-different-value"
                    ctx.violation(key,
                                  f"{q!r} renders as {qs!r} which parses to {q2!r} (different physical value)", {"quantity": [model.enc_mag(mag), term], "config": cfg_name})
                else:
                    ctx.count("outcomes/quantity_equal")
            else:
                ctx.violation(classify_failure(u, str(u), parsed_to=q2.unit), f"{q!r} renders as {qs!r} which parses to {q2!r} (different dimension)",
                              {"quantity": [model.enc_mag(mag), term], "config": cfg_name})
        if i % 400 == 3 and s:
            ctx.sample({"unit": model.show(term), "str": s, "quantity_str": str(q)})
        # alternative spellings of the same product
        if i % 2 == 0:
            spellings(ctx, env, rng, factors, u, same_unit, ParseError)
    # ---- the spellings people type for everyday rates and ratios: every pair of an everyday prefix (or none) on an
    # everyday unit over / times another one, exponents +-1 (kb/B, km/h, kWh, MiB/s, mg/kg ...), in all spellings
    everyday = [n for n in ("bit", "byte", "meter", "second", "hour", "gram", "liter", "watt", "hertz", "foot", "joule", "newton") if n in pools.units]
    eprefixes = [None, "kilo", "mega", "milli", "kibi", "mebi", "centi", "giga"]
    eprefixes = [x for x in eprefixes if x is None or x in pools.prefixes]
    pairs_all = [(p1, u1, p2, u2, e2) for u1 in everyday for u2 in everyday for p1 in eprefixes for p2 in eprefixes for e2 in (-1, 1) if u1 != u2 or p1 != p2]
    rng.shuffle(pairs_all)
    mine = [x for i, x in enumerate(pairs_all) if i % parts == part]
    for p1, u1, p2, u2, e2 in mine[: (1500 if ctx.tier == "quick" else 100000)]:
        factors = [(p1, u1, 1), (p2, u2, e2)]
        try:
            u = mdl.eval_real(pools.factors_term(factors))
        except Exception:
            continue
        ctx.count("everyday_ratio_spellings")
        spellings(ctx, env, rng, factors, u, same_unit, ParseError)
    # ---- a long-running process: after hundreds of thousands of other units were built, the units in use still read back
    # as themselves (thorough tier, one shard: it takes a quarter of a minute)
    if ctx.tier == "thorough" and part == 0 and cfg_name == "all":
        keep = []
        for _ in range(40):
            f_ = pools.random_factors(rng, max_factors=2, max_exp=3, hostile=0.0, prefix_prob=0.5)
            try:
                u_ = mdl.eval_real(pools.factors_term(f_))
                s_ = str(u_)
                if Unit.parse(s_) is u_:
                    keep.append((u_, s_, Q(5, u_)))
            except Exception:
                pass
        meter, second, gram = pools.units["meter"], pools.units["second"], pools.units["gram"]
        built = 0
        for a_ in range(1, 90):
            for b_ in range(-45, 45):
                for c_ in range(-20, 21):
                    meter**a_ * second**b_ * gram**c_
                    built += 1
        ctx.count("units_built_by_the_long_running_process", built)
        for u_, s_, q_ in keep:
            ctx.count("evaluations")
            ctx.count("units_read_back_after_many_others_were_built")
            try:
                v_, q2 = Unit.parse(s_), Q.parse(str(q_))
            except Exception as e:
                ctx.violation(f"C13:parse-raised:{type(e).__name__}", f"Unit.parse({s_!r}) after {built} other units were built: {e}", {"str": s_})
                continue
            if v_ is not u_ or q2.unit is not u_ or not (q2 == q_):
                ctx.violation("C13:parses-to-a-different-unit", f"after {built} other units were built, str(unit) = {s_!r} reads back as another object than the unit in use "
                              f"(quantity equal: {q2 == q_})", {"str": s_})
    if last:   # (these declarations make texts ambiguous on purpose: nothing else is rendered or parsed after them in this process)
        # ---- what a text means follows the registries as they are NOW: a text that read as prefix + symbol is given to a unit as
        # its own symbol (alias), a prefix that splits an already-read text sooner is registered, a prefix that was anonymous when
        # its units were first rendered gets a symbol - each time the same texts are read (and the same units rendered) again
        def _alpha(k):
            out = ""
            while True:
                out = "abcdefghijklmnopqrstuvwxyz"[k % 26] + out
                k //= 26
                if not k:
                    return out
        import zlib
        salt = zlib.crc32(cfg_name.encode()) % 5000
        tag_ = "zq" + _alpha(ctx.shard * 1000003 + part * 5003 + salt)      # letters only: the grammar's symbols have no digits
        e_ = 11 + (ctx.shard * 7 + part * 3 + salt) % 23
        if own and f"{tag_}ta" not in Unit._by_symbol and m.Prefix(7, e_).name is None and m.Prefix(7, e_ + 30).name is None and m.Prefix(7, e_ + 60).name is None:
            pname, p = own[0]
            ua = Unit.define(m.Length, f"{tag_}unit-a", f"{tag_}ta")
            ub = Unit.define(m.Time, f"{tag_}unit-b", f"{tag_}tb")
            text = f"{p.symbol}{tag_}ta"
            try:
                first = Unit.parse(text)
                q_first = Q.parse(f"3 {text}")
            except (ParseError, KeyError):
                first = None
            if first is not None:
                ctx.count("texts_read_before_they_became_a_symbol")
                ub.alias(symbol=text)
                for label, got in (("Unit.parse", Unit.parse(text)), ("Unit.parse(str(unit))", Unit.parse(str(ub))), ("Quantity.parse", Q.parse(f"3 {text}").unit),
                                   ("Quantity.parse(str(quantity))", Q.parse(str(Q(3, ub))).unit)):
                    if got is not ub:
                        ctx.violation("C13:parses-to-a-different-unit", f"{text!r} was read as {first!r} before it became a symbol of {ub!r} (Unit.alias); afterwards {label} gives {got!r}",
                                      {"text": text, "how": label})
            # a shorter prefix registered later splits a text that was read before
            v_sym = f"v{tag_}ta"
            uv = Unit.define(m.Length, f"{tag_}unit-v", v_sym)
            long_sym, short_sym = f"{tag_}jv", f"{tag_}j"
            p_long = m.Prefix(7, e_, f"{tag_}long", long_sym)
            text2 = f"{long_sym}{tag_}ta"            # long prefix + unit a  ==  short prefix + unit v ("...jv" + "ta" vs "...j" + "vta")
            try:
                before = Q.parse(f"3 {text2}")
            except (ParseError, KeyError):
                before = None
            if before is not None and before.unit is p_long * ua:
                ctx.count("texts_read_before_a_shorter_prefix_was_registered")
                p_short = m.Prefix(7, e_ + 30, f"{tag_}short", short_sym)
                want_u = Unit.parse(text2)
                rendered = str(Q(3, p_short * uv))
                got_q = Q.parse(rendered)
                if rendered == f"3 {text2}" and (want_u is not p_short * uv or got_q.unit is not p_short * uv):
                    ctx.violation("C13:quantity-parses-to-a-different-value", f"str(3 * ({short_sym}*{v_sym})) = {rendered!r}; Unit.parse reads the unit as {want_u!r}, Quantity.parse reads "
                                  f"{got_q!r} - the text was first read before the prefix {short_sym!r} was registered", {"text": rendered})
            # rendered while its prefix was anonymous, rendered again after the prefix got its symbol
            anon = m.Prefix(7, e_ + 60)
            x_ = anon * ua
            early = str(x_)
            m.Prefix(anon.base, anon.exponent, f"{tag_}late", f"{tag_}lt")
            ctx.count("units_rendered_before_their_prefix_got_a_symbol")
            roundtrip_unit(x_, f"(a prefix declared after {early!r} was rendered)*{tag_}unit-a")
    for e in ctx.known:
        if e.get("status") == "known":
            ctx.witness(e["key"], ctx.known_hits.get(e["key"], 0) > 0)
    ctx.require("table_cells", 100)
    ctx.require("products", 50)


SUP = str.maketrans("-0123456789", "⁻⁰¹²³⁴⁵⁶⁷⁸⁹")


def spellings(ctx, env, rng, factors, u, same_unit, ParseError):
    """Write the product in several spellings; all must parse to the same unit as the
    explicit ^n / '*' spelling does."""
    m, pools = env.m, env.pools
    Unit = m.Unit

    def sym(pfx, name, use_name):
        unit = pools.units[name]
        if use_name and not pfx:
            for nm in unit.names:
                if SYMBOL_RE.match(nm) and Unit._by_symbol.get(nm, unit) is unit and not _prefix_split_shadows(m, nm, unit):
                    return nm
        s = unit.symbol
        if s is None or not SYMBOL_RE.match(s):
            return None
        if pfx:
            ps = pools.prefixes[pfx].symbol
            if not ps:
                return None
            glued = ps + s
            # only spellings that the resolution rule maps to this very prefix+unit are spellings of it
            if glued in Unit._by_symbol:
                return None
            for i in range(1, len(glued)):
                if glued[:i] in m.Prefix._by_symbol and glued[i:] in Unit._by_symbol:
                    if i != len(ps):
                        return None
                    break
            return glued
        if _prefix_split_shadows(m, s, unit) and s not in Unit._by_symbol:
            return None
        return s

    def render(style):
        exp_style, mul, ratio, use_name, ws = style
        num, den = [], []
        for pfx, name, e in factors:
            s = sym(pfx, name, use_name)
            if s is None:
                return None
            neg = e < 0 and ratio
            ee = -e if neg else e
            if ee == 1:
                t = s
            elif exp_style == "caret":
                t = f"{s}^{ee}"
            else:
                t = s + str(ee).translate(SUP)
            (den if neg else num).append(t)
        if not num:
            return None
        sep = {"star": "*", "dot": "⋅", "space": " "}[mul]
        if ws:
            # "any whitespace": every character of the grammar's ignored WS terminal, also around the operators
            w = rng.choice([" ", "  ", "\t", "\n", " \n ", "\r\n", "\f"])
            sep = f"{w}{sep}{w}" if sep != " " else w
        else:
            w = ""
        out = sep.join(num)
        if den:
            out += f"{w}/{w}" + sep.join(den)
        if ws and rng.random() < 0.3:
            out = w + out + w
        return out

    base = render(("caret", "star", False, False, False))
    if base is None:
        ctx.count("spellings_not_spellable")
        return
    try:
        ref = Unit.parse(base)
    except Exception:
        ctx.count("spellings_reference_did_not_parse")
        return
    if same_unit(u, ref) not in ("identical", "equal"):
        ctx.violation("C13:explicit-spelling-parses-to-a-different-unit", f"{base!r} parses to {ref!r}, expected {u!r}", {"spelling": base})
        return
    for _ in range(4):
        style = (rng.choice(["caret", "super"]), rng.choice(["star", "dot", "space"]), rng.random() < 0.5, rng.random() < 0.3, rng.random() < 0.3)
        s = render(style)
        if s is None or s == base:
            continue
        ctx.count("evaluations")
        ctx.count(f"spellings/{style[0]}-{style[1]}-{'ratio' if style[2] else 'negexp'}-{'name' if style[3] else 'symbol'}")
        skeleton = re.sub(r"[^\^*⋅/ ⁻⁰¹²³⁴⁵⁶⁷⁸⁹0-9-]+", "S", s)
        ctx.distinct(("spelling", skeleton, len(factors)))
        try:
            v = Unit.parse(s)
        except (ParseError, KeyError) as e:
            ctx.violation("C13:spelling-does-not-parse", f"{s!r} (same expression as {base!r}) raised {type(e).__name__}", {"spelling": s, "reference": base})
            continue
        verdict = same_unit(ref, v)
        if verdict not in ("identical", "equal"):
            ctx.violation("C13:spellings-disagree", f"{s!r} parses to {v!r} but {base!r} parses to {ref!r}: {verdict}", {"spelling": s, "reference": base})
        elif verdict == "equal":
            ctx.count("spellings_equal_by_size_only")


def _prefix_split_shadows(m, text, unit):
    """True when the library's resolution order (exact symbol, prefix+symbol split, name)
    would resolve `text` to something other than `unit`"""
    if text in m.Unit._by_symbol:
        return m.Unit._by_symbol[text] is not unit
    for i in range(1, len(text)):
        if text[:i] in m.Prefix._by_symbol and text[i:] in m.Unit._by_symbol:
            return True
    return False
