"""C10 — temperature scales convert by their exact affine definitions."""
from __future__ import annotations

from decimal import Decimal
from fractions import Fraction

from .. import core, kit, model, oracle

ID = "C10"
LEVEL = "exploration"
RULE = ("all 12 ordered pairs of {kelvin, celsius, fahrenheit, Rankine} x {no prefix, every registered prefix} on the "
        "source or the target side x a magnitude list (int, float, Decimal; absolute zero of each scale; below absolute "
        "zero; +-1e+-6) plus random magnitudes, chained round trips, differences and cross-scale comparisons; the plain table "
        "is repeated after compound units carrying a scale at exponents -1, 2, -2 were converted and compared across scales "
        "and after new declarations (history); distinct = "
        "(source scale, target scale, prefix side, prefix, magnitude bucket); non-trivial = source scale != target scale "
        "or a prefix is involved"
        " The history also declares user scales anchored on each stock unit, and applies augmented assignment to quantities returned by quantify()/unprefixed()."
        " Plus the command line's equivalents, fresh processes that import the library under 3-6 digit decimal contexts, and operator coherence at exact ties.")
ASSUMPTIONS = [
    "oracle: C = K - 273.15, F = R - 459.67, R = 9/5 K evaluated in Fraction; a prefix multiplies the scale reading",
    "tolerance 1e-9 relative to the expected reading plus 1e-9 relative to the largest kelvin-sized intermediate "
    "(source value, offsets) expressed in target steps - float rounding of 273.15/459.67 is not a violation",
    "exact ties in == / < (within that tolerance) are skipped and counted",
]
SHARDS = {"quick": 1, "thorough": 8}

K0 = Fraction("273.15")
R0 = Fraction("459.67")
STEP = {"kelvin": Fraction(1), "celsius": Fraction(1), "Rankine": Fraction(5, 9), "fahrenheit": Fraction(5, 9)}
ZERO = {"kelvin": Fraction(0), "celsius": K0, "Rankine": Fraction(0), "fahrenheit": R0 * Fraction(5, 9)}  # kelvin value of reading 0
SCALES = ["kelvin", "celsius", "fahrenheit", "Rankine"]


def to_kelvin(scale, reading):
    return reading * STEP[scale] + ZERO[scale]


def from_kelvin(scale, k):
    return (k - ZERO[scale]) / STEP[scale]


def bucket(x):
    x = core.sf(x)
    if x == 0:
        return "0"
    s = "-" if x < 0 else "+"
    a = abs(x)
    return s + ("tiny" if a < 1e-3 else "small" if a < 10 else "mid" if a < 1e4 else "large")


def run(ctx):
    env = kit.Env(ctx)
    kit.aliasing_probe(ctx, env.m, "C10")   # the program aliases what it is handed and updates in place
    m, rng = env.m, ctx.rng
    U, P = m.Unit._by_name, env.pools.prefixes
    for s in SCALES:
        if s not in U:
            raise core.Inconclusive(f"scale unit {s} is not registered")
    prefix_names = [None] + sorted(P)
    fixed = [0, 1, -1, 5, 100, -40, 37.5, 273.15, -273.15, -459.67, 459.67, 491.67, 1e-6, -1e6, 1e6, Decimal("25.5"), Decimal("-300"), 1000000]
    n_random = 0 if ctx.tier == "quick" else ctx.scale(0, 100000) // (12 * 4)

    def unit(scale, pfx):
        return U[scale] if pfx is None else P[pfx] * U[scale]

    def pval(pfx):
        return Fraction(1) if pfx is None else oracle.prefix_value(P[pfx])

    def check(src_scale, src_pfx, dst_scale, dst_pfx, mag):
        ctx.count("evaluations")
        su, du = unit(src_scale, src_pfx), unit(dst_scale, dst_pfx)
        k = to_kelvin(src_scale, oracle.F(mag) * pval(src_pfx))
        expected = from_kelvin(dst_scale, k) / pval(dst_pfx)
        side = "none" if src_pfx is None and dst_pfx is None else "source" if dst_pfx is None else "target" if src_pfx is None else "both"
        ctx.distinct((src_scale, dst_scale, side, src_pfx, dst_pfx, bucket(mag)), src_scale != dst_scale or side != "none")
        try:
            got = (mag * su).in_unit(du)
        except Exception as e:
            ctx.violation(f"C10:raised:{type(e).__name__}", f"({mag!r} * {su}).in_unit({du}) raised {type(e).__name__}: {e}",
                          {"src": [src_scale, src_pfx], "dst": [dst_scale, dst_pfx], "mag": repr(mag)})
            return None
        ctx.count(f"pairs/{src_scale}->{dst_scale}")
        ctx.count(f"prefix_side/{side}")
        if got.unit is not du:
            ctx.violation("C10:wrong-unit", f"({mag!r} * {su}).in_unit({du}) returned unit {got.unit}", {})
            return None
        big = max(abs(k), abs(ZERO[src_scale]), abs(ZERO[dst_scale]), abs(oracle.F(mag) * pval(src_pfx) * STEP[src_scale]))
        tol = abs(expected) * Fraction(1, 10**9) + big * Fraction(1, 10**9) / (STEP[dst_scale] * pval(dst_pfx))
        g = oracle.F(got.magnitude)
        if abs(g - expected) > tol:
            key = "prefix-on-target" if dst_pfx is not None else "prefix-on-source" if src_pfx is not None else "unprefixed"
            ctx.violation(f"C10:wrong-value:{key}",
                          f"({mag!r} * {su}).in_unit({du}) = {got.magnitude!r}, exact {core.sf(expected)!r}",
                          {"src": [src_scale, src_pfx], "dst": [dst_scale, dst_pfx], "mag": repr(mag), "got": repr(got.magnitude), "exact": core.sf(expected)})
        if len(ctx.samples) < 6 and rng.random() < 0.002:
            ctx.sample(f"({mag!r} * {su}).in_unit({du}) = {got.magnitude!r}  (exact {core.sf(expected)!r})")
        return got

    pairs = [(a, b) for a in SCALES for b in SCALES if a != b]
    # exhaustive part: pairs x prefixes x side x fixed magnitudes
    for a, b in pairs:
        for pfx in prefix_names:
            sides = [(None, None)] if pfx is None else [(pfx, None), (None, pfx)]
            for sp, dp in sides:
                for mag in fixed:
                    check(a, sp, b, dp, mag)
    ctx.cov["exhaustive_over_pairs_prefixes_sides"] = True
    # both sides prefixed (sampled), same-scale with prefixes
    for _ in range(300 if ctx.tier == "quick" else 5000):
        a, b = rng.choice(SCALES), rng.choice(SCALES)
        check(a, rng.choice(prefix_names), b, rng.choice(prefix_names), rng.choice(fixed))
    # random magnitudes
    for _ in range(n_random):
        for a, b in pairs:
            for _ in range(4):
                sp, dp = rng.choice([(None, None), (rng.choice(prefix_names), None), (None, rng.choice(prefix_names))])
                check(a, sp, b, dp, env.pools.magnitude(rng))

    # round trips, chains, differences, comparisons
    n_rel = 400 if ctx.tier == "quick" else 20000
    for _ in range(n_rel):
        a, b, c = rng.choice(SCALES), rng.choice(SCALES), rng.choice(SCALES)
        pa, pb = rng.choice([None, None, rng.choice(prefix_names)]), rng.choice([None, None, rng.choice(prefix_names)])
        mag = rng.choice([rng.choice(fixed), core.sf(rng.uniform(-500, 5000)), rng.randint(-500, 5000)])
        ua, ub, uc = unit(a, pa), unit(b, pb), unit(c, None)
        try:
            q = mag * ua
            back = q.in_unit(ub).in_unit(ua)
            via = q.in_unit(uc).in_unit(ub)
            direct = q.in_unit(ub)
        except Exception as e:
            ctx.violation(f"C10:raised:{type(e).__name__}", f"chain {ua}->{ub}->{ua} raised {e}", {})
            continue
        ctx.count("relations/round_trip")
        kq = to_kelvin(a, oracle.F(mag) * pval(pa))
        big = max(abs(kq), K0)
        tol_a = abs(oracle.F(mag)) * Fraction(1, 10**9) + big * Fraction(2, 10**9) / (STEP[a] * pval(pa))
        if abs(oracle.F(back.magnitude) - oracle.F(mag)) > tol_a:
            ctx.violation("C10:round-trip", f"{mag!r} {ua} -> {ub} -> {ua} = {back.magnitude!r}", {"mag": repr(mag), "a": str(ua), "b": str(ub)})
        ctx.count("relations/via_intermediate")
        tol_b = abs(oracle.F(direct.magnitude)) * Fraction(1, 10**9) + big * Fraction(2, 10**9) / (STEP[b] * pval(pb))
        if abs(oracle.F(via.magnitude) - oracle.F(direct.magnitude)) > tol_b:
            ctx.violation("C10:route-dependent", f"{mag!r} {ua} -> {uc} -> {ub} = {via.magnitude!r} but direct = {direct.magnitude!r}", {})
        # differences scale by the degree ratio (unprefixed)
        d = rng.choice([1, 10, 0.5, 100])
        try:
            x1 = (mag * U[a]).in_unit(U[b]).magnitude
            x2 = ((mag + d) * U[a]).in_unit(U[b]).magnitude
        except Exception:
            continue
        ctx.count("relations/difference")
        exp_d = oracle.F(d) * STEP[a] / STEP[b]
        bigd = max(abs(to_kelvin(a, oracle.F(mag))), K0)
        if abs((oracle.F(x2) - oracle.F(x1)) - exp_d) > bigd * Fraction(4, 10**9) / STEP[b] + abs(exp_d) * Fraction(1, 10**9):
            ctx.violation("C10:difference-not-scaled", f"({mag}+{d}) {a} - {mag} {a} in {b}: {x2!r}-{x1!r}, exact {core.sf(exp_d)!r}", {})
        # comparisons agree with kelvin values
        mag2 = rng.choice([rng.choice(fixed), core.sf(rng.uniform(-500, 5000))])
        q1, q2 = mag * ua, mag2 * ub
        k1, k2 = to_kelvin(a, oracle.F(mag) * pval(pa)), to_kelvin(b, oracle.F(mag2) * pval(pb))
        if abs(k1 - k2) <= max(abs(k1), abs(k2), K0) * Fraction(1, 10**9):
            ctx.count("relations/comparison_ties_skipped")
            continue
        ctx.count("relations/comparison")
        try:
            lt, gt, eq = q1 < q2, q1 > q2, q1 == q2
        except Exception as e:
            ctx.violation(f"C10:comparison-raised:{type(e).__name__}", f"{q1} ? {q2}: {e}", {})
            continue
        if lt != (k1 < k2) or gt != (k1 > k2) or eq:
            ctx.violation("C10:comparison-disagrees-with-kelvin",
                          f"{mag!r} {ua} vs {mag2!r} {ub}: <:{lt} >:{gt} ==:{eq}; kelvin {core.sf(k1)!r} vs {core.sf(k2)!r}",
                          {"a": [repr(mag), a, pa], "b": [repr(mag2), b, pb]})
    # exhaustive comparison table: every ordered pair of scales x every pair of special readings (zeros of
    # every numeric type, equal readings, the fixed points of each scale), all six operators
    special = [0, 0.0, -0.0, Decimal(0), 1, -1, -40, 32, 100, 212, 273.15, -273.15, 373.15, 459.67, -459.67, 491.67, Decimal("273.15")]
    import operator as _op
    for a in SCALES:
        for b in SCALES:
            for m1 in special:
                for m2 in special:
                    ctx.count("evaluations")
                    ctx.count("relations/comparison_table")
                    k1, k2 = to_kelvin(a, oracle.F(m1)), to_kelvin(b, oracle.F(m2))
                    q1, q2 = m1 * U[a], m2 * U[b]
                    if k1 != k2 and abs(k1 - k2) <= max(abs(k1), abs(k2), K0) * Fraction(1, 10**9):
                        ctx.count("relations/comparison_ties_skipped")
                        continue
                    try:
                        got = {n: getattr(_op, n)(q1, q2) for n in ("eq", "ne", "lt", "le", "gt", "ge")}
                    except Exception as e:
                        ctx.violation(f"C10:comparison-raised:{type(e).__name__}", f"{q1!r} ? {q2!r}: {e}", {})
                        continue
                    if k1 == k2:
                        # exactly the same temperature: float rounding of the offsets may make == False, but the
                        # two can never be ordered both ways and == / != must be complementary
                        # ... and what == says binds the others: equal quantities are not less or greater, and are <= and >=
                        if got["eq"] == got["ne"] or (got["lt"] and got["gt"]) or (got["eq"] and (got["lt"] or got["gt"] or not got["le"] or not got["ge"])) \
                                or got["le"] != (got["lt"] or got["eq"]) or got["ge"] != (got["gt"] or got["eq"]):
                            ctx.violation("C10:comparison-incoherent-at-a-tie", f"{q1!r} vs {q2!r}: {got}", {})
                        continue
                    want = {"eq": False, "ne": True, "lt": k1 < k2, "le": k1 < k2, "gt": k1 > k2, "ge": k1 > k2}
                    if got != want:
                        ctx.violation("C10:comparison-disagrees-with-kelvin",
                                      f"{m1!r} {a} vs {m2!r} {b}: {({k: v for k, v in got.items() if v != want[k]})}; kelvin {core.sf(k1)!r} vs {core.sf(k2)!r}",
                                      {"a": [repr(m1), a], "b": [repr(m2), b]})
    # ---- the same table again after what a program working with temperatures does in between: compound units
    # carrying a scale at an exponent other than 1 (heat capacity J/K -> J/degC, conductivity W/(m*K) -> W/(m*degF),
    # 1/degC -> 1/R, K**2 -> degF**2) converted and compared across scales, and new declarations.  The values of
    # those compound operations are not judged here; what is judged is every plain conversion that follows them
    carriers = [None, U["joule"], U["watt"] / U["meter"], U["second"]]
    hist_rounds = 1 if ctx.tier == "quick" else 6
    for rnd in range(hist_rounds):
        order = list(pairs)
        rng.shuffle(order)
        for k, (a, b) in enumerate(order):
            for e in (-1, 2, -2):
                c = rng.choice(carriers)
                src = U[a] ** e if c is None else c * U[a] ** e
                dst = U[b] ** e if c is None else c * U[b] ** e
                for op in ("in_unit", "eq", "lt"):
                    ctx.count("history/compound_operations_in_between")
                    try:
                        q1, q2 = rng.choice([1, 4184, 2.5]) * src, rng.choice([1, 7, 0.5]) * dst
                        q1.in_unit(dst) if op == "in_unit" else (q1 == q2) if op == "eq" else (q1 < q2)
                    except Exception as ex:
                        ctx.count(f"history/compound_operations_raised/{type(ex).__name__}")
            # ... and what the caller does with quantities it was handed (the shared, memoised unit steps inside the
            # library): augmented assignment on the results of quantify() / unprefixed() of scale units
            try:
                step = U[a].quantify()
                step *= 5
                step /= 4
                res_ = (P[rng.choice(["milli", "kilo"])] * U[b]).quantify()
                res_ /= 4
                res_ += res_
                un_ = (3 * U[a]).unprefixed()
                un_ *= 2
                ctx.count("history/augmented_assignments_on_returned_quantities")
            except Exception as ex:
                ctx.count(f"history/augmented_assignment_raised/{type(ex).__name__}")
            # straight afterwards, in both directions, and for a third scale
            for (x, y) in ((a, b), (b, a), (a, rng.choice(SCALES)), (rng.choice(SCALES), b)):
                if x == y:
                    continue
                for mag in rng.sample(fixed, 5):
                    ctx.count("history/plain_conversions_after_compound_ones")
                    check(x, None, y, None, mag)
                pf = rng.choice(prefix_names)
                check(x, pf, y, None, rng.choice(fixed))
                check(x, None, y, pf, rng.choice(fixed))
            if k % 3 == 2:
                # a declaration in between (it also empties the library's memo tables): a user's own scale anchored on
                # each of the four stock units in turn, now and then a plain new degree
                n = f"zqc10s{ctx.shard}r{rnd}k{k}"
                anchor = SCALES[(k // 3) % 4]
                try:
                    if rng.random() < 0.2:
                        m.Unit.define(m.Temperature, n + "d", n + "d").equals(rng.choice([2, 0.5]) * U[anchor])
                    m.Temperature.scale(rng.choice([100, 255.375, 77.355, 32]) * U[anchor], n, n)
                    ctx.count(f"history/scales_declared_in_between/on_{anchor}")
                except Exception as ex:
                    ctx.count(f"history/declaration_raised/{type(ex).__name__}")
        for a, b in pairs:
            for mag in fixed:
                ctx.count("history/plain_conversions_after_compound_ones")
                check(a, None, b, None, mag)

    # absolute zero maps to absolute zero
    for a in SCALES:
        for b in SCALES:
            z = from_kelvin(a, Fraction(0))
            got = (core.sf(z) * U[a]).in_unit(U[b]).magnitude
            ctx.count("relations/absolute_zero")
            if abs(oracle.F(got) - from_kelvin(b, Fraction(0))) > Fraction(1, 10**6):
                ctx.violation("C10:absolute-zero", f"absolute zero {core.sf(z)} {a} -> {b} = {got!r}", {})
    # the program had a coarse decimal context in force when it imported the library (4-6 digits, rounding down or half-even),
    # and may or may not have put the default back: the scales are what their definitions say all the same
    from .. import synth
    specs, asked = [], []
    for prec, rounding, restore in ((5, None, True), (4, None, True), (5, "ROUND_DOWN", False), (6, "ROUND_UP", True), (3, None, True)):
        ops = []
        for a in SCALES:
            for b in SCALES:
                if a != b:
                    for mag in (0, 100, -40, 451.5):
                        ops.append(["convert", ["f", float(mag).hex()], ["u", a], ["u", b]])
                        asked.append((a, b, mag))
        specs.append({"modules": ["si", "us"], "decimal_context_at_import": {"prec": prec, "rounding": rounding, "restore_after_import": restore}, "ops": ops})
    logs = synth.run_specs(specs, jobs=5, timeout=120)
    per = len(asked) // len(specs)
    for si_, (spec_, log) in enumerate(zip(specs, logs)):
        if "inconclusive" in log or log.get("fatal"):
            ctx.count("imports_under_a_coarse_context_inconclusive")
            continue
        ctx.count("imports_under_a_coarse_decimal_context")
        for (a, b, mag), r in zip(asked[si_ * per:(si_ + 1) * per], log["results"]):
            ctx.count("evaluations")
            ctx.count("conversions_after_import_under_a_coarse_context")
            want = from_kelvin(b, to_kelvin(a, oracle.F(mag)))
            if "ok" not in r:
                ctx.violation(f"C10:raised-after-import-under-a-coarse-decimal-context:{r.get('raise')}", f"{mag} {a} -> {b} raised {r.get('raise')}: {r.get('msg')}",
                              {"context": spec_["decimal_context_at_import"]})
                continue
            got = oracle.F(model.dec_mag(r["ok"]["mag"]))
            if abs(got - want) > Fraction(1, 10**9) * max(abs(want), 500):
                ctx.violation("C10:wrong-after-import-under-a-coarse-decimal-context", f"{mag} {a} -> {b} = {core.sf(got)!r} in a process that imported the library under "
                              f"{spec_['decimal_context_at_import']}; the definitions give {core.sf(want)!r}", {"context": spec_["decimal_context_at_import"], "from": a, "to": b})
    # the command line (`measured 300 K`) lists what a quantity is equivalent to: the temperatures it prints are conversions
    # among the four scales like any other, shown to a user
    try:
        from measured import cli
    except Exception as ex:
        cli = None
        ctx.count(f"command_line_not_importable/{type(ex).__name__}")
    if cli is not None and hasattr(cli, "all_equivalents"):
        for a in SCALES:
            for mag in [300, 0, -40, 100.5, 2.5e-3, -273.15, 491.67, 1234567.0] + [round(rng.uniform(-500, 5000), 2) for _ in range(6 if ctx.tier == "quick" else 200)]:
                for pfx in (None, "milli", "kilo"):
                    src = unit(a, pfx)
                    kelvin = to_kelvin(a, oracle.F(mag) * (pval(pfx) if pfx else 1))
                    try:
                        listed = list(cli.all_equivalents(m.Quantity(mag, src).unprefixed() if pfx else m.Quantity(mag, src)))
                    except Exception as ex:
                        ctx.violation(f"C10:command-line-raised:{type(ex).__name__}", f"the equivalents of {mag} {src} raised {ex}", {"scale": a, "mag": repr(mag)})
                        continue
                    seen = set()
                    for q in listed:
                        name = q.unit.name
                        if name in SCALES and q.unit.prefix is m.IdentityPrefix or name in SCALES:
                            seen.add(name)
                            ctx.count("evaluations")
                            ctx.count("command_line_equivalents_checked")
                            ctx.distinct(("cli", a, name, pfx, bucket(mag)), a != name)
                            want = from_kelvin(name, kelvin)
                            tol = Fraction(1, 10**9) * max(abs(want), abs(kelvin), 500)
                            if abs(oracle.F(q.magnitude) - want) > tol:
                                ctx.violation("C10:command-line-equivalent-is-wrong", f"`measured {mag} {src}` lists {q.magnitude!r} {name}, the definitions give {core.sf(want)!r}",
                                              {"scale": a, "prefix": pfx, "mag": repr(mag), "listed_as": name})
                    if len(seen) < 3:
                        ctx.count("command_line_listed_fewer_than_three_other_scales")
    # the same questions asked by two threads at once (deterministic line scheduler, units of the scenario's own with exact
    # ratios, the temperature scales, levels): what this property says about an answer holds for every thread's answer
    if ctx.shard == 0:
        from .. import concurrent_conv
        _mon = locals().get("mon")
        if _mon is not None:
            _mon.paused = True
        try:
            concurrent_conv.section(ctx, env, trials=(36 if ctx.tier == "quick" else 600), key="C10")
        finally:
            if _mon is not None:
                _mon.paused = False
    ctx.require("evaluations", 1000)
