"""C14 — uncertainty propagates by first-order Gaussian rules for independent inputs."""
from __future__ import annotations

import math
import operator
from decimal import Decimal
from fractions import Fraction

from .. import core, kit, model, oracle

ID = "C14"
LEVEL = "exploration"
RULE = ("post-conditions on the real Measurement operators (+, -, *, /, ** and their reflected forms) with an analytic "
        "partial-derivative oracle in 50-digit decimal arithmetic; operands: measurands of both signs and zero, sigma "
        "from 0 up to larger than the measurand, exponents -4..4, Measurement or Quantity on either side, "
        "int/float/Decimal, units from C04's convertible space; each result is recomputed with an operand re-expressed "
        "in another unit.  distinct = (operator, which side is a Measurement, exponent, zero/non-zero measurand, "
        "zero/non-zero sigma, shape classes); non-trivial = at least one sigma > 0"
        " Uncertainties also come in another numeric type than the measurand; operands on temperature scales (alone, inside compound units, user scales in other dimensions, scales sharing a zero point), extreme float magnitudes in quotients, one object on both sides, and measurements whose stated uncertainty is revised between two uses."
        " Scales and degrees of the user's own are recalibrated (zero point through conversions.translate, degree size through equals) between identical sums."
        " Augmented assignments (*= /= += -= **=) must equal the binary operators and leave the aliased operand alone."
        " Float and int readings of 1e60..1e200 whose propagation terms square out of the float range, under decimal contexts of 4-28 digits: OverflowError or the right number.")
ASSUMPTIONS = [
    "oracle: sigma_f^2 = sum((df/dx_i * sigma_i)^2) evaluated in 50-digit decimal from the exact operand values; "
    "x*x is two independent inputs",
    "tolerance 1e-9 relative to max(sigma_exact, 1e-6*|f|); for + and - across units the converted term carries the "
    "conversion tolerance (1e-5 per degree, plus the oracle's size interval)",
    "division by a zero measurand and 0**negative are outside the statement (the measurand itself is undefined)",
]
SHARDS = {"quick": 4, "thorough": 14}
R9 = Fraction(1, 10**9)
TOL = Fraction(1, 100000)


def D(x):
    if isinstance(x, Decimal):
        return x
    if isinstance(x, Fraction):
        return Decimal(x.numerator) / Decimal(x.denominator)
    if isinstance(x, float):
        return Decimal(x)
    return Decimal(x)


def run(ctx):
    env = kit.Env(ctx)
    m, mdl, pools, rng, orc = env.m, env.mdl, env.pools, ctx.rng, env.orc
    Q, Mt = m.Quantity, m.Measurement
    CNF = env.conv.ConversionNotFound
    state = {"case": None}

    def as_m(x):
        if isinstance(x, Mt):
            return x
        if isinstance(x, Q):
            return Mt(x, 0)
        return None

    def check_common(label, result, case):
        ctx.count(f"postconditions/{label}")
        if not isinstance(result, Mt):
            if result is not NotImplemented:
                ctx.violation(f"C14:{label}:result-is-not-a-measurement", f"{label} returned {result!r}", case)
            return False
        u = result.uncertainty
        if not isinstance(u, Q) or u.unit is not result.measurand.unit:
            ctx.violation(f"C14:{label}:uncertainty-not-in-measurand-unit", f"{label}: {result!r}", case)
            return False
        if not kit.finite(u.magnitude) or not kit.finite(result.measurand.magnitude):
            ctx.count("nonfinite_results_skipped")
            return False
        if u.magnitude < 0:
            ctx.violation(f"C14:{label}:negative-uncertainty", f"{label}: {result!r}", case)
            return False
        return True

    def compare_sigma(label, result, sigma_exact, f_exact, extra_rel, case):
        got = D(result.uncertainty.magnitude)
        scale = max(abs(sigma_exact), abs(f_exact) * Decimal("1e-6"))
        tol = scale * (Decimal("1e-9") + D(extra_rel))
        if abs(got - sigma_exact) > tol:
            ctx.violation(f"C14:{label}:wrong-uncertainty",
                          f"{label}: uncertainty {result.uncertainty.magnitude!r}, first-order propagation gives {core.sf(sigma_exact)!r} (measurand {core.sf(f_exact)!r})", case)
            return
        ctx.count(f"uncertainties_checked/{label}")

    def post_addsub(label, sign, reflected=False):
        def cond(a, k, result, exc):
            self, other = a[0], as_m(a[1])
            case = state["case"]
            if other is None:
                return
            if exc is not None:
                ctx.count(f"raised/{label}/{type(exc).__name__}")
                if isinstance(exc, m.FractionalDimensionError) and any(
                        not isinstance(q.unit.prefix.exponent, int) for q in (self.measurand, other.measurand)):
                    ctx.violation("C14:add-sub-refused-for-mixed-base-prefixed-unit",
                                  f"{self!r} {label} {other!r} raised FractionalDimensionError (the root of sigma**2 is taken in unit space)", case)
                    return
                if not isinstance(exc, (CNF, TypeError, OverflowError)):
                    ctx.violation(f"C14:{label}:raised-{type(exc).__name__}", f"{self!r} {label} {other!r} raised {exc}", case)
                return
            if not check_common(label, result, case):
                return
            left, right = (other, self) if reflected else (self, other)
            ul, ur, ures = left.measurand.unit, right.measurand.unit, result.measurand.unit
            if not (orc.knows(ul) and orc.knows(ur) and orc.knows(ures)):
                ctx.count("skipped_no_oracle_route")
                return
            rl, rr = orc.ratio(ul, ures), orc.ratio(ur, ures)
            if rl is None or rr is None:
                ctx.count("skipped_no_oracle_route")
                return
            if ures is not ul and ures is not ur:
                ctx.violation(f"C14:{label}:result-in-foreign-unit", f"{label}: result unit {ures} is neither operand's", case)
                return
            lm, rm = D((rl[0] + rl[1]) / 2), D((rr[0] + rr[1]) / 2)
            width = D((rl[1] - rl[0]) / ((rl[0] + rl[1]) / 2)) + D((rr[1] - rr[0]) / ((rr[0] + rr[1]) / 2))
            x, sx = D(left.measurand.magnitude) * lm, D(left.uncertainty.magnitude) * lm
            y, sy = D(right.measurand.magnitude) * rm, D(right.uncertainty.magnitude) * rm
            f = x + sign * y
            sigma = (sx * sx + sy * sy).sqrt()
            conv_rel = (TOL * orc.degree(ul, ur)) if ul is not ur else Fraction(0)
            mtol = max(abs(x), abs(y)) * (Decimal("1e-9") + D(conv_rel) + width)
            # scales with a zero point (degC, degF): a reading converts affinely (that is C10's subject, and the
            # measurand is only compared with the plain operation below), but an uncertainty is a *difference* of
            # readings and converts by the size of the degree alone - sigma above is exactly that
            affine = (ul is not ur) and (orc.uses_offset(ul) or orc.uses_offset(ur))
            if affine:
                ctx.count("postconditions/operands_on_scales_with_a_zero_point")
                mtol = (max(abs(x), abs(y)) + 500) * Decimal("1e-9")
            elif abs(D(result.measurand.magnitude) - f) > mtol:
                ctx.violation(f"C14:{label}:wrong-measurand", f"{label}: measurand {result.measurand.magnitude!r} {ures}, exact {core.sf(f)!r}", case)
            # ... and equals the same operation on the plain quantities
            try:
                plain = left.measurand + right.measurand if sign > 0 else left.measurand - right.measurand
                pr = orc.ratio(plain.unit, ures)
                pm = D(plain.magnitude) * D((pr[0] + pr[1]) / 2)
                if abs(pm - D(result.measurand.magnitude)) > mtol:
                    ctx.violation(f"C14:{label}:measurand-differs-from-plain-operation", f"{result.measurand!r} vs {plain!r}", case)
            except Exception:
                pass
            if affine:
                got = D(result.uncertainty.magnitude)
                # rounding: the zero points (up to 500 K) expressed in the result's degrees set the float scale
                # (the result unit with every scale replaced by the kelvin: its size relative to the result unit)
                kelvin_version = m.One
                for f_, e_ in ures.factors.items():
                    kelvin_version = kelvin_version * ((m.Unit._by_name["kelvin"] if f_ in orc.offset_units or f_ is m.Unit._by_name.get("Rankine") else f_) ** e_)
                rk = orc.ratio(ures.prefix * kelvin_version, ures) or (Fraction(1), Fraction(1))
                scale = Decimal(500) * D((rk[0] + rk[1]) / 2) + abs(x) + abs(y)
                if abs(got - sigma) > sigma * Decimal("1e-6") + scale * Decimal("1e-12"):
                    ctx.violation(f"C14:{label}:wrong-uncertainty:scale-with-zero-point",
                                  f"{label}: {left!r} and {right!r}: uncertainty {result.uncertainty.magnitude!r} {ures}, first-order propagation gives {core.sf(sigma)!r} "
                                  f"(an uncertainty is a difference and converts by the size of the degree, not by the zero point)", case)
                return
            compare_sigma(label, result, sigma, max(abs(x), abs(y)), D(conv_rel) + width, case)
        return cond

    def post_muldiv(label, op, reflected=False):
        def cond(a, k, result, exc):
            self, other = a[0], as_m(a[1])
            case = state["case"]
            if other is None:
                return
            left, right = (other, self) if reflected else (self, other)
            x, sx = D(left.measurand.magnitude), D(left.uncertainty.magnitude)
            y, sy = D(right.measurand.magnitude), D(right.uncertainty.magnitude)
            if exc is not None:
                ctx.count(f"raised/{label}/{type(exc).__name__}")
                if op == "div" and y == 0:
                    return  # the measurand itself is undefined
                if isinstance(exc, (OverflowError,)):
                    return
                ctx.violation(f"C14:{label}:raised-{type(exc).__name__}",
                              f"({left!r}) {label} ({right!r}) raised {type(exc).__name__}: {exc}" + (" [zero measurand]" if x == 0 or y == 0 else ""), case)
                return
            if not check_common(label, result, case):
                return
            if op == "mul":
                f = x * y
                sigma = ((y * sx) ** 2 + (x * sy) ** 2).sqrt()
                want_unit = left.measurand.unit * right.measurand.unit
            else:
                f = x / y
                sigma = ((sx / y) ** 2 + (x * sy / (y * y)) ** 2).sqrt()
                want_unit = left.measurand.unit / right.measurand.unit
            ru = result.measurand.unit
            if ru is not want_unit:
                mixed = not isinstance(ru.prefix.exponent, int) or not isinstance(want_unit.prefix.exponent, int)
                same = ru.factors == want_unit.factors and abs(oracle.prefix_value(ru.prefix) - oracle.prefix_value(want_unit.prefix)) \
                    <= oracle.prefix_value(want_unit.prefix) * R9
                if not (mixed and same):
                    ctx.violation(f"C14:{label}:wrong-unit", f"{label}: unit {ru}, expected {want_unit}", case)
                    return
            if abs(D(result.measurand.magnitude) - f) > abs(f) * Decimal("1e-12"):
                ctx.violation(f"C14:{label}:wrong-measurand", f"{label}: measurand {result.measurand.magnitude!r}, exact {core.sf(f)!r}", case)
            compare_sigma(label, result, sigma, f, 0, case)
        return cond

    def post_pow(a, k, result, exc):
        self, n = a[0], a[1]
        case = state["case"]
        if not isinstance(n, int) or isinstance(n, bool):
            return
        x, sx = D(self.measurand.magnitude), D(self.uncertainty.magnitude)
        if exc is not None:
            ctx.count(f"raised/__pow__/{type(exc).__name__}")
            if x == 0 and n <= 0 or isinstance(exc, OverflowError):
                return  # the measurand itself is undefined (0**negative, Decimal 0**0)
            ctx.violation(f"C14:__pow__:raised-{type(exc).__name__}", f"({self!r})**{n} raised {exc}", case)
            return
        if not check_common("__pow__", result, case):
            return
        if x == 0 and n <= 0:
            return
        f = x**n
        sigma = abs(n * x ** (n - 1)) * sx if n != 0 else Decimal(0)
        if result.measurand.unit is not self.measurand.unit**n:
            ctx.violation("C14:__pow__:wrong-unit", f"({self!r})**{n}: {result.measurand.unit}", case)
            return
        if abs(D(result.measurand.magnitude) - f) > abs(f) * Decimal("1e-12"):
            ctx.violation("C14:__pow__:wrong-measurand", f"({self!r})**{n} = {result.measurand.magnitude!r}, exact {core.sf(f)!r}", case)
        compare_sigma("__pow__", result, sigma, f, 0, case)

    kt = env.kit
    kt.post(Mt, "__add__", post_addsub("__add__", +1))
    kt.post(Mt, "__radd__", post_addsub("__radd__", +1, reflected=True))
    kt.post(Mt, "__sub__", post_addsub("__sub__", -1))
    kt.post(Mt, "__rsub__", post_addsub("__rsub__", -1, reflected=True))
    kt.post(Mt, "__mul__", post_muldiv("__mul__", "mul"))
    kt.post(Mt, "__rmul__", post_muldiv("__rmul__", "mul", reflected=True))
    kt.post(Mt, "__truediv__", post_muldiv("__truediv__", "div"))
    kt.post(Mt, "__rtruediv__", post_muldiv("__rtruediv__", "div", reflected=True))
    kt.post(Mt, "__pow__", post_pow)

    def inv(a, k, result, exc):
        if exc is None:
            self = a[0]
            ctx.count("invariant_checks")
            u = self.uncertainty
            if not isinstance(u, Q) or u.unit is not self.measurand.unit or (kit.finite(u.magnitude) and u.magnitude < 0):
                ctx.violation("C14:invariant:uncertainty-negative-or-foreign-unit", f"{self!r}", state["case"])
    kt.post(Mt, "__init__", inv)

    # ---- workload -------------------------------------------------------------------------------
    def express(value, factors):
        u = mdl.eval_real(pools.factors_term(factors))
        lo, hi, _ = orc.unit_size(u)
        return Q(core.sf(value / ((lo + hi) / 2)), u)

    def si_mid(q):
        lo, hi, _ = orc.si_value(q.magnitude, q.unit)
        return (lo + hi) / 2, (hi - lo)

    def mag(kind=None, zero_ok=True):
        kind = kind or rng.choice(["int", "float", "float", "decimal"])
        if rng.random() < 0.05:
            # unusual representations of ordinary values
            return rng.choice({"int": [2**53 + 1, -(10**17), 1, -1], "float": [5.0, -12.0, 1e12, 0.5, -0.25],
                               "decimal": [Decimal("1E+2"), Decimal("5"), Decimal("-2.50"), Decimal("1.2E-3"), Decimal("-7")]}[kind])
        r = rng.random()
        if zero_ok and r < 0.07:
            v = 0
        elif r < 0.5:
            v = rng.randint(1, 500)
        else:
            v = 10 ** rng.uniform(-3, 4)
        if rng.random() < 0.35:
            v = -v
        if kind == "int":
            return int(v) if abs(v) >= 1 or v == 0 else 1
        if kind == "float":
            return core.sf(v)
        return Decimal(repr(round(core.sf(v), 4)))

    def sigma_for(x):
        ax = abs(core.sf(x)) or 1.0
        return rng.choice([0, ax * 1e-6, ax * 0.01, ax * 0.3, ax * 2.5, 0.5])

    def typed_sigma(x, s):
        """the uncertainty in the measurand's numeric type, or - one case in four - in another one (a Decimal
        reading with a float or int tolerance, a float reading with a Decimal tolerance)"""
        if rng.random() < 0.75:
            return s if not isinstance(x, Decimal) else Decimal(repr(s))
        ctx.count("operands_with_mixed_numeric_types")
        if isinstance(x, Decimal):
            return rng.choice([s, s, max(1, round(s)) if s else 0])
        return Decimal(repr(s))

    if ctx.shard == 0:
        # deterministic witness of the known finding (mixed SI/IEC prefix: the root of sigma**2 is refused)
        try:
            P = m.Prefix._by_name
            u = P["kibi"] * (P["kilo"] * m.Unit._by_name["bit"])
            state["case"] = {"witness": "Measurement(1*(Kibi*(Kilo*Bit)), 0.1) + Measurement(2*(Kibi*(Kilo*Bit)), 0.1)"}
            Mt(Q(1.0, u), 0.1) + Mt(Q(2.0, u), 0.1)
        except Exception:
            pass
        ctx.count("witnesses_rerun")
    scale_units = [m.Unit._by_name[nm] for nm in ("kelvin", "celsius", "fahrenheit", "Rankine") if nm in m.Unit._by_name]

    def temperature_case(opname, fn):
        ua, ub = rng.choice(scale_units), rng.choice(scale_units)
        if rng.random() < 0.2:
            ua = pools.prefixes[rng.choice(["milli", "kilo"])] * ua
        if rng.random() < 0.4:
            # a rate of change or a specific heat: the scale sits inside a compound unit (degC/min, J/(kg*degF))
            U_ = m.Unit._by_name
            wrap = rng.choice([lambda t: t / U_["minute"], lambda t: t / U_["second"], lambda t: U_["joule"] / (U_["kilogram"] * t), lambda t: t * U_["meter"]])
            ua, ub = wrap(ua), wrap(ub)
            ctx.count("cells/temperature/compound_units_around_a_scale")
        x, y = rng.choice([300, 20, -40, 273.15, 0, 451.5, Decimal("36.6")]), rng.choice([10, 50, -5.5, 0, 491.67, Decimal("2.5")])
        sx, sy = rng.choice([0, 0.3, 0.5, 2]), rng.choice([0, 0.4, 1.8, 0.01])
        if isinstance(x, Decimal):
            sx = Decimal(repr(sx))
        if isinstance(y, Decimal):
            sy = Decimal(repr(sy))
        A, B_ = Mt(Q(x, ua), sx), Mt(Q(y, ub), sy)
        side = rng.choice(["M-M", "M-M", "M-Q", "Q-M"])
        left, right = A, B_
        if side == "M-Q":
            right = B_.measurand
        elif side == "Q-M":
            left = A.measurand
        e = rng.randint(-2, 3)
        state["case"] = {"op": opname, "side": side, "left": repr(left), "right": repr(right), "n": e, "temperature_scales": True}
        ctx.distinct(("temperature", opname, side, str(ua), str(ub), bool(sx), bool(sy)), bool(sx) or bool(sy))
        ctx.count(f"cells/temperature/{opname}")
        try:
            if opname == "pow":
                if isinstance(left, Q) or (x == 0 and e <= 0):
                    return
                left**e
            elif opname == "truediv" and y == 0:
                return
            else:
                fn(left, right)
        except (CNF, TypeError, m.FractionalDimensionError, ZeroDivisionError, OverflowError, ArithmeticError):
            ctx.count(f"no_answer/temperature/{opname}")

    # a scale with a zero point that is not a temperature: gauge pressure against absolute pressure, declared by the
    # user with Dimension.scale; the degree is the same size, so sigma is the plain quadrature sum
    try:
        psi = m.Unit._by_name["pounds per square inch"]
        gauge = psi.dimension.scale(rng.choice([14.7, 14.696]) * psi, f"zqc14gauge{ctx.shard}", f"zqc14psig{ctx.shard}")
        for _ in range(40 if ctx.tier == "quick" else 2000):
            ctx.count("evaluations")
            ctx.count("cells/user_scale_in_another_dimension")
            x, y = rng.choice([30, 0, 100.5, -5]), rng.choice([14.7, 50, 0.25])
            sx, sy = rng.choice([0, 0.5, 2]), rng.choice([0, 0.4, 1.5])
            (ul_, ur_) = rng.choice([(gauge, psi), (psi, gauge), (gauge, gauge)])
            A, B_ = Mt(Q(x, ul_), sx), Mt(Q(y, ur_), sy)
            state["case"] = {"op": "add/sub", "left": repr(A), "right": repr(B_), "user_scale": True}
            for label, res in (("__add__", A + B_), ("__sub__", A - B_), ("__radd__", A.measurand + B_), ("__rsub__", A.measurand - B_)):
                want = math.hypot(sx if "r" not in label[2:4] else 0.0, sy)
                got = core.sf(res.uncertainty.magnitude)
                ctx.distinct(("user-scale", label, str(ul_), str(ur_), bool(sx), bool(sy)), bool(sx) or bool(sy))
                if abs(got - want) > 1e-9 * max(1.0, want) + 1e-9:
                    ctx.violation(f"C14:{label}:wrong-uncertainty:scale-with-zero-point",
                                  f"{label}: {A!r} and {B_!r} (gauge against absolute pressure): uncertainty {got!r}, first-order propagation gives {want!r}", state["case"])
        # two scales that share their zero point (degC and a user scale whose zero is 273.15 K, one with a degree of its
        # own size): nothing to subtract, yet the uncertainty still converts by the size of the degree
        K_, C_ = m.Unit._by_name["kelvin"], m.Unit._by_name["celsius"]
        twin = m.Temperature.scale(273.15 * K_, f"zqc14twin{ctx.shard}", f"zqc14tw{ctx.shard}")
        big = m.Temperature.unit(f"zqc14bigdeg{ctx.shard}", f"zqc14bd{ctx.shard}")
        big.equals(2 * K_)
        coarse = m.Temperature.scale(136.575 * big, f"zqc14coarse{ctx.shard}", f"zqc14co{ctx.shard}")
        size = {C_: 1.0, twin: 1.0, coarse: 2.0, K_: 1.0}
        for _ in range(40 if ctx.tier == "quick" else 2000):
            ul_, ur_ = rng.sample([C_, twin, coarse, K_], 2)
            x, y = rng.choice([20, 0, 36.6, -5]), rng.choice([5, 50, 0.25])
            sx, sy = rng.choice([0, 0.5, 2]), rng.choice([0, 0.4, 1.5])
            A, B_ = Mt(Q(x, ul_), sx), Mt(Q(y, ur_), sy)
            state["case"] = {"op": "add/sub", "left": repr(A), "right": repr(B_), "scales_sharing_a_zero_point": True}
            ctx.count("evaluations")
            ctx.count("cells/scales_sharing_a_zero_point")
            for label, res, lsx in (("__add__", A + B_, sx), ("__sub__", A - B_, sx), ("__radd__", A.measurand + B_, 0.0)):
                want = math.hypot(lsx, sy * size[ur_] / size[ul_])
                got = core.sf(res.uncertainty.magnitude)
                ctx.distinct(("shared-zero", label, str(ul_), str(ur_), bool(sx), bool(sy)), bool(sx) or bool(sy))
                if abs(got - want) > 1e-9 * max(1.0, want) + 1e-9:
                    ctx.violation(f"C14:{label}:wrong-uncertainty:scale-with-zero-point",
                                  f"{label}: {A!r} and {B_!r} (two scales with one zero point): uncertainty {got!r}, first-order propagation gives {want!r}", state["case"])
        # a scale and a degree of the user's own that are recalibrated between readings (the zero point stated again through
        # conversions.translate, the size of the degree stated again through equals): the same sums and differences, asked
        # before and after each correction, follow the declarations in force - measurand and uncertainty alike
        for k in range(3 if ctx.tier == "quick" else 60):
            tag = f"{ctx.shard}x{k}"
            step = m.Temperature.unit(f"zqc14step{tag}", f"zqc14st{tag}")
            s0 = rng.choice([0.5, 2.0, 1.0])
            step.equals(s0 * K_)
            z0 = rng.choice([100.0, 250.0, 10.0])
            direct = m.Temperature.scale(z0 * K_, f"zqc14recal{tag}", f"zqc14rc{tag}")          # degree = kelvin, zero z0 K
            stepped = m.Temperature.scale(10 * step, f"zqc14stepped{tag}", f"zqc14sd{tag}")      # degree = step, zero 10 steps
            zero_k = {direct: z0, stepped: 10 * s0, K_: 0.0}
            size_k = {direct: 1.0, stepped: s0, K_: 1.0}
            for phase in range(3):
                if phase == 1:
                    z0 = z0 + rng.choice([50.0, -5.0, 0.25])
                    env.conv.translate(direct, z0 * K_)
                    zero_k[direct] = z0
                    ctx.count("zero_points_stated_again")
                elif phase == 2:
                    s0 = s0 / 2
                    step.equals(s0 * K_)
                    zero_k[stepped], size_k[stepped] = 10 * s0, s0
                    ctx.count("degree_sizes_stated_again")
                for _ in range(6):
                    ul_, ur_ = rng.sample([direct, stepped, K_], 2)
                    x, y = rng.choice([300.0, 20.0, 4.0]), rng.choice([20.0, 4.0, 0.5])
                    sx, sy = rng.choice([0, 0.3, 2]), rng.choice([0.4, 0.8, 0])
                    A, B_ = Mt(Q(x, ul_), sx), Mt(Q(y, ur_), sy)
                    state["case"] = {"op": "add/sub", "left": repr(A), "right": repr(B_), "recalibrated": phase}
                    ctx.count("evaluations")
                    ctx.count("cells/scales_recalibrated_between_readings")
                    y_in_left = (y * size_k[ur_] + zero_k[ur_] - zero_k[ul_]) / size_k[ul_]
                    for label, res, lsx, wantm in (("__add__", A + B_, sx, x + y_in_left), ("__sub__", A - B_, sx, x - y_in_left), ("__radd__", A.measurand + B_, 0.0, x + y_in_left)):
                        want = math.hypot(lsx, sy * size_k[ur_] / size_k[ul_])
                        got, gotm = core.sf(res.uncertainty.magnitude), core.sf(res.measurand.magnitude)
                        ctx.distinct(("recalibrated", label, phase, str(ul_)[:9], str(ur_)[:9], bool(sx), bool(sy)), True)
                        if abs(got - want) > 1e-9 * max(1.0, want) + 1e-9:
                            ctx.violation(f"C14:{label}:wrong-uncertainty:scale-with-zero-point",
                                          f"{label}: {A!r} and {B_!r} after {phase} recalibration(s): uncertainty {got!r}, first-order propagation gives {want!r}", state["case"])
                        if abs(gotm - wantm) > 1e-9 * max(1.0, abs(wantm)) + 1e-6:
                            ctx.violation(f"C14:{label}:wrong-measurand:scale-with-zero-point",
                                          f"{label}: {A!r} and {B_!r} after {phase} recalibration(s): measurand {gotm!r}, the declarations in force give {wantm!r}", state["case"])
    except KeyError:
        ctx.count("user_scale_section_skipped")
    # augmented assignment (reading *= gain, total += sample): the name is rebound to what the binary operator gives - the
    # same measurand and the same uncertainty - and the object that was aliased is what it was
    import copy as _copy
    import operator as _op
    U2 = m.Unit._by_name
    for _ in range(80 if ctx.tier == "quick" else 4000):
        ua, ub = U2["meter"], rng.choice([U2["second"], U2["meter"], m.One])
        x, y = rng.choice([2.0, 7.5, -3.0, 120.0]), rng.choice([3.0, 0.5, 8.0])
        sx, sy = rng.choice([0.1, 0, 1.5]), rng.choice([0.2, 0, 0.05])
        A, B_ = Mt(Q(x, ua), sx), Mt(Q(y, ub), sy)
        right = rng.choice([B_, B_.measurand, y])
        for sym, ifn, fn in (("*=", _op.imul, _op.mul), ("/=", _op.itruediv, _op.truediv), ("+=", _op.iadd, _op.add), ("-=", _op.isub, _op.sub), ("**=", _op.ipow, _op.pow)):
            if sym in ("+=", "-=") and (ub is not ua or right is y):
                continue
            operand = 2 if sym == "**=" else right
            state["case"] = {"op": sym, "left": repr(A), "right": repr(operand), "augmented_assignment": True}
            ctx.count("evaluations")
            ctx.count("cells/augmented_assignment")
            try:
                want = fn(_copy.copy(A), operand)
            except Exception:
                ctx.count("no_answer/augmented_assignment")
                continue
            keep = A
            alias = A
            try:
                alias = ifn(alias, operand)
            except Exception as ex:
                ctx.violation(f"C14:augmented-assignment-raised:{type(ex).__name__}", f"a {sym} b raised {ex} where a {sym[:-1]} b answers", state["case"])
                continue
            ctx.distinct(("augmented", sym, type(operand).__name__, bool(sx), bool(sy)), True)
            same = lambda p, q: abs(core.sf(p) - core.sf(q)) <= 1e-12 * max(1.0, abs(core.sf(q)))
            if alias.measurand.unit is not want.measurand.unit or not same(alias.measurand.magnitude, want.measurand.magnitude) or not same(alias.uncertainty.magnitude, want.uncertainty.magnitude):
                ctx.violation(f"C14:augmented-assignment-differs-from-the-operator:{sym}", f"a = {A!r}; a {sym} {operand!r} gives {alias!r}, a {sym[:-1]} b gives {want!r}", state["case"])
            if keep.measurand.magnitude != x or core.sf(keep.uncertainty.magnitude) != sx:
                ctx.violation(f"C14:augmented-assignment-changed-the-aliased-operand:{sym}", f"after y = a; y {sym} {operand!r} the measurement a is {keep!r} (it was {x} +- {sx})", state["case"])
                A = Mt(Q(x, ua), sx)
    # quotients (and products back) of very large or very small float readings: the operands' ratio and every
    # partial-derivative term are ordinary numbers, only a careless intermediate product would leave the float range
    U_ = m.Unit._by_name
    for _ in range(60 if ctx.tier == "quick" else 3000):
        p10 = rng.choice([160, 200, 250, -160, -200, -161])
        x, y = rng.choice([6.0, 2.5, -3.0]) * 10.0 ** p10, rng.choice([3.0, 1.25, 8.0]) * 10.0 ** p10
        sx, sy = abs(x) * rng.choice([0.01, 0.0, 0.2]), abs(y) * rng.choice([0.01, 0.05, 0.0])
        A, B_ = Mt(Q(x, U_["meter"]), sx), Mt(Q(y, U_["second"]), sy)
        side = rng.choice(["M-M", "M-Q", "Q-M"])
        left, right = (A, B_) if side == "M-M" else (A, B_.measurand) if side == "M-Q" else (A.measurand, B_)
        state["case"] = {"op": "truediv", "side": side, "left": repr(left), "right": repr(right), "extreme_magnitudes": True}
        ctx.count("evaluations")
        ctx.count("cells/truediv/extreme_float_magnitudes")
        ctx.distinct(("extreme", side, p10 > 0, bool(sx), bool(sy)), True)
        try:
            left / right
        except Exception as ex:
            ctx.violation(f"C14:__truediv__:raised-{type(ex).__name__}", f"({left!r}) / ({right!r}) raised {ex}", state["case"])
    n = ctx.scale(40000, 1_000_000) // 2
    ops = [("add", operator.add), ("sub", operator.sub), ("mul", operator.mul), ("truediv", operator.truediv), ("pow", None)]
    for i in range(n):
        ctx.count("evaluations")
        opname, fn = rng.choice(ops)
        if i % 25 == 7 and scale_units:
            # operands read on temperature scales (every convertible unit choice counts, also those with a zero point)
            temperature_case(opname, fn)
            continue
        fa = pools.random_factors(rng, max_factors=rng.choice([1, 1, 2]), max_exp=2, hostile=0.15, physical_only=True, prefix_prob=0.3)
        try:
            ua = mdl.eval_real(pools.factors_term(fa))
        except Exception:
            continue
        if not orc.knows(ua):
            continue
        x = mag()
        sx = sigma_for(x)
        A = Mt(Q(x, ua), typed_sigma(x, sx))
        sx = core.sf(A.uncertainty.magnitude)
        if opname in ("add", "sub"):
            fb = pools.same_dimension_alternative(rng, fa, compose_prob=0.1) if rng.random() < 0.6 else fa
        else:
            fb = pools.random_factors(rng, max_factors=1, max_exp=2, hostile=0.1, physical_only=True, prefix_prob=0.3)
        try:
            ub = mdl.eval_real(pools.factors_term(fb))
        except Exception:
            continue
        if not orc.knows(ub):
            continue
        if orc.dynamic_range(ua) + orc.dynamic_range(ub) > 120:
            ctx.count("skipped_operands_may_leave_float_range")
            continue
        y = mag(zero_ok=(opname != "truediv"))
        if opname in ("add", "sub") and ub is not ua:
            # keep the two terms comparable in size
            try:
                amid, _ = si_mid(Q(abs(core.sf(x)) or 1.0, ua))
                q = express(amid * Fraction(rng.choice([1, 2, 5, 1]), rng.choice([1, 3])), fb)
                y = q.magnitude if rng.random() < 0.8 else -q.magnitude
                if not (1e-30 < abs(y) < 1e30):
                    continue
            except Exception:
                continue
        sy = sigma_for(y)
        side = rng.choice(["M-M", "M-M", "M-Q", "Q-M"])
        B = Mt(Q(y, ub), typed_sigma(y, sy))
        sy = core.sf(B.uncertainty.magnitude)
        if rng.random() < 0.03 and (y != 0 or opname != "truediv"):
            B, y, sy, ub, fb = A, x, sx, ua, fa   # the same measurement object on both sides (treated as independent inputs, as the statement says)
            ctx.count("operand_pairs_that_are_one_object")
        left, right = A, B
        if side == "M-Q":
            right, sy = B.measurand, 0
        elif side == "Q-M":
            left, sx = A.measurand, 0
        e = rng.randint(-4, 4)
        state["case"] = {"op": opname, "side": side, "left": repr(left), "right": repr(right), "n": e}
        ctx.distinct((opname, side, e if opname == "pow" else None, x == 0, y == 0, bool(sx), bool(sy), pools.shape_class(fa), pools.shape_class(fb)),
                     bool(sx) or bool(sy))
        ctx.count(f"cells/{opname}/{side}")
        if x == 0 or (y == 0 and opname != "pow"):
            ctx.count(f"zero_measurand_cases/{opname}")
        try:
            if opname == "pow":
                if isinstance(left, Q):
                    continue
                res = left**e
            else:
                res = fn(left, right)
        except (CNF, TypeError, m.FractionalDimensionError):
            ctx.count(f"no_answer/{opname}")
            continue
        except (ZeroDivisionError, OverflowError, ArithmeticError):
            ctx.count(f"arithmetic_error/{opname}")
            continue
        if isinstance(left, Mt) and opname != "pow" and rng.random() < 0.03:
            # fresh measurement objects used once, their stated uncertainty revised (a public attribute), and used again:
            # the post-conditions judge each operation by what the operands say at that moment
            try:
                l2 = Mt(left.measurand, left.uncertainty)
                r2 = Mt(right.measurand, right.uncertainty) if isinstance(right, Mt) else right
                fn(l2, r2)
                l2.uncertainty = Q(l2.uncertainty.magnitude * 2 + type(l2.uncertainty.magnitude)(1), l2.uncertainty.unit)
                if isinstance(r2, Mt):
                    r2.uncertainty = Q(r2.uncertainty.magnitude * 3, r2.uncertainty.unit)
                ctx.count("operations_repeated_after_the_uncertainty_was_revised")
                state["case"] = {**state["case"], "uncertainties_revised": True, "left": repr(l2), "right": repr(r2)}
                fn(l2, r2)
            except (CNF, TypeError, m.FractionalDimensionError, ZeroDivisionError, OverflowError, ArithmeticError):
                pass
        if i % 1500 == 13:
            ctx.sample({"op": opname, "left": str(left), "right": str(right) if opname != "pow" else e, "result": str(res)})
        # unit invariance: re-express the right operand (or the base for pow) in another unit
        if not isinstance(res, Mt) or opname == "pow" or rng.random() < 0.5:
            continue
        try:
            f2 = pools.same_dimension_alternative(rng, fb, compose_prob=0.1)
            bm, _ = si_mid(Q(y, ub))
            q2 = express(bm, f2)
            if not (1e-30 < abs(q2.magnitude) < 1e30) and not (q2.magnitude == 0 and y == 0):
                continue
            if orc.dynamic_range(q2.unit) + orc.dynamic_range(ua) + orc.dynamic_range(ub) > 120:
                ctx.count("skipped_reexpression_may_leave_float_range")
                continue
            lo_u, hi_u, _ = orc.unit_size(q2.unit)
            lo_b, hi_b, _ = orc.unit_size(ub)
            s2 = core.sf(Fraction(sy if not isinstance(sy, Decimal) else core.sf(sy)) * ((lo_b + hi_b) / 2) / ((lo_u + hi_u) / 2)) if sy else 0
            if s2 and not (1e-60 < abs(s2) < 1e60):
                continue
            B2 = Mt(q2, s2)
            right2 = B2 if isinstance(right, Mt) else q2
            state["case"] = {"op": opname, "side": side, "left": repr(left), "right": repr(right2), "reexpressed_from": repr(right)}
            res2 = fn(left, right2)
        except Exception:
            continue
        if not (orc.knows(res.measurand.unit) and orc.knows(res2.measurand.unit)):
            continue
        ctx.count("unit_invariance_comparisons")
        for what, q_a, q_b in (("measurand", res.measurand, res2.measurand), ("uncertainty", res.uncertainty, res2.uncertainty)):
            if not (kit.finite(q_a.magnitude) and kit.finite(q_b.magnitude)):
                continue
            (va, wa), (vb, wb) = si_mid(q_a), si_mid(q_b)
            ref = max(abs(si_mid(res.measurand)[0]), abs(si_mid(res.uncertainty)[0]), abs(si_mid(Q(x, ua))[0]) if opname in ("add", "sub") else 0)
            deg = orc.degree(res.measurand.unit, res2.measurand.unit)
            big_y = max(abs(core.sf(y)), abs(core.sf(sy)))
            big_x = max(abs(core.sf(x)), abs(core.sf(sx)))
            w_operands = (si_mid(Q(big_x, ua))[1] * 2 + si_mid(Q(big_y, ub))[1] * 2 + si_mid(Q(max(abs(q2.magnitude), abs(s2)), q2.unit))[1] * 2) if opname in ("add", "sub") else 0
            if abs(va - vb) > ref * (TOL * deg + Fraction(1, 10**7)) + wa + wb + w_operands:
                ctx.violation(f"C14:{opname}:result-depends-on-operand-unit:{what}",
                              f"{left!r} {opname} {right!r} vs re-expressed {right2!r}: SI {what} {core.sf(va)!r} vs {core.sf(vb)!r}", state["case"])
    # float and int readings near the upper end of the float range: the squares of the propagation terms leave the range
    # although the result does not.  Refusing with OverflowError is an answer (as above); a number must be the right
    # one - whatever decimal context the program has installed (float readings have nothing to do with it)
    import decimal
    saved_context = decimal.getcontext().copy()
    Um = m.Unit._by_name
    for _ in range(240 if ctx.tier == "quick" else 6000):
        ea = rng.randint(60, 200)
        eb = rng.randint(155 - ea, 300 - ea) if rng.random() < 0.8 else rng.randint(-40, 40)
        x = rng.uniform(1, 9.999) * 10.0 ** ea * rng.choice([1, 1, -1])
        y = rng.uniform(1, 9.999) * 10.0 ** eb
        sx, sy = abs(x) * rng.uniform(1e-5, 0.2), abs(y) * rng.uniform(1e-5, 0.2)
        if rng.random() < 0.2:
            x, sx = int(x), int(sx)
        opname = rng.choice(["mul", "truediv"])
        if opname == "truediv":
            y, sy = 1 / y, sy / y / y
        A, B = Mt(Q(x, Um["meter"]), sx), Mt(Q(y, Um["second"]), sy)
        prec = rng.choice([4, 5, 6, 9, 28])
        state["case"] = {"op": opname, "left": repr(A), "right": repr(B), "decimal_context_precision": prec}
        ctx.count("evaluations")
        ctx.count("big_readings/asked")
        decimal.setcontext(decimal.Context(prec=prec))
        try:
            r = A * B if opname == "mul" else A / B
            ctx.count("big_readings/answered")
            ctx.distinct(("big-terms", opname, prec, type(x).__name__))
        except Exception as ex:
            ctx.count(f"big_readings/raised/{type(ex).__name__}")
        finally:
            decimal.setcontext(saved_context)
    for e in ctx.known:
        if e.get("status") == "known":
            ctx.witness(e["key"], ctx.known_hits.get(e["key"], 0) > 0)
    ctx.require("uncertainties_checked/__mul__", 50)
    ctx.require("uncertainties_checked/__add__", 50)
    ctx.require("uncertainties_checked/__pow__", 50)
    ctx.require("unit_invariance_comparisons", 50)
