"""Conversions, comparisons, declarations and levels asked by two threads at once (used by C08).

The outcome of a question is a function of the equivalences declared: a second thread asking something else, or the
same thing, at the same moment must not change it, and a declaration racing with a question leaves the library in the
state the declaration describes.  The deterministic line-level scheduler (vmon/sched.py) interleaves the two threads
inside every function of measured/conversions.py and measured/__init__.py; each trial uses units of its own so that
every search is a first-time search.  Expected answers come from exact bookkeeping of the trial's own declarations
(and from the exact affine definitions for the temperature scales)."""
from __future__ import annotations

import random
from fractions import Fraction

from . import sched


def section(ctx, env, trials, key="C08"):
    m, conv, rng = env.m, env.conv, ctx.rng
    U = m.Unit._by_name
    Q = m.Quantity
    CNF = conv.ConversionNotFound
    files = (conv.__file__, m.__file__)
    every_line_limit = 160 if ctx.tier == "quick" else 600
    uid = [0]

    def fresh(tag):
        uid[0] += 1
        return f"zqcc{tag}{ctx.seed}x{uid[0]}"

    def outcome(fn):
        def run():
            try:
                r = fn()
                return ("ok", r.magnitude if hasattr(r, "magnitude") else r)
            except CNF:
                return ("raise", "ConversionNotFound")
            except TypeError:
                return ("raise", "TypeError")
            except Exception as e:  # noqa
                return ("raise", type(e).__name__)
        return run

    def close(a, b):
        try:
            return abs(Fraction(a) - Fraction(b)) <= max(abs(Fraction(a)), abs(Fraction(b)), Fraction(1)) * Fraction(1, 10**9)
        except Exception:
            return a == b

    def agree(got, allowed):
        return any(got[0] == w[0] and (close(got[1], w[1]) if got[0] == "ok" and not isinstance(w[1], (str, bool)) else got[1] == w[1]) for w in allowed)

    def scenario(name, setup, only=None):
        """setup() -> (thunks, allowed outcomes per thread, checks_afterwards [(label, thunk, allowed)]); every execution
        builds units of its own.  With `only` (a set of function names) the first thread is preempted at every line of
        those functions and the other thread runs as a whole in between - complete for one preemption"""
        holder = {}
        variant = rng.getrandbits(32)    # the same variant of the scenario in every execution of one exploration

        def make(_i):
            thunks, holder["allowed"], holder["after"] = setup(random.Random(variant))
            return [outcome(t) for t in thunks]

        def check(run, _i):
            allowed, after = holder["allowed"], holder["after"]
            ctx.count("evaluations")
            ctx.count(f"concurrent/{name}/executions")
            ctx.distinct(("concurrent", name, run.trace_hash()), run.preemptions() >= 1)
            if run.watchdog_fired:
                ctx.count("concurrent/watchdog_fired")
                return
            case = {"scenario": name, "schedule": [c for c, _, _ in run.choices][:300]}
            for tid, ok in enumerate(allowed):
                got = run.errors.get(tid)
                got = ("raise", type(got).__name__) if got is not None else run.results.get(tid)
                if got is None:
                    ctx.count("concurrent/incomplete")
                    return
                if not agree(got, ok):
                    ctx.violation(f"{key}:concurrent:{name}:answer-differs-from-the-sequential-one", f"{name}: thread {tid} got {got}, asked alone it gets one of {ok}", case)
            for label, t, ok in after:
                got = outcome(t)()
                if not agree(got, ok):
                    ctx.violation(f"{key}:concurrent:{name}:later-answer-is-wrong", f"{name}: after both threads finished, {label} gives {got}, the declarations say {ok}", case)

        if only is None:
            sched.random_schedules(make, None, files, check, rng, 1, set())
        else:
            # the listed functions, plus every function of the conversions module that the first thread is seen to enter
            # when it runs alone: helpers that were renamed, split or merged are still windows to stop in
            conv_file = conv.__file__
            entered = sched.discover(setup(random.Random(variant))[0][0], (conv_file,))
            extra = {q for q in entered if q not in only and "<" not in q}
            ctx.count("concurrent/functions_traced_beyond_the_listed_ones", len(extra))
            sched.explore(make, set(only) | extra, files, check, max_preempt=1, limit=every_line_limit)

    def chain(dim):
        a, b, c = (m.Unit.define(dim, fresh("u"), fresh("s")) for _ in range(3))
        a.equals(2 * b)
        b.equals(4 * c)
        return a, b, c

    def two_first_time_queries(r):
        a, b, c = chain(r.choice([m.Length, m.Time, m.Mass]))
        return ([lambda: (1 * a).in_unit(c), lambda: (16 * c).in_unit(a)], [[("ok", 8)], [("ok", 2)]],
                [("a -> c", lambda: (1 * a).in_unit(c), [("ok", 8)]), ("c -> b", lambda: (8 * c).in_unit(b), [("ok", 2)]), ("b**2 -> c**2", lambda: (1 * b**2).in_unit(c**2), [("ok", 16)]),
                 ("a == 8 c", lambda: (1 * a) == (8 * c), [("ok", True)])])

    def same_first_time_query_twice(r):
        a, b, c = chain(r.choice([m.Length, m.Time]))
        return ([lambda: (3 * c).in_unit(a), lambda: (3 * c).in_unit(a)], [[("ok", Fraction(3, 8))], [("ok", Fraction(3, 8))]],
                [("c -> a", lambda: (8 * c).in_unit(a), [("ok", 1)]), ("a -> c", lambda: (1 * a).in_unit(c), [("ok", 8)]), ("c < a", lambda: (1 * c) < (1 * a), [("ok", True)])])

    def correction_racing_a_question(r):
        dim = r.choice([m.Length, m.Mass])
        a, b = m.Unit.define(dim, fresh("u"), fresh("s")), m.Unit.define(dim, fresh("u"), fresh("s"))
        a.equals(4 * b)
        (1 * a).in_unit(b)
        (1 * b).in_unit(a)            # both directions are planned and memoised with the old number
        sec = U["second"]
        return ([lambda: a.equals(5 * b) or 0, r.choice([lambda: (10 * a).in_unit(b), lambda: (10 * a) == (40 * b), lambda: (20 * b).in_unit(a)])],
                [[("ok", 0)], [("ok", 40), ("ok", 50), ("ok", True), ("ok", False), ("ok", 5), ("ok", 4)]],
                [("a -> b", lambda: (10 * a).in_unit(b), [("ok", 50)]), ("b -> a", lambda: (50 * b).in_unit(a), [("ok", 10)]), ("a == 5 b", lambda: ((1 * a) == (5 * b), (5 * b) == (1 * a)), [("ok", (True, True))]),
                 ("a/s -> b/s", lambda: (2 * (a / sec)).in_unit(b / sec), [("ok", 10)]), ("there and back", lambda: (10 * a).in_unit(b).in_unit(a), [("ok", 10)])])

    def temperatures_at_once(r):
        K, C, F, R = U["kelvin"], U["celsius"], U["fahrenheit"], U["Rankine"]
        qs = [(lambda: (300 * K).in_unit(C), Fraction("26.85")), (lambda: (100 * C).in_unit(F), Fraction(212)), (lambda: (491.67 * R).in_unit(C), Fraction(0)),
              (lambda: (-40 * F).in_unit(C), Fraction(-40)), (lambda: (0 * C).in_unit(K), Fraction("273.15")), (lambda: (32 * F).in_unit(K), Fraction("273.15"))]
        (t1, w1), (t2, w2) = r.sample(qs, 2)
        conv._forget_plans() if hasattr(conv, "_forget_plans") else None
        return ([t1, t2], [[("ok", w1)], [("ok", w2)]], [("first again", t1, [("ok", w1)]), ("second again", t2, [("ok", w2)]), ("300 K > 70 degF", lambda: (300 * K) > (70 * F), [("ok", True)])])

    def impossible_question_while_another_thread_declares(r):
        dim = r.choice([m.Length, m.Mass, m.Time])
        a, x = m.Unit.define(dim, fresh("u"), fresh("s")), m.Unit.define(dim, fresh("u"), fresh("s"))
        try:
            (1 * a).in_unit(x)
        except CNF:
            pass

        def declare_elsewhere():
            p_, q_ = m.Unit.define(m.Energy, fresh("u"), fresh("s")), m.Unit.define(m.Energy, fresh("u"), fresh("s"))
            p_.equals(3 * q_)
            return 0
        ask = r.choice([(lambda: (1 * a).in_unit(x), [("raise", "ConversionNotFound")]), (lambda: (1 * a) == (1 * x), [("ok", False)]), (lambda: (1 * a) < (1 * x), [("raise", "TypeError")]),
                          (lambda: (1 * a) + (1 * x), [("raise", "ConversionNotFound")])])
        return ([ask[0], declare_elsewhere], [ask[1], [("ok", 0)]], [("again", ask[0], ask[1])])

    def levels_at_once(r):
        ref = r.choice([66.0, 12.5, 3.0])
        uid[0] += 1
        volt = U["volt"]
        lu = m.Decibel[(ref + uid[0]) * volt]
        q = Q(10 * (ref + uid[0]), volt)
        return ([lambda: q.level(lu), lambda: q.level(lu)], [[("ok", 20)], [("ok", 20)]], [("again", lambda: q.level(lu), [("ok", 20)]), ("back", lambda: (20 * lu).quantify().in_unit(volt), [("ok", 10 * (ref + uid[0]))])])

    kinds = [("two first-time questions", two_first_time_queries), ("one first-time question twice", same_first_time_query_twice),
             ("a correction racing a question", correction_racing_a_question), ("temperature questions at once", temperatures_at_once),
             ("an impossible question while another thread declares", impossible_question_while_another_thread_declares), ("levels at once", levels_at_once)]
    for k in range(trials):
        name, setup = kinds[k % len(kinds)]
        try:
            scenario(name, setup)
        except Exception as e:
            ctx.count(f"concurrent/harness_problem/{type(e).__name__}")
    # complete for one preemption: the declaring (or asking) thread stopped before each line of the named functions while
    # the other thread does its whole job
    rounds = 1 if ctx.tier == "quick" else 12
    for _ in range(rounds):
        for name, setup, only in (("a correction racing a question", correction_racing_a_question, {"equate", "translate", "_forget_plans", "Unit.equals"}),
                                  ("an impossible question while another thread declares", impossible_question_while_another_thread_declares, {"convert", "_plan_conversion", "_find_path"}),
                                  ("two first-time questions", two_first_time_queries, {"convert", "_plan_conversion", "_find_path", "_find_path_recursive", "_inline_paths"})):
            try:
                scenario(name + " (every line)", setup, only=only)
            except Exception as e:
                ctx.count(f"concurrent/harness_problem/{type(e).__name__}")
