"""Fresh-process history runner (DESIGN.md §2.7).

    python worker.py  < spec.json  > log.json

spec = {"modules": "all" | [names] | [],  "ops": [...], "sweep": bool}
Executes the operations against the real library and prints one JSON event log: per op
{"ok": value} or {"raise": exception type name}.  Contains no `assert` (runs under -O too).
"""
from __future__ import annotations

import json
import os
import sys

HERE = os.path.dirname(os.path.abspath(__file__))
sys.path.insert(0, os.path.dirname(HERE))

from vmon import model as M  # noqa: E402


def main():
    spec = json.load(sys.stdin)
    out = {"results": [], "fatal": None}
    try:
        run(spec, out)
    except BaseException as e:  # noqa
        import traceback

        out["fatal"] = f"{type(e).__name__}: {e}\n{traceback.format_exc()[-1500:]}"
    json.dump(out, sys.stdout)


class World:
    def __init__(self, spec):
        if spec.get("decimal_context_at_import"):
            # the program set up its decimal context (a report with few digits, another rounding mode) BEFORE it imported
            # the library and its unit modules; it may put the default back afterwards
            import decimal
            c = spec["decimal_context_at_import"]
            decimal.getcontext().prec = c.get("prec", 28)
            if c.get("rounding"):
                decimal.getcontext().rounding = getattr(decimal, c["rounding"])
        import measured
        from measured import conversions

        self.m = measured
        self.conv = conversions
        mods = spec.get("modules", [])
        if mods == "all":
            from vmon import boot

            self.b = boot.boot()
        else:
            import importlib

            for name in mods:
                importlib.import_module(f"measured.{name}")
            self.b = None
        self.vars = {}
        if spec.get("decimal_context_at_import", {}).get("restore_after_import"):
            import decimal
            decimal.setcontext(decimal.Context())

    # term evaluation (units by name; ["var", k] refers to an earlier result)
    def unit(self, t):
        m = self.m
        op = t[0]
        if op == "u":
            return m.Unit._by_name[t[1]]
        if op == "var":
            return self.vars[t[1]]
        if op == "pfx":
            return m.Prefix._by_name[t[1]] * self.unit(t[2])
        if op == "pfxraw":
            return m.Prefix(t[1], t[2]) * self.unit(t[3])
        if op == "mul":
            return self.unit(t[1]) * self.unit(t[2])
        if op == "div":
            return self.unit(t[1]) / self.unit(t[2])
        if op == "pow":
            return self.unit(t[1]) ** t[2]
        if op == "root":
            return self.unit(t[1]).root(t[2])
        raise ValueError(t)

    def dim(self, spec):
        m = self.m
        if spec[0] == "dimname":
            return m.Dimension._by_name[spec[1]]
        if spec[0] == "exps":
            n = len(m.Number.exponents)
            ex = list(spec[1]) + [0] * (n - len(spec[1]))
            return m.Dimension(tuple(ex[:n]))
        raise ValueError(spec)

    def q(self, mag, t):
        return self.m.Quantity(M.dec_mag(mag), self.unit(t))


def enc_q(w, q, want_unit=None):
    d = {"mag": M.enc_mag(q.magnitude), "unit": str(q.unit) if q.unit.symbol or True else None}
    if want_unit is not None:
        d["unit_is_target"] = q.unit is want_unit
    return d


def dim_exps(d):
    return list(d.exponents)


class DoesNotTerminate(BaseException):
    """one operation used more than CPU_LIMIT seconds of this process's own CPU time (not wall-clock time: a loaded machine
    does not count).  Operations of these histories take milliseconds"""


CPU_LIMIT = 20.0


def run(spec, out):
    import signal

    w = World(spec)
    m, conv = w.m, w.conv
    res = out["results"]

    def out_of_time(*_):
        raise DoesNotTerminate(f"more than {CPU_LIMIT} s of CPU time in one operation")

    try:
        signal.signal(signal.SIGVTALRM, out_of_time)
        timed = True
    except (ValueError, AttributeError):
        timed = False
    gave_up = False
    for op in spec["ops"]:
        kind = op[0]
        if gave_up:
            res.append({"raise": "NotRun", "msg": "an earlier operation did not terminate; the process was not trusted any further"})
            continue
        try:
            if timed:
                signal.setitimer(signal.ITIMER_VIRTUAL, CPU_LIMIT)
            try:
                r = step(w, kind, op)
            finally:
                if timed:
                    signal.setitimer(signal.ITIMER_VIRTUAL, 0)
            res.append({"ok": r})
        except BaseException as e:  # noqa
            if isinstance(e, (KeyboardInterrupt, SystemExit)):
                raise
            res.append({"raise": type(e).__name__, "msg": str(e)[:200]})
            if isinstance(e, DoesNotTerminate):
                gave_up = True
    if spec.get("sweep"):
        out["sweep"] = sweep(w)


def lru_caches(conv):
    out = []
    for name in dir(conv):
        f = getattr(conv, name)
        if hasattr(f, "cache_clear") and hasattr(f, "cache_info"):
            out.append((name, f))
    return out


def step(w, kind, op):
    m, conv = w.m, w.conv
    if kind == "define":
        u = m.Unit.define(w.dim(op[3]), op[1], op[2])
        return u.name
    if kind == "declare":
        a = w.unit(op[1])
        a.equals(w.q(op[2], op[3]))
        return True
    if kind == "scale":
        w.dim(op[3]).scale(w.q(op[4], op[5]), op[1], op[2])
        return True
    if kind == "convert":
        dst = w.unit(op[3])
        r = w.q(op[1], op[2]).in_unit(dst)
        return enc_q(w, r, dst)
    if kind == "build":
        # intern the unit expressions of a query without asking anything
        for t in op[1]:
            w.unit(t)
        return True
    if kind == "chain":
        units = [w.unit(t) for t in op[2]]
        q = m.Quantity(M.dec_mag(op[1]), units[0])
        out = []
        for u in units[1:]:
            q = q.in_unit(u)
            out.append(M.enc_mag(q.magnitude))
        return out
    if kind in ("eq", "ne", "lt", "le", "gt", "ge"):
        a, b = w.q(op[1], op[2]), w.q(op[3], op[4])
        import operator

        return bool(getattr(operator, kind)(a, b))
    if kind in ("add", "sub"):
        a, b = w.q(op[1], op[2]), w.q(op[3], op[4])
        r = a + b if kind == "add" else a - b
        return enc_q(w, r, a.unit)
    if kind == "sorted":
        qs = [w.q(mm, t) for mm, t in op[1]]
        return [enc_q(w, x) for x in sorted(qs)]
    if kind == "name":
        # a unit expression that has been anonymous so far gets a name and a symbol (a definition, not an equivalence)
        u = m.Unit.derive(w.unit(op[1]), op[2], op[3])
        return u.name
    if kind == "little_stack":
        # the question is asked from deep inside the program's own recursion: only `free` interpreter frames are left,
        # so the search may die of RecursionError anywhere.  The operands are built first, with all the stack there is
        free, inner = op[1], op[2]
        import operator
        import sys

        if inner[0] == "convert":
            a, dst = w.q(inner[1], inner[2]), w.unit(inner[3])
            ask = lambda: enc_q(w, a.in_unit(dst), dst)
        elif inner[0] in ("eq", "lt"):
            a, b = w.q(inner[1], inner[2]), w.q(inner[3], inner[4])
            ask = lambda: bool(getattr(operator, inner[0])(a, b))
        else:
            raise ValueError(f"little_stack cannot wrap {inner[0]}")
        depth, f = 0, sys._getframe()
        while f is not None:
            depth, f = depth + 1, f.f_back
        old = sys.getrecursionlimit()
        sys.setrecursionlimit(depth + free)
        try:
            return ["answered", ask()]
        except RecursionError:
            return ["ran-out-of-stack"]
        finally:
            sys.setrecursionlimit(old)
    if kind == "decimal_prec":
        import decimal
        decimal.getcontext().prec = op[1]     # the program changes the ambient decimal precision (for everything after)
        return True
    if kind == "flush":
        for _, f in lru_caches(conv):
            f.cache_clear()
        return True
    if kind == "cache_info":
        return {name: list(f.cache_info()) for name, f in lru_caches(conv)}
    if kind == "probe_dim":
        return dim_exps(w.unit(op[1]).dimension)
    if kind == "let":
        w.vars[op[1]] = w.unit(op[2])
        return str(w.vars[op[1]])
    if kind == "str":
        return str(w.unit(op[1]))
    if kind == "fmt":
        return format(w.unit(op[1]), op[2])
    if kind == "qfmt":
        return format(w.q(op[1], op[2]), op[3])
    if kind == "as_ratio":
        n, d = w.unit(op[1]).as_ratio()
        return [str(n), str(d)]
    if kind == "pretty":
        from IPython.lib.pretty import pretty

        return pretty(w.unit(op[1]))
    if kind == "qpretty":
        from IPython.lib.pretty import pretty

        return pretty(w.q(op[1], op[2]))
    if kind == "html":
        return w.unit(op[1])._repr_html_()
    if kind == "qhtml":
        return w.q(op[1], op[2])._repr_html_()
    if kind == "parse_unit":
        return str(m.Unit.parse(op[1]))
    if kind == "parse_quantity":
        return str(m.Quantity.parse(op[1]))
    if kind == "quantify":
        return str(w.unit(op[1]).quantify())
    if kind == "pickle":
        import pickle

        u = w.unit(op[1])
        return pickle.loads(pickle.dumps(u, protocol=op[2] if len(op) > 2 else pickle.HIGHEST_PROTOCOL)) is u
    if kind == "json":
        import json as J

        from measured.json import MeasuredJSONDecoder, MeasuredJSONEncoder

        u = w.unit(op[1])
        return J.loads(J.dumps(u, cls=MeasuredJSONEncoder), cls=MeasuredJSONDecoder) is u
    if kind == "cli":
        import contextlib
        import io

        from measured import cli

        buf = io.StringIO()
        with contextlib.redirect_stdout(buf):
            try:
                cli.print_quantity(op[1])
            except SystemExit:
                return "exit"
        return len(buf.getvalue())
    if kind == "level":
        lu = m.Decibel[w.q(op[1], op[2])]
        return {"mag": M.enc_mag(w.q(op[3], op[4]).level(lu).magnitude)}
    if kind == "lt_level":
        # an ordering between a quantity and a level (of a reference that the quantity's unit may not be convertible to)
        lu = m.Decibel[w.q(op[4], op[5])]
        a, b = w.q(op[1], op[2]), m.Level(M.dec_mag(op[3]), lu)
        return [bool(a < b), bool(b > a)] if op[6] == "lt" else [bool(a >= b), bool(b <= a)] if op[6] == "ge" else sorted([a, b]) is not None
    if kind == "define_dimension":
        d = m.Dimension.define(op[1], op[2])
        return dim_exps(d)
    raise ValueError(f"unknown op {kind}")


def sweep(w):
    """structural invariants of the intern tables at a quiescent point (read-only)"""
    m = w.m
    bad = []
    n = 0
    for key, u in list(m.Unit._known.items()):
        n += 1
        ex = [0] * len(m.Number.exponents)
        for f, e in u.factors.items():
            if f is u:
                ex = None
                break
            for i, x in enumerate(f.dimension.exponents):
                ex[i] += x * e
        if ex is not None and tuple(ex) != tuple(u.dimension.exponents):
            bad.append({"unit": str(u), "dimension": list(u.dimension.exponents), "product_of_factors": ex})
    return {"units": n, "bad": bad[:20], "nbad": len(bad)}


if __name__ == "__main__":
    main()
