"""Prototype of the C08 history check: interleaved history (P1) vs declarations-only baseline (P2)."""
import json, random, subprocess, sys, os

WORKER = r'''
import sys, json
from measured import *
from measured import systems, conversions
from measured.conversions import ConversionNotFound
DIMS={'L':Length,'T':Time,'M':Mass}
units={}
def U(name):
    if name in units: return units[name]
    return Unit.named(name)
def term(t):
    r=One
    for n,e in t: r=r*U(n)**e
    return r
def outcome(f):
    try:
        r=f()
        if isinstance(r,Quantity): return ['value',repr(r.magnitude)]
        return ['value',repr(r)]
    except ConversionNotFound: return ['raise','ConversionNotFound']
    except TypeError: return ['raise','TypeError']
    except Exception as e: return ['raise',type(e).__name__]
hist=json.loads(sys.argv[1]); log=[]
for op in hist:
    k=op[0]
    if k=='define':
        units[op[1]]=DIMS[op[2]].unit(op[1],op[1]); log.append(['ok'])
    elif k=='declare':
        U(op[1]).equals(op[2]*term(op[3])); log.append(['ok'])
    elif k=='convert':
        log.append(outcome(lambda:(op[1]*term(op[2])).in_unit(term(op[3]))))
    elif k=='eq':
        log.append(outcome(lambda:(op[1]*term(op[2]))==(op[3]*term(op[4]))))
    elif k=='lt':
        log.append(outcome(lambda:(op[1]*term(op[2]))<(op[3]*term(op[4]))))
print(json.dumps({'log':log,'plan_cache':list(conversions._plan_conversion.cache_info()),'path_cache':list(conversions._find_path.cache_info())}))
'''


def run(hist, env):
    r = subprocess.run([sys.executable, '-c', WORKER, json.dumps(hist)], capture_output=True, text=True, timeout=120, env=env)
    if r.returncode:
        return {'error': r.stderr[-500:]}
    return json.loads(r.stdout)


def gen(rnd, hid):
    dim = rnd.choice(['L', 'T', 'M'])
    shipped = {'L': ['meter', 'foot'], 'T': ['second', 'hour'], 'M': ['gram', 'pound']}[dim]
    n = rnd.randint(3, 6)
    names = [f'zz{hid}x{i}' for i in range(n)]
    decls = []
    # random tree over names + maybe link to shipped
    for i in range(1, n):
        j = rnd.randrange(i)
        k = rnd.choice([2, 4, 0.5, 8, 16, 0.25])
        if rnd.random() < 0.25:
            decls.append(['declare', names[i], k, [[names[j], 1]]])
        else:
            decls.append(['declare', names[i], k, [[names[j], 1]]])
    if rnd.random() < 0.7:
        decls.append(['declare', names[rnd.randrange(n)], rnd.choice([2, 4, 0.5]), [[rnd.choice(shipped), 1]]])
    if rnd.random() < 0.3:   # re-declaration with a different value
        d = rnd.choice(decls)
        decls.append(['declare', d[1], d[2] * 2, d[3]])
    allu = names + shipped
    def query():
        a, b = rnd.sample(allu, 2)
        e = rnd.choice([1, 1, 2, -1])
        kind = rnd.choice(['convert', 'convert', 'eq', 'lt'])
        if kind == 'convert':
            return ['convert', rnd.choice([1, 2.5, -3]), [[a, e]], [[b, e]]]
        return [kind, 1, [[a, e]], rnd.choice([1, 2, 0.5]), [[b, e]]]
    defines = [['define', nm, dim] for nm in names]
    final = [query() for _ in range(rnd.randint(4, 8))]
    # interleave: defines first (units must exist), then declarations interleaved with queries (incl. the final queries asked early)
    mid = []
    pending = list(decls)
    while pending:
        if rnd.random() < 0.6:
            mid.append(rnd.choice(final) if rnd.random() < 0.7 else query())
        else:
            mid.append(pending.pop(0))
    p1 = defines + mid + final
    p2 = defines + decls + final
    return p1, p2, len(final)


if __name__ == '__main__':
    seed = int(sys.argv[1]); N = int(sys.argv[2])
    rnd = random.Random(seed)
    env = dict(os.environ, PYTHONHASHSEED='0')
    diffs = 0; early = 0
    for h in range(N):
        p1, p2, nf = gen(rnd, h)
        r1 = run(p1, env); r2 = run(p2, env)
        if 'error' in r1 or 'error' in r2:
            print('ERR', r1.get('error', '')[-200:], r2.get('error', '')[-200:]); continue
        f1 = r1['log'][-nf:]; f2 = r2['log'][-nf:]
        if f1 != f2:
            diffs += 1
            if diffs <= 3:
                for q, a, b in zip(p1[-nf:], f1, f2):
                    if a != b: print('DIFF', q, a, b)
    print('histories', N, 'differing', diffs)
