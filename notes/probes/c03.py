from decimal import Decimal
from measured import *
from measured import systems
from measured.si import *
from measured.us import *
from measured.conversions import ConversionNotFound
import traceback
def t(label, f):
    try:
        r=f(); print(label,'->',repr(r) if not isinstance(r,Quantity) else (r.magnitude, type(r.magnitude).__name__, str(r.unit), str(r.unit.dimension)))
    except Exception as e:
        print(label,'!!',type(e).__name__,e)
q=Decimal('2.5')*Meter; r=3*Second; f=1.5*Foot
t('dec*int',lambda:q*r)
t('int/dec',lambda:r/q)
t('dec**2',lambda:q**2)
t('dec**-2',lambda:q**-2)
t('(int q)**-1',lambda:(2*Meter)**-1)
t('dec root',lambda:(q**2).root(2))
t('int root',lambda:((4*Meter)**2).root(2))
t('2/q',lambda:2/q)
t('Decimal/q',lambda:Decimal(2)/(3*Meter))
t('Decimal/q float',lambda:Decimal(2)/(3.0*Meter))
t('unit/q',lambda:Meter/q)
t('q/unit',lambda:q/Second)
t('unit*q',lambda:Second*q)
t('q+r',lambda:q+r)
t('q-r',lambda:q-r)
t('q<r',lambda:q<r)
t('q==r',lambda:q==r)
t('q!=r',lambda:q!=r)
t('q+f',lambda:q+f)
t('f+q',lambda:f+q)
t('q+1',lambda:q+1)
t('1+q',lambda:1+q)
t('q-1',lambda:1-q)
t('sum',lambda:sum([1*Meter,2*Meter]))
t('q in sec',lambda:q.in_unit(Second))
t('abs',lambda:abs(-q))
t('neg',lambda:-q)
t('q**0',lambda:q**0)
t('q root0',lambda:q.root(0))
t('q**2.0',lambda:q**2.0)
t('q root -2',lambda:(q**-2).root(-2))
t('neg root',lambda:((-4*Meter**2)).root(2))
t('q<=r',lambda:q<=r)
t('q>=r',lambda:q>=r)
t('q % r',lambda:q % (1*Meter))
t('q // r',lambda:q // (1*Meter))
t('float(q)',lambda:float(q))
t('Prefix*num',lambda:Kilo*2)
t('num*Prefix',lambda:Decimal(2)*Kilo)
t('1*One + 1',lambda:(1*One)+1)
t('rad+1',lambda:(1*Radian)+(1*One))
t('rad==one',lambda:(1*Radian)==(1*One))
t('rad<one',lambda:(1*Radian)<(2*One))
t('hz vs bq',lambda:(1*Hertz)+(1*One/Second))
t('q+Level', lambda:(1*Watt)+ (3*Decibel[1*Watt]))
