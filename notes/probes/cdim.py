from measured import *
from measured import systems
from measured.si import *
a=Meter/Second
Money=Dimension.define('money','$')
Dollar=Money.unit('dollar','USD')
print(Money.exponents, Length.exponents, len(Number.exponents))
print((Meter/Second) is a, (Meter/Second).dimension is Speed, Speed.exponents)
print((Dollar/Meter).dimension, (Dollar/Meter).dimension.exponents)
print((Length*Length) is Area, (Length/Time) is Speed, Dimension(Speed.exponents) is Speed)
b=Meter**2/Second**3
print(b.dimension.exponents, (b*Dollar).dimension.exponents)
import pickle
print(pickle.loads(pickle.dumps(Speed)) is Speed)
print((3*Dollar/Hour).in_unit(Dollar/Second))
print(Dimension._known.keys()==set(d.exponents for d in Dimension._known.values()))
