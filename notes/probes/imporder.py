"""Import-order configurations: compare registries/declarations across module import orders (fresh processes)."""
import subprocess, sys, json, random, itertools
MODS=['acoustics','apocrypha','astronomical','avoirdupois','computing','electronics','energy','eu','fff','iec','iso','metric','music','natural','si','troy','us','physics','geometry']
child=r'''
import sys, json
import measured
from measured import conversions, Unit, Prefix, Dimension
decls=[]
oe=conversions.equate
def rec(a,b):
    decls.append((repr(a.magnitude),str(a.unit),repr(b.magnitude),str(b.unit))); return oe(a,b)
conversions.equate=rec
import importlib
for m in json.loads(sys.argv[1]): importlib.import_module('measured.'+m)
out={
 'decls':sorted(decls),
 'unit_names':sorted((n,u.symbol or '',str(u.dimension)) for n,u in Unit._by_name.items()),
 'unit_symbols':sorted((s,u.name or '') for s,u in Unit._by_symbol.items()),
 'prefix_names':sorted((n,p.symbol or '',p.base,p.exponent) for n,p in Prefix._by_name.items()),
 'prefix_symbols':sorted((s,p.name or '?',p.base,p.exponent) for s,p in Prefix._by_symbol.items()),
 'ratios':sorted((str(a),str(b),repr(r)) for a,d in conversions._ratios.items() for b,r in d.items()),
 'n_known':len(Unit._known),
}
print(json.dumps(out))
'''
def run(order):
    r=subprocess.run([sys.executable,'-c',child,json.dumps(order)],capture_output=True,text=True,timeout=60)
    if r.returncode: return {'error':r.stderr[-400:]}
    return json.loads(r.stdout)
base=run(MODS)
random.seed(0)
diffs=0
for t in range(12):
    o=MODS[:]; random.shuffle(o)
    r=run(o)
    if 'error' in r: print('ERR',o[:4],r['error']); continue
    for k in base:
        if r[k]!=base[k]:
            diffs+=1
            a=set(map(tuple,base[k])) if isinstance(base[k],list) else base[k]; b=set(map(tuple,r[k])) if isinstance(r[k],list) else r[k]
            print('DIFF',k,o[:5], (list(a-b)[:3],list(b-a)[:3]) if isinstance(a,set) else (a,b))
print('orders',12,'diffs',diffs, 'decls',len(base['decls']),'names',len(base['unit_names']))
# single-module-first configs
for m in MODS:
    r=run([m])
    if 'error' in r: print('ERR single',m,r['error'][-200:])
    else: print(m, 'units',len(r['unit_names']),'decls',len(r['decls']),'prefix d->',[x for x in r['prefix_symbols'] if x[0]=='d'])
