import random, sys, operator
from decimal import Decimal
from collections import Counter, defaultdict
from measured import *
from measured import systems
from measured.si import *
from measured.us import *
from measured.conversions import ConversionNotFound
random.seed(int(sys.argv[1]))
named=sorted(set(Unit._by_name.values()),key=lambda u:u.name)
prefs=[IdentityPrefix]*3+[Kilo,Milli,Mega]
def runit():
    r=One
    for _ in range(random.randint(1,2)): r=r*((random.choice(prefs)*random.choice(named))**random.choice([1,1,2,-1,-2]))
    return r
def rmag(kind): return {'int':random.choice([1,2,-3,7,0]),'float':random.choice([0.5,-2.25,1e3,3.0]),'dec':random.choice([Decimal('1.5'),Decimal('-2'),Decimal('0.001')])}[kind]
def dimvec(d): return d.exponents
def vadd(a,b): return tuple(x+y for x,y in zip(a,b))
def vsub(a,b): return tuple(x-y for x,y in zip(a,b))
def vmul(a,n): return tuple(x*n for x in a)
res=Counter(); ex=defaultdict(list)
kinds=['int','float','dec']
for i in range(int(sys.argv[2])):
    ka=random.choice(kinds); kb=random.choice(kinds+['num-int','num-float','num-dec','unit','prefix'])
    a=Quantity(rmag(ka),runit())
    if kb in kinds: b=Quantity(rmag(kb),runit())
    elif kb.startswith('num'): b=rmag(kb[4:])
    elif kb=='unit': b=runit()
    else: b=random.choice([Kilo,Milli])
    hasdec = isinstance(a.magnitude,Decimal) or (isinstance(b,Quantity) and isinstance(b.magnitude,Decimal)) or isinstance(b,Decimal)
    da=dimvec(a.unit.dimension); db=dimvec(b.unit.dimension) if isinstance(b,Quantity) else (dimvec(b.dimension) if isinstance(b,Unit) else vmul(da,0))
    for opname,f,expdim in (('mul',lambda:a*b,vadd(da,db)),('rmul',lambda:b*a,vadd(da,db)),('div',lambda:a/b,vsub(da,db)),('rdiv',lambda:b/a,vsub(db,da))):
        if isinstance(b,Quantity) and b.magnitude==0 and opname=='div': continue
        if a.magnitude==0 and opname=='rdiv': continue
        try:
            r=f()
        except TypeError as e:
            res[(opname,ka,kb,'TypeError')]+=1; continue
        except Exception as e:
            res[(opname,ka,kb,'!!'+type(e).__name__)]+=1; ex['exc'].append((opname,str(a),str(b),str(e)[:60])); continue
        if not isinstance(r,Quantity): res[(opname,ka,kb,'notqty:'+type(r).__name__)]+=1; continue
        ok=dimvec(r.unit.dimension)==expdim
        okd=(not hasdec) or isinstance(r.magnitude,Decimal)
        res[(opname,'dim-ok' if ok else 'DIM-BAD')]+=1
        res[(opname,'dec-ok' if okd else 'DEC-BAD')]+=1
        if not ok and len(ex[(opname,'dim')])<5: ex[(opname,'dim')].append((ka,kb,str(a),str(b),str(r)))
        if not okd and len(ex[(opname,'dec')])<5: ex[(opname,'dec')].append((ka,kb,str(a),repr(b)[:40],repr(r.magnitude)))
    # pow / root
    n=random.choice([-3,-2,-1,0,1,2,3])
    try:
        r=a**n
        ok=dimvec(r.unit.dimension)==vmul(da,n); okd=(not isinstance(a.magnitude,Decimal)) or isinstance(r.magnitude,Decimal)
        res[('pow','dim-ok' if ok else 'DIM-BAD')]+=1; res[('pow','dec-ok' if okd else 'DEC-BAD')]+=1
        if n and a.magnitude>0:
            rr=r.root(n)
            ok=dimvec(rr.unit.dimension)==da; okd=(not isinstance(a.magnitude,Decimal)) or isinstance(rr.magnitude,Decimal)
            res[('root','dim-ok' if ok else 'DIM-BAD')]+=1; res[('root','dec-ok' if okd else 'DEC-BAD')]+=1
            if not okd: ex[('root','dec')].append((str(a),n,repr(rr.magnitude)))
    except ZeroDivisionError: res[('pow','zerodiv')]+=1
    except Exception as e: res[('pow','!!'+type(e).__name__)]+=1; ex['powexc'].append((str(a),n,str(e)[:60]))
    # neg abs
    for nm,f in (('neg',lambda:-a),('abs',lambda:abs(a)),('pos',lambda:+a)):
        r=f(); ok=r.unit is a.unit and type(r.magnitude) is type(a.magnitude)
        res[(nm,'ok' if ok else 'BAD')]+=1
    # add/sub with same-dim other
    if isinstance(b,Quantity):
        c=Quantity(rmag(kb), a.unit if random.random()<0.5 else a.unit)  # same unit (conversion handled elsewhere)
        for nm,f in (('add',lambda:a+c),('sub',lambda:a-c)):
            r=f(); ok=r.unit is a.unit; okd=(not (isinstance(a.magnitude,Decimal) or isinstance(c.magnitude,Decimal))) or isinstance(r.magnitude,Decimal)
            res[(nm,'ok' if ok and okd else 'BAD')]+=1
            if not(ok and okd): ex[nm].append((str(a),str(c),repr(r.magnitude)))
        # incommensurable
        if da!=db:
            for nm,f in (('add',lambda:a+b),('sub',lambda:a-b),('lt',lambda:a<b),('le',lambda:a<=b),('gt',lambda:a>b),('ge',lambda:a>=b),('conv',lambda:a.in_unit(b.unit))):
                try: r=f(); res[('incomm',nm,'RETURNED')]+=1; ex['incomm'].append((nm,str(a),str(b),repr(r)[:50]))
                except (TypeError,ConversionNotFound): res[('incomm',nm,'raised-ok')]+=1
                except Exception as e: res[('incomm',nm,'!!'+type(e).__name__)]+=1; ex['incommexc'].append((nm,str(a),str(b),str(e)[:50]))
            res[('incomm','eq','ok' if (a==b) is False and (a!=b) is True else 'BAD')]+=1
for k in sorted(res,key=str):
    if not str(k[-1]).endswith('ok') and 'TypeError' not in str(k): print(k,res[k])
print('total ok',sum(v for k,v in res.items() if str(k[-1]).endswith('ok')))
for k,v in ex.items():
    print('==',k,len(v))
    for t in v[:5]: print('   ',t)
