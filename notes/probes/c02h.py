import random, sys
from measured import *
from measured import systems
from measured.si import *
from measured.iec import *
from measured.us import *
seed=int(sys.argv[1]); random.seed(seed)
base=[u for u in Unit.base()]
named=sorted(set(Unit._by_name.values()),key=lambda u:u.name)
prefs=[IdentityPrefix,Kilo,Milli,Mega,Micro,Centi,Kibi,Mebi,Prefix(2,3),Deca]
def nf(u):
    fs=frozenset((id(f),e) for f,e in u.factors.items() if f is not One and e!=0) if not (len(u.factors)==1 and next(iter(u.factors)) is u) else ('base',id(u))
    p=(0,0) if (u.prefix.base==0 or u.prefix.exponent==0) else (u.prefix.base,u.prefix.exponent)
    return (p,fs)
def sweep():
    seen={}; dup=[]; keybad=[]
    for k,u in Unit._known.items():
        n=nf(u)
        if n in seen and seen[n] is not u: dup.append((str(seen[n]),repr(seen[n].prefix),str(u),repr(u.prefix),dict(u.factors)==dict(seen[n].factors)))
        seen[n]=u
        if Unit._build_key(u.prefix,u.factors)!=k: keybad.append(str(u))
    pk=[k for k,p in Prefix._known.items() if (p.base,p.exponent)!=k]
    return dup,keybad,pk
pool=list(named)
for i in range(int(sys.argv[2])):
    op=random.choice(['mul','div','pow','root','pmul','qmul','qroot','pdiv'])
    a=random.choice(pool); b=random.choice(pool)
    try:
        if op=='mul': r=a*b
        elif op=='div': r=a/b
        elif op=='pow': r=a**random.randint(-3,3)
        elif op=='root':
            n=random.choice([1,2,3,-1,-2]); r=(a**n).root(n)
        elif op=='pmul': r=random.choice(prefs)*a
        elif op=='pdiv': r=a/(random.choice(prefs)*b)
        elif op=='qmul': r=((2*a)*(3*b)).unit
        elif op=='qroot': r=((4*a)**2).root(2).unit
    except (FractionalDimensionError, ZeroDivisionError, OverflowError) as e: continue
    if len(r.factors)<=4 and isinstance(r.prefix.exponent,int) and abs(r.prefix.exponent)<40: pool.append(r)
    if len(pool)>600: pool=named+random.sample(pool,300)
dup,keybad,pk=sweep()
print('units',len(Unit._known),'dups',len(dup),'keybad',len(keybad),'prefix keybad',len(pk))
for d in dup[:8]: print('  DUP',d)
