from decimal import Decimal
from measured import *
from measured import systems
from measured.si import *
from measured.us import Foot, Inch, Mile
a=1*Kilo*Meter; b=1000*Meter; c=1000.0*Meter
print('eq',a==b,b==a, hash(a)==hash(b), 'int/float', b==c, hash(b)==hash(c))
f=1*Foot; i=12*Inch
print('ft/in', f==i, i==f, hash(f)==hash(i))
print('dec', (Decimal('1')*Meter)==(1*Meter), hash(Decimal('1')*Meter)==hash(1*Meter))
m1=Measurement(10*Meter,1); m2=Measurement(10*Meter,5)
print('meas eq asym', m1==m2, m2==m1)
print('meas vs qty', m2==(14*Meter),(14*Meter)==m2, m1==(14*Meter),(14*Meter)==m1)
m3=Measurement(32.8*Foot,0.1)
print('meas cross unit', m1==m3, m3==m1)
dBW=Decibel[1*Watt]
L=20*dBW
print('level', L==(100*Watt),(100*Watt)==L, L==(100.0*Watt), (100.0*Watt)==L, L==20*dBW, L.quantify())
print('level lt', (50*Watt)<L, L>(50*Watt) if hasattr(L,'__gt__') else None)
try: print(L<(200*Watt))
except Exception as e: print(type(e).__name__,e)
print('approx', (5.2*Meter)==approximately(5*Meter,0.3), approximately(5*Meter,0.3)==(5.2*Meter))
print('approx', (5.2*Meter)==approximately(5*Meter,0.01), approximately(5*Meter,0.01)==(5.2*Meter))
x=Measurement(5*Meter,0.5)
print('meas lt/gt', x<(6*Meter),(6*Meter)>x, x<=(6*Meter),(6*Meter)>=x, (6*Meter)<x, x>(6*Meter))
print('meas ne', m1!=m2, m2!=m1)
print('level==meas', L==approximately(100*Watt), approximately(100*Watt)==L, approximately(L)==(100*Watt))
print(sorted([1*Mile, 1*Kilo*Meter, 3000*Foot, 900*Meter, 1*Foot], key=None))
import math
print('nan', (math.nan*Meter)==(math.nan*Meter), (math.inf*Meter)>(1*Foot))
print('trich', [( (1*Foot)<(0.3048*Meter), (1*Foot)==(0.3048*Meter), (1*Foot)>(0.3048*Meter))])
print('le/ge', (1*Foot)<=(0.3048*Meter), (0.3048*Meter)>=(1*Foot))
print('diff dims', (1*Meter)==(1*Second), (1*Meter)!=(1*Second), (1*Meter)==1, 1==(1*One), (1*One)==1)
try: print(hash(m1))
except Exception as e: print('hash meas',type(e).__name__,e)
try: print(hash(L))
except Exception as e: print('hash level',type(e).__name__,e)
