import random
from measured import *
from measured import systems
from measured.parsing import ParseError
from collections import Counter, defaultdict
random.seed(0)
syms=list(Unit._by_symbol)+list(Unit._by_name)+[p for p in Prefix._by_symbol]
alphabet=list("1mskgΩ°.-()⋅*/^⁻¹²³⁰⁴⁵⁶⁷⁸⁹ +-0123456789eE.\t\nAÅₐ☉μαω")+["inf","nan","1e999","-0","^-","^+2","^99999999999999999999","⁻","⁰","^0","1","1 1","(",")"]
res=Counter(); ex=defaultdict(list)
def gen():
    r=random.random()
    if r<0.4:
        return ''.join(random.choice(alphabet) for _ in range(random.randint(0,10)))
    parts=[]
    if random.random()<0.6: parts.append(random.choice(['1','-2','+3.5','1e3','.5','5.','1e400','-1e-400','007','0']))
    for _ in range(random.randint(1,4)):
        parts.append(random.choice(syms)+random.choice(['','²','⁻¹','^2','^-3','⁰','^0','⁻⁰','^+1','¹²³⁴⁵⁶⁷⁸⁹⁰¹²³⁴⁵⁶⁷⁸⁹']))
        parts.append(random.choice([' ','⋅','*','/','',' / ','//','**']))
    return ''.join(parts)
for i in range(60000):
    s=gen()
    for f,name in ((Unit.parse,'unit'),(Quantity.parse,'qty')):
        before=(len(Unit._by_name),len(Unit._by_symbol))
        try:
            r=f(s); res[(name,'ok')]+=1
            if name=='qty':
                if type(r.magnitude) not in (int,float): res['BADMAGTYPE']+=1
        except ParseError: res[(name,'ParseError')]+=1
        except KeyError: res[(name,'KeyError')]+=1
        except Exception as e:
            k=(name,type(e).__name__); res[k]+=1
            if len(ex[k])<8: ex[k].append((s,str(e)[:80]))
        if (len(Unit._by_name),len(Unit._by_symbol))!=before: res['REGCHANGED']+=1
print(res)
for k,v in ex.items():
    print('==',k)
    for x in v: print('   ',repr(x))
