"""Prototype: stateless exhaustive DFS over line-level interleavings (design-phase scratch)."""
import sys, threading, time, hashlib
import measured
from measured import *
from measured.si import *
TARGET_FILE = measured.__file__


class Run:
    def __init__(self, prefix, funcs, traced):
        self.prefix = list(prefix)      # forced choices (index into sorted runnable list)
        self.choices = []               # (chosen index, n_runnable) per decision
        self.cv = threading.Condition()
        self.current = None
        self.alive = set()
        self.trace = []
        self.traced = traced
        self.funcs = funcs
        self.results = {}
        self.errors = {}

    def _tracer(self, tid):
        def local(frame, event, arg):
            if event == 'line':
                self.trace.append((tid, frame.f_code.co_qualname, frame.f_lineno))
                self._yield(tid)
            return local

        def glob(frame, event, arg):
            code = frame.f_code
            if code.co_filename == TARGET_FILE and code.co_qualname in self.traced:
                return local
            return None
        return glob

    def _pick(self):
        alive = sorted(self.alive)
        if not alive:
            self.current = None
        else:
            step = len(self.choices)
            if step < len(self.prefix):
                c = self.prefix[step]
            else:
                # default: keep running the current thread if still alive (non-preemptive), else lowest
                c = alive.index(self.current) if self.current in alive else 0
            c = min(c, len(alive) - 1)
            default = alive.index(self.current) if self.current in alive else None
            self.choices.append((c, len(alive), default))
            self.current = alive[c]
        self.cv.notify_all()

    def _yield(self, tid):
        with self.cv:
            self._pick()
            while self.current != tid:
                self.cv.wait()

    def go(self):
        def worker(tid, fn):
            with self.cv:
                while self.current != tid:
                    self.cv.wait()
            sys.settrace(self._tracer(tid))
            try:
                self.results[tid] = fn()
            except BaseException as e:  # noqa
                self.errors[tid] = e
            finally:
                sys.settrace(None)
                with self.cv:
                    self.alive.discard(tid)
                    self._pick()
        ths = []
        for tid, fn in enumerate(self.funcs):
            self.alive.add(tid)
            ths.append(threading.Thread(target=worker, args=(tid, fn)))
        for t in ths:
            t.start()
        with self.cv:
            self._pick()
        for t in ths:
            t.join(10)
        return self


def explore(make_funcs, traced, limit=200000, max_preempt=None):
    """DFS over schedules. make_funcs(trial_no) -> list of thunks (fresh key each trial)."""
    stack = [[]]
    seen = set()
    n = 0
    viol = []
    t0 = time.time()
    while stack and n < limit:
        prefix = stack.pop()
        run = Run(prefix, make_funcs(n), traced).go()
        n += 1
        h = hashlib.sha1(repr(run.trace).encode()).hexdigest()
        seen.add(h)
        objs = list(run.results.values())
        if run.errors or any(o is not objs[0] for o in objs):
            viol.append((prefix, run.trace, run.errors))
        # expand alternatives beyond the forced prefix
        used = 0
        for i in range(len(run.choices)):
            c, k, default = run.choices[i]
            if i >= len(prefix):
                for alt in range(k):
                    if alt != c:
                        cost = used + (1 if (default is not None and alt != default) else 0)
                        if max_preempt is None or cost <= max_preempt:
                            stack.append([x[0] for x in run.choices[:i]] + [alt])
            if default is not None and c != default:
                used += 1
    return n, len(seen), viol, time.time() - t0, len(stack)


if __name__ == '__main__':
    which = sys.argv[1] if len(sys.argv) > 1 else 'dim'
    if which == 'dim':
        traced = {'Dimension.__new__', 'Dimension.__init__'}
        def mk(n):
            exps = tuple([0, 1000 + n] + [0] * 8)
            return [lambda: Dimension(exps), lambda: Dimension(exps)]
    elif which == 'prefix':
        traced = {'Prefix.__new__', 'Prefix.__init__'}
        def mk(n):
            return [lambda: Prefix(7, 100 + n), lambda: Prefix(7, 100 + n)]
    elif which == 'unit':
        traced = {'Unit.__new__', 'Unit.__init__'}
        def mk(n):
            return [lambda: Meter ** (50 + n), lambda: Meter ** (50 + n)]
    elif which == 'unitmul':
        traced = {'Unit.__new__', 'Unit.__init__', 'Unit._multiply', 'Unit._build_key', 'Unit._simplify', 'Unit.__mul__', 'Dimension.__new__','Dimension.__init__','Dimension._multiply','Dimension.__mul__','Prefix.__mul__','Prefix.__new__'}
        from measured.us import Foot
        def mk(n):
            a = Meter ** (300 + n); b = Foot ** (300 + n)
            return [lambda: a * b, lambda: a * b]
    elif which == 'logunit':
        traced = {'LogarithmicUnit.__new__', 'LogarithmicUnit.__init__', 'Logarithm.__getitem__'}
        def mk(n):
            ref = (1000 + n) * Watt
            return [lambda: Decibel[ref], lambda: Decibel[ref]]
    elif which == 'dim3':
        traced = {'Dimension.__new__'}
        def mk(n):
            exps = tuple([0, 5000 + n] + [0] * 8)
            return [lambda: Dimension(exps)] * 3
    mp = int(sys.argv[3]) if len(sys.argv) > 3 else None
    n, distinct, viol, secs, left = explore(mk, traced, limit=int(sys.argv[2]) if len(sys.argv) > 2 else 20000, max_preempt=mp)
    print(which, 'executions', n, 'distinct traces', distinct, 'violations', len(viol), 'secs', round(secs, 1), 'unexplored', left)
    if viol:
        print('first violating schedule', viol[0][0], viol[0][1][:12])
