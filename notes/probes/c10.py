from fractions import Fraction as Fr
from decimal import Decimal
from measured import *
from measured import systems, conversions
from measured.si import *
from measured.us import Fahrenheit, Rankine
import itertools
K0=Fr('273.15'); R0=Fr('459.67')
def toK(x,u):
    if u is Kelvin: return x
    if u is Celsius: return x+K0
    if u is Rankine: return x*Fr(5,9)
    if u is Fahrenheit: return (x+R0)*Fr(5,9)
def fromK(k,u):
    if u is Kelvin: return k
    if u is Celsius: return k-K0
    if u is Rankine: return k*Fr(9,5)
    if u is Fahrenheit: return k*Fr(9,5)-R0
scales=[Kelvin,Celsius,Fahrenheit,Rankine]
for a,b in itertools.permutations(scales,2):
    for m in (0,100,-40,37.5,-273.15,1e6):
        try:
            r=(m*a).in_unit(b)
            exp=fromK(toK(Fr(m),a),b)
            err=abs(float(Fr(r.magnitude)-exp))
            flag='' if err<=1e-9*max(1,abs(float(exp))) else '   <<<<<<'
            if flag or m==100: print(a.symbol,b.symbol,m,r.magnitude,float(exp),err,flag)
        except Exception as e:
            print(a.symbol,b.symbol,m,type(e).__name__,e)
print('--- prefixed')
for p in (Kilo,Milli):
  for a,b in itertools.permutations(scales,2):
    for (ua,ub) in ((p*a,b),(a,p*b)):
        m=5
        try:
            r=(m*ua).in_unit(ub)
            mk = Fr(m)*(Fr(10)**ua.prefix.exponent if ua.prefix.base else 1)
            exp=fromK(toK(mk,a),b)/(Fr(10)**ub.prefix.exponent if ub.prefix.base else 1)
            err=abs(float(Fr(r.magnitude)-exp))
            flag='' if err<=1e-9*max(1,abs(float(exp))) else '   <<<<<<'
            print(str(ua),str(ub),m,r.magnitude,float(exp),flag)
        except Exception as e:
            print(str(ua),str(ub),m,type(e).__name__,e)
print('--- compare')
print((0*Celsius)==(32*Fahrenheit), (32*Fahrenheit)==(0*Celsius), (0*Celsius)==(273.15*Kelvin),(273.15*Kelvin)==(0*Celsius))
print((100*Celsius)<(213*Fahrenheit),(100*Celsius)>(211*Fahrenheit), (0*Celsius)<(1*Kelvin), (1*Kelvin)<(0*Celsius))
print((Decimal('100')*Celsius).in_unit(Fahrenheit))
print(conversions._offsets)
print((10*Celsius)+(5*Kelvin), (10*Celsius)-(5*Celsius))
