import pickle, copy, json
from decimal import Decimal
from measured import *
from measured import systems
from measured.si import *
from measured.iec import *
from measured.us import *
from measured.json import MeasuredJSONEncoder, MeasuredJSONDecoder
from collections import Counter, defaultdict
res=Counter(); ex=defaultdict(list)
def rt_json(x): return json.loads(json.dumps(x,cls=MeasuredJSONEncoder),cls=MeasuredJSONDecoder)
objs=[]
objs+= [('dim',d) for d in Dimension._known.values()]
objs+= [('prefix',p) for p in Prefix._known.values()]
units=list(Unit._known.values())
extra=[Kilo*Newton, (Milli*Meter)/Second, Newton/(Kilo*Meter)**2, Mebi*Byte, (Kilo*Watt*Hour)**2, Meter**-1, Kilo*(Meter**-1), (Kilo*Meter)**-2*Second, Centi*Day, Milli*Inch, GForce**2, Kibi*Byte/Second, Micro*Farad, One, Kilo*One, Kilogram/Meter**3]
objs+= [('unit',u) for u in units+extra]
for kind,o in objs:
    for name,f in (('pickle',lambda o:pickle.loads(pickle.dumps(o))),('copy',copy.copy),('deepcopy',copy.deepcopy),('json',rt_json)):
        try:
            r=f(o)
            ok = r is o
            res[(kind,name,'ok' if ok else 'NOTSAME')]+=1
            if not ok: ex[(kind,name)].append((str(o),repr(o)[:60],repr(r)[:60]))
        except Exception as e:
            res[(kind,name,type(e).__name__)]+=1; ex[(kind,name,type(e).__name__)].append((str(o),repr(o)[:80],str(e)[:80]))
for m in (3,2.5,Decimal('1.10')):
    for u in units+extra:
        q=Quantity(m,u)
        for name,f in (('pickle',lambda o:pickle.loads(pickle.dumps(o))),('deepcopy',copy.deepcopy),('json',rt_json)):
            try:
                r=f(q)
                ok = (r==q) and type(r.magnitude) is type(m) and r.magnitude==m and (name=='json' or r.unit is u)
                if name=='json' and r.unit is not u: res[('qty',name,'unit-notsame')]+=1
                res[('qty',name,'ok' if ok else 'BAD')]+=1
                if not ok: ex[('qty',name)].append((str(q),repr(r)[:100], r==q))
            except Exception as e:
                res[('qty',name,type(e).__name__)]+=1; ex[('qty',name,type(e).__name__)].append((str(q),str(e)[:80]))
for k in sorted(res,key=str): print(k,res[k])
for k,v in ex.items():
    print('==',k,len(v))
    for x in v[:10]: print('   ',x)
