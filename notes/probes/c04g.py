import random, sys, math
import oracle2
from oracle2 import Oracle, Fraction
from measured import *
from measured.si import *
from measured.conversions import ConversionNotFound
from collections import Counter, defaultdict
o=Oracle()
seed=int(sys.argv[1]); N=int(sys.argv[2]); random.seed(seed)
skipnames={'one','celsius','fahrenheit'}
named=[u for u in set(Unit._by_name.values()) if u.name not in skipnames and u.dimension is not Number and all(f in o.size for f in u.factors)]
named.sort(key=lambda u:u.name)
def mixed(d): return any(e<0 for e in d.exponents) and any(e>0 for e in d.exponents)
bydim=defaultdict(list)
for u in named: bydim[u.dimension].append(u)
prefixes=[IdentityPrefix]*6+sorted(set(Prefix._by_name.values()),key=lambda p:(p.base,p.exponent))
def rand_side():
    k=random.randint(1,3); return [(random.choice(prefixes),random.choice(named),random.choice([1,1,1,2,3,-1,-1,-2,-3])) for _ in range(k)]
def build(fs):
    r=One
    for p,u,e in fs: r=r*((p*u)**e)
    return r
def alt(fs):
    out=[(random.choice(prefixes),random.choice(bydim[u.dimension]),e) for p,u,e in fs]; random.shuffle(out); return out
def pred(u): return any(e<0 and mixed(f.dimension) for f,e in u.factors.items())
res=Counter(); ex=defaultdict(list)
for i in range(N):
    a=rand_side(); b=alt(a); ua=build(a); ub=build(b)
    m=random.choice([1,2.5,-3,0.001,7])
    lo,hi=o.ratio_interval(ua,ub)
    mag=math.log10(float(hi)) if hi< Fraction(10)**300 and hi>Fraction(1,10**300) else 999
    if abs(mag)>200: res['range-skip']+=1; continue
    P=pred(ua) or pred(ub)
    try: r=(m*ua).in_unit(ub)
    except ConversionNotFound: res[(P,'CNF')]+=1; continue
    except Exception as e: res[(P,type(e).__name__)]+=1; continue
    deg=sum(abs(e) for _,_,e in a)+sum(abs(e) for _,_,e in b)
    got=Fraction(r.magnitude)/Fraction(m)
    tol=Fraction(1)+Fraction(deg,100000)
    ok = lo/tol <= got <= hi*tol
    wide = float(hi/lo)-1
    res[(P,'ok' if ok else 'WRONG')]+=1
    if wide>1e-9: res['interval-used']+=1
    if not ok: ex[(P,'WRONG')].append((str(ua),str(ub),float(got),float(lo),float(hi)))
for k in sorted(res,key=str): print(k,res[k])
for k,v in ex.items():
    print('==',k,len(v))
    for x in v[:12]: print('   ',x)
