import random, itertools
from measured import *
from measured import systems
from measured.si import *
from measured.us import *
from measured.iec import *
random.seed(1)
base=[Meter,Second,Gram,Kilogram,Foot,Newton,Joule,GForce,Hertz,Radian,Bit,Byte,One,Liter]
prefs=[IdentityPrefix,Kilo,Milli,Mega,Micro,Kibi,Mebi,Deca,Centi]
# normal form: dict base->exp , prefix exps per base
def nf_of(u):
    return (u.prefix.base,u.prefix.exponent, frozenset((id(k),v) for k,v in u.factors.items()))
def gen(depth):
    if depth==0 or random.random()<0.3:
        u=random.choice(base); p=random.choice(prefs)
        return ('leaf',p,u)
    op=random.choice(['mul','div','pow','root'])
    if op in('mul','div'):
        return (op,gen(depth-1),gen(depth-1))
    if op=='pow':
        return ('pow',gen(depth-1),random.randint(-3,3))
    return ('rootpow',gen(depth-1),random.choice([1,2,3,-1,-2]))
from fractions import Fraction
from collections import Counter
def ev(t):
    k=t[0]
    if k=='leaf': return t[1]*t[2]
    if k=='mul': return ev(t[1])*ev(t[2])
    if k=='div': return ev(t[1])/ev(t[2])
    if k=='pow': return ev(t[1])**t[2]
    if k=='rootpow': return (ev(t[1])**t[2]).root(t[2])
def model(t):
    # returns (Counter base-> exp, dict prefix base->exp)
    k=t[0]
    if k=='leaf':
        p,u=t[1],t[2]
        c=Counter({f:e for f,e in u.factors.items() if f is not One})
        pp=Counter()
        for q in (p,u.prefix):
            if q.base!=0: pp[q.base]+=q.exponent
        return c,pp
    if k=='mul':
        a,pa=model(t[1]);b,pb=model(t[2])
        c=Counter(a); 
        for f,e in b.items(): c[f]+=e
        p=Counter(pa)
        for f,e in pb.items(): p[f]+=e
        return c,p
    if k=='div':
        a,pa=model(t[1]);b,pb=model(t[2])
        c=Counter(a); 
        for f,e in b.items(): c[f]-=e
        p=Counter(pa)
        for f,e in pb.items(): p[f]-=e
        return c,p
    if k=='pow':
        a,pa=model(t[1]); n=t[2]
        return Counter({f:e*n for f,e in a.items()}),Counter({f:e*n for f,e in pa.items()})
    if k=='rootpow':
        return model(t[1])
seen={}
viol=0;n=0;errs=Counter()
for i in range(20000):
    t=gen(3)
    try:
        u=ev(t)
    except Exception as ex:
        errs[type(ex).__name__+':'+str(ex)[:50]]+=1
        continue
    c,p=model(t)
    c={f:e for f,e in c.items() if e}
    p={b:e for b,e in p.items() if e}
    if len(p)>1: continue
    key=(frozenset(c.items()),frozenset(p.items()))
    n+=1
    if key in seen:
        if seen[key][0] is not u:
            viol+=1
            if viol<6: print("VIOL",t,seen[key][1], u, seen[key][0], repr(u.prefix), repr(seen[key][0].prefix))
    else: seen[key]=(u,t)
print(n,len(seen),viol,errs.most_common(8))
