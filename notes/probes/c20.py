import sys, threading, itertools
import measured
from measured import *
from measured.si import *
TARGET_FILE=measured.__file__
class Sched:
    """Deterministic line-level scheduler: threads run one at a time; at each line event in target code the thread yields to the scheduler, which picks next per a schedule list."""
    def __init__(self, schedule):
        self.schedule=list(schedule); self.pos=0
        self.cv=threading.Condition(); self.current=None; self.alive=set(); self.trace=[]
    def tracer(self, tid):
        def local(frame,event,arg):
            if event=='line':
                self.trace.append((tid,frame.f_code.co_name,frame.f_lineno))
                self.yield_(tid)
            return local
        def glob(frame,event,arg):
            if frame.f_code.co_filename==TARGET_FILE and frame.f_code.co_name in ('__new__','__init__','_multiply','_divide'):
                return local
            return None
        return glob
    def yield_(self,tid):
        with self.cv:
            self.pick_next()
            while self.current!=tid:
                self.cv.wait()
    def pick_next(self):
        alive=sorted(self.alive)
        if not alive: self.current=None
        else:
            if self.pos<len(self.schedule):
                c=self.schedule[self.pos]; self.pos+=1
                self.current = alive[c%len(alive)]
            else:
                self.current=alive[0]
        self.cv.notify_all()
    def run(self, fns):
        results={}
        def worker(tid,fn):
            with self.cv:
                while self.current!=tid: self.cv.wait()
            sys.settrace(self.tracer(tid))
            try: results[tid]=fn()
            finally:
                sys.settrace(None)
                with self.cv:
                    self.alive.discard(tid); self.pick_next()
        ths=[]
        for tid,fn in enumerate(fns):
            self.alive.add(tid)
            ths.append(threading.Thread(target=worker,args=(tid,fn)))
        for t in ths: t.start()
        with self.cv: self.pick_next()
        for t in ths: t.join(10)
        return results
import random
viol=0
for trial in range(200):
    rnd=random.Random(trial)
    exps=tuple([0,trial+20]+[0]*8)
    sched=[rnd.randint(0,1) for _ in range(40)]
    s=Sched(sched)
    r=s.run([lambda:Dimension(exps), lambda:Dimension(exps)])
    if r[0] is not r[1]:
        viol+=1
        if viol==1: print('VIOL trial',trial,sched[:14],s.trace)
print('dimension violations',viol,'/200')
viol=0
for trial in range(200):
    rnd=random.Random(trial)
    sched=[rnd.randint(0,1) for _ in range(80)]
    s=Sched(sched)
    k=trial+11
    r=s.run([lambda:Meter**k, lambda:Meter**k])
    if r[0] is not r[1]: viol+=1
print('unit pow violations',viol,'/200')
