import random, sys, time, itertools
import oracle
from oracle import *
from measured import *
from measured.si import *
from measured.conversions import ConversionNotFound
from collections import Counter, defaultdict
size,pending=solve()
size[Kilogram]=Fraction(1000)
bad={'metric inch','metric foot','dry quart','dry gallon','peck','bushel','ton of refrigeration','boiler horsepower','one','celsius','fahrenheit'}
named=[u for u in set(Unit._by_name.values()) if u.name not in bad and u.dimension is not Number and all(f in size for f in u.factors)]
named.sort(key=lambda u:u.name)
bydim=defaultdict(list)
for u in named: bydim[u.dimension].append(u)
# simple shapes: u**e -> v**e, single factor
res=Counter(); ex=defaultdict(list)
for e in (1,-1,2,-2,3,-3):
  for d,us in bydim.items():
    for u,v in itertools.permutations(us,2):
        if len(us)>12 and random.random()>0.15: continue
        ua=u**e; ub=v**e
        try: r=(2.0*ua).in_unit(ub)
        except ConversionNotFound: res[(e,'CNF')]+=1; ex[(e,'CNF')].append((str(ua),str(ub))); continue
        except Exception as x: res[(e,type(x).__name__)]+=1; ex[(e,type(x).__name__)].append((str(ua),str(ub),str(x)[:50])); continue
        exp=2*usize(ua,size)/usize(ub,size)
        rel=abs(float(Fraction(r.magnitude)/exp)-1)
        if rel<1e-5*2*abs(e): res[(e,'ok')]+=1
        else: res[(e,'WRONG')]+=1; ex[(e,'WRONG')].append((str(ua),str(ub),r.magnitude,float(exp),rel))
for k in sorted(res): print(k,res[k])
for k,v in ex.items():
    print('==',k,len(v))
    for x in v[:8]: print('   ',x)
