from fractions import Fraction as Fr
from decimal import Decimal
from measured import *
from measured import systems, conversions
from measured.si import *
from measured.iec import *
from measured.us import Foot, Inch
import itertools, random
random.seed(0)
P=sorted(set(Prefix._by_name.values()),key=lambda p:(p.base,p.exponent))
print(len(P),[p.symbol for p in P])
def val(p):
    return Fr(1) if p.base==0 else Fr(p.base)**p.exponent if isinstance(p.exponent,int) else Fr(p.base**p.exponent)
bad=0;n=0
units=[Meter,Second,Newton,Foot,Bit,Byte,Joule,Hertz,Liter,Meter/Second,Newton*Meter, Kilogram, One]
def rel(a,b): 
    a=Fr(a);b=Fr(b)
    return abs(float(a/b)-1) if b else abs(float(a))
for p in P:
  for u in units:
    for m in (3,0.5,Decimal('2.5')):
      for nexp in (-4,-3,-2,-1,1,2,3,4):
        n+=1
        try:
            lhs = m*(p*u)
            rhs = (m*val(p).numerator/val(p).denominator if not isinstance(m,Decimal) else m*Decimal(val(p).numerator)/Decimal(val(p).denominator))*u
            if not (lhs==rhs):
                # tolerate float
                a=lhs.unprefixed().magnitude; b=rhs.unprefixed().magnitude
                if rel(a,b)>1e-12: bad+=1; print('m*(p*u)',p,u,m,lhs,rhs)
            x=(p*u)**nexp; y=(p**nexp)*(u**nexp)
            if x is not y: bad+=1; print('pow',p,u,nexp,x,y)
            q=(1*x).unprefixed()
            expect=val(p)**nexp * val(u.prefix)**nexp
            if rel(q.magnitude,expect)>1e-9: bad+=1; print('unprefixed',p,u,nexp,q.magnitude,float(expect))
            # divide by prefixed
            d=(m*Meter)/(p*u)
            if d.unit.prefix is not (Meter.prefix/ (p*u).prefix): bad+=1; print('divprefix')
        except Exception as e:
            bad+=1; print('EXC',p,u,m,nexp,type(e).__name__,e)
print(n,bad)
# prefix algebra
for a,b in itertools.product(P,P):
    try:
        m=a*b; d=a/b
        if a.base==b.base:
            assert m is Prefix(a.base,a.exponent+b.exponent),(a,b,m)
            assert d is Prefix(a.base,a.exponent-b.exponent),(a,b,d)
        else:
            assert rel(m.quantify(), val(a)*val(b))<1e-9,(a,b,m,m.quantify(),float(val(a)*val(b)))
            assert rel(d.quantify(), val(a)/val(b))<1e-9,(a,b,d)
    except AssertionError as e: print('ALG',e)
print(Kilo*Kilo is Mega, (Kilo/Kilo) is IdentityPrefix, repr(Kilo/Kilo), repr(Kilo*Milli))
print(repr(Kibi*Kilo), (Kibi*Kilo).quantify(), 1024*1000)
print(repr(IdentityPrefix*Kilo),repr(Kilo*IdentityPrefix),repr(IdentityPrefix/Kilo), repr(IdentityPrefix**2), repr(Prefix(10,0)))
print((Kilo**2).root(2) is Kilo, repr(Mega.root(2)), repr(Kilo.root(-1)) if True else '')
try: print(repr(Kilo.root(2)))
except Exception as e: print(type(e).__name__,e)
print(1*Kibi*Bit == 1024*Bit, (1*Mebi*Bit).in_unit(Kilo*Bit), 1*Mebi*Byte == 8*1048576*Bit)
print(((1*Kibi*Byte)+(1*Kilo*Byte)).in_unit(Byte))
print((Kilo*Meter)/(Kilo*Second) is Meter/Second, repr(((Kilo*Meter)/(Milli*Second)).prefix))
