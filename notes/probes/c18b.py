import math, random
from decimal import Decimal, getcontext
getcontext().prec=50
from collections import Counter, defaultdict
from measured import *
from measured import systems
from measured.si import *
from measured.us import PSI, Foot
from measured.music import Semitone
random.seed(0)
fams=[('dB',Decibel),('B',Bel),('Np',Neper),('oct',Octave),('semi',Semitone),('cNp',Centi*Neper),('mB',Milli*Bel),('daB',Deca*Bel)]
refs=[1*Watt,1*Milli*Watt,2.5*Kilo*Watt,1*Volt,20*Micro*Pascal,1*PSI,3*Meter/Second,440*Hertz,1*Joule,2*Ampere,Decimal('1.5')*Watt, 7*Unit.named('horsepower'), 1*Foot/Second, 5*Coulomb/Meter]
res=Counter(); ex=defaultdict(list)
def dlog(x,base): return (Decimal(x).ln()/Decimal(base).ln())
for name,L in fams:
    for ref in refs:
        lu=L[ref]; k=lu.power_ratio
        expected_k = 2 if ref.unit.dimension in ROOT_POWER_DIMENSIONS else 1
        if k!=expected_k: res['K-MISMATCH']+=1
        pv=Decimal(L.prefix.base)**Decimal(L.prefix.exponent) if L.prefix.base else Decimal(1)
        base=Decimal(repr(L.base)) if L.base!=math.e else Decimal(1).exp()
        prev=None
        for j in range(12):
            ratio=random.choice([1e-6,0.01,0.5,1,2,10,1234.5,1e6])*random.uniform(0.9,1.1)
            refu=ref.unprefixed()
            q=Quantity(float(refu.magnitude)*ratio, refu.unit)
            # re-express q in another unit sometimes
            try:
                lv=q.level(lu)
                exp=Decimal(k)/pv*dlog(Decimal(repr(float(q.magnitude)))/Decimal(str(refu.magnitude)),base)
                err=abs(Decimal(repr(float(lv.magnitude)))-exp)
                ok= err<=Decimal('1e-9')*max(1,abs(exp))
                res[(name,'level-ok' if ok else 'LEVEL-BAD')]+=1
                if not ok: ex['LEVEL-BAD'].append((name,str(ref),str(q),lv.magnitude,float(exp)))
                back=lv.quantify()
                rel=abs(float(back.magnitude)/float(q.magnitude)-1)
                res[(name,'rt-ok' if rel<1e-9 else 'RT-BAD')]+=1
                if rel>=1e-9: ex['RT-BAD'].append((name,str(ref),str(q),str(back)))
                e1=(lv==approximately(q)); e2=(approximately(q)==lv)
                res[(name,'eq-ok' if (e1 and e2) else 'EQ-BAD')]+=1
                if not(e1 and e2): ex['EQ-BAD'].append((name,str(ref),str(q),str(lv),e1,e2))
            except Exception as e:
                res[(name,type(e).__name__)]+=1
                if len(ex[type(e).__name__])<6: ex[type(e).__name__].append((name,str(ref),str(q),str(e)[:70]))
        # monotone
        qs=[Quantity(float(ref.unprefixed().magnitude)*r, ref.unprefixed().unit) for r in (0.001,0.5,1,1.0000001,3,1e5)]
        try:
            ls=[x.level(lu).magnitude for x in qs]
            mono=all(float(a)<float(b) for a,b in zip(ls,ls[1:]))
            res[(name,'mono-ok' if mono else 'MONO-BAD')]+=1
        except Exception as e: res[(name,'mono-'+type(e).__name__)]+=1
        # level -> quantity -> level
        for m in (-200,-37.5,-1,0,1,3,10,20,200):
            try:
                q=(m*lu).quantify()
                if not math.isfinite(float(q.magnitude)) or float(q.magnitude)==0: res[(name,'range')]+=1; continue
                back=q.level(lu).magnitude
                ok=abs(float(back)-m)<=1e-6*max(1,abs(m))
                res[(name,'lql-ok' if ok else 'LQL-BAD')]+=1
                if not ok: ex['LQL-BAD'].append((name,str(ref),m,float(back)))
            except OverflowError: res[(name,'range')]+=1
            except Exception as e:
                res[(name,'lql-'+type(e).__name__)]+=1
                if len(ex['lql-'+type(e).__name__])<6: ex['lql-'+type(e).__name__].append((name,str(ref),m,str(e)[:60]))
bad={k:v for k,v in res.items() if not (isinstance(k,tuple) and k[1].endswith('-ok'))}
print(bad); print(sum(v for k,v in res.items() if isinstance(k,tuple) and k[1].endswith('-ok')),'ok')
for k,v in ex.items():
    print('==',k,len(v))
    for t in v[:6]: print('   ',t)
