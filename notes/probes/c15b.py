import json, pickle, copy
from decimal import Decimal
from collections import Counter, defaultdict
from measured import *
from measured import systems
from measured.si import *
from measured.iec import *
from measured.us import *
from measured.json import codecs_installed, MeasuredJSONEncoder, MeasuredJSONDecoder
from pydantic import TypeAdapter, BaseModel
import cloudpickle
res=Counter(); ex=defaultdict(list)
units=list(Unit._known.values())+[Kilo*Newton,(Milli*Meter)/Second,Mebi*Byte,Meter**-1,Kilo*(Meter**-1),Micro*Farad,Kilogram/Meter**3, Kilo*Kilo*Meter, Kilo*Meter**2]
dims=list(Dimension._known.values()); prefs=list(Prefix._known.values())
TA={Unit:TypeAdapter(Unit),Dimension:TypeAdapter(Dimension),Prefix:TypeAdapter(Prefix),Quantity:TypeAdapter(Quantity)}
def codecs(T):
    def installed(o):
        with codecs_installed(): return json.loads(json.dumps(o))
    def pyd_json(o): return TA[T].validate_json(TA[T].dump_json(o))
    def pyd_py(o): return TA[T].validate_python(TA[T].dump_python(o))
    def pyd_pyjson(o): return TA[T].validate_python(TA[T].dump_python(o,mode='json'))
    def cp(o): return cloudpickle.loads(cloudpickle.dumps(o))
    out=[('installed',installed),('pyd_json',pyd_json),('pyd_py',pyd_py),('pyd_pyjson',pyd_pyjson),('cloudpickle',cp)]
    for proto in range(0,6): out.append((f'pickle{proto}',lambda o,p=proto:pickle.loads(pickle.dumps(o,protocol=p))))
    return out
for T,objs in ((Dimension,dims),(Prefix,prefs),(Unit,units)):
    for o in objs:
        for name,f in codecs(T):
            try:
                r=f(o); k='ok' if r is o else 'NOTSAME'
            except Exception as e: k=type(e).__name__; 
            res[(T.__name__,name,k)]+=1
            if k!='ok' and len(ex[(T.__name__,name,k)])<4: ex[(T.__name__,name,k)].append((str(o),repr(o)[:70]))
for m in (3,2.5,Decimal('1.10'),-0.0, 10**30):
    for u in units:
        q=Quantity(m,u)
        for name,f in codecs(Quantity)+[('composite',lambda q:Quantity(*q.__composite_values__()))]:
            try:
                r=f(q); ok=(r==q) and type(r.magnitude) is type(m)
                k='ok' if ok else ('TYPE' if r==q else 'NE')
            except Exception as e: k=type(e).__name__
            res[('Quantity',name,k)]+=1
            if k!='ok' and len(ex[('Quantity',name,k)])<4: ex[('Quantity',name,k)].append((str(q),))
for k in sorted(res,key=str):
    if k[2]!='ok': print(k,res[k])
print('ok total',sum(v for k,v in res.items() if k[2]=='ok'))
for k,v in ex.items(): print('==',k,v)
