from measured import *
from measured import systems
from measured.si import *
from measured.us import *
u = (GForce/Hour)**2
print(u.factors, u.dimension)
print(f"{u:/}")
g2 = GForce**2
print(g2.dimension, "expected", Acceleration**2)
h2 = Hour**2
print(h2.dimension)
print((1*GForce**2).in_unit(Meter**2/Second**4))
