import random, sys, math
from decimal import Decimal, getcontext
getcontext().prec=50
from fractions import Fraction
from collections import Counter, defaultdict
from measured import *
from measured import systems
from measured.si import *
from measured.us import Foot, Inch, Yard
random.seed(int(sys.argv[1]))
LEN=[(Meter,Decimal(1)),(Foot,Decimal('0.3048')),(Inch,Decimal('0.0254')),(Kilo*Meter,Decimal(1000)),(Centi*Meter,Decimal('0.01'))]
TIME=[(Second,Decimal(1)),(Minute,Decimal(60)),(Milli*Second,Decimal('0.001'))]
def D(x): return Decimal(repr(x)) if isinstance(x,float) else Decimal(x)
def rmeas(pool,allow_zero=True):
    u,sz=random.choice(pool)
    kind=random.choice(['int','float','dec'])
    x={'int':random.choice([0,1,2,-3,10]) if allow_zero else random.choice([1,2,-3,10]),'float':random.choice([0.0,0.5,-2.5,120.0]) if allow_zero else random.choice([0.5,-2.5,120.0]),'dec':random.choice([Decimal('1.5'),Decimal('-4')])}[kind]
    s=random.choice([0,0.1,0.25,1,3.5])
    if kind=='dec': s=Decimal(repr(s))
    if random.random()<0.3: return Quantity(x,u), D(x)*sz, Decimal(0), sz
    return Measurement(Quantity(x,u),s), D(x)*sz, D(s)*sz, sz
res=Counter(); ex=defaultdict(list)
def check(name,r,expv,exps,unit_size):
    if not isinstance(r,Measurement): res[(name,'NOT-MEAS:'+type(r).__name__)]+=1; return
    gv=D(r.measurand.magnitude)*unit_size; gs=D(r.uncertainty.magnitude)*unit_size
    tolv=Decimal('1e-9')*max(abs(expv),Decimal('1e-300'))+Decimal('1e-300'); tols=Decimal('1e-9')*max(abs(exps),abs(expv)*Decimal('1e-6'),Decimal('1e-300'))
    okv=abs(gv-expv)<=tolv; oks=abs(gs-exps)<=tols and gs>=0
    res[(name,'ok' if okv and oks else 'BAD')]+=1
    if not(okv and oks) and len(ex[name])<5: ex[name].append((str(r),float(gv),float(expv),float(gs),float(exps)))
def size_of(u,table):
    # SI size of result unit computed from factor table
    s=Decimal(1)
    if u.prefix.base: s*=Decimal(u.prefix.base)**Decimal(u.prefix.exponent)
    for f,e in u.factors.items():
        if f is One: continue
        s*=table[f]**e
    return s
BASE={Meter:Decimal(1),Foot:Decimal('0.3048'),Inch:Decimal('0.0254'),Second:Decimal(1),Minute:Decimal(60)}
for i in range(int(sys.argv[2])):
    a,av,as_,_=rmeas(LEN); b,bv,bs,_=rmeas(LEN); c,cv,cs,_=rmeas(TIME,allow_zero=False)
    if not isinstance(a,Measurement) and not isinstance(b,Measurement): continue
    for name,f,ev,es in (
        ('add',lambda:a+b,av+bv,(as_**2+bs**2).sqrt()),
        ('sub',lambda:a-b,av-bv,(as_**2+bs**2).sqrt()),
        ('mul',lambda:a*b,av*bv,((bv*as_)**2+(av*bs)**2).sqrt()),
        ('mulT',lambda:a*c,av*cv,((cv*as_)**2+(av*cs)**2).sqrt()),
        ('div',lambda:a/c,av/cv,((as_/cv)**2+(av*cs/cv**2)**2).sqrt()),
        ('rdivT',lambda:c/b if bv!=0 else None,None,None),
    ):
        try:
            r=f()
            if r is None: continue
            if name=='rdivT':
                ev=cv/bv; es=((cs/bv)**2+(cv*bs/bv**2)**2).sqrt()
            check(name,r,ev,es,size_of(r.measurand.unit,BASE))
        except ZeroDivisionError as e: res[(name,'ZeroDivisionError')]+=1; 
        except Exception as e:
            res[(name,'!!'+type(e).__name__)]+=1
            if len(ex[name+'exc'])<4: ex[name+'exc'].append((str(a),str(b),str(c),str(e)[:70]))
    if isinstance(a,Measurement):
        n=random.choice([-4,-3,-2,-1,0,1,2,3,4])
        if not (av==0 and n<=0):
            try:
                r=a**n
                ev=av**n; es=abs(Decimal(n)*av**(n-1)*as_) if not (av==0 and n-1<0) else None
                if es is not None: check('pow%d'%n,r,ev,es,size_of(r.measurand.unit,BASE))
            except Exception as e:
                res[('pow','!!'+type(e).__name__)]+=1
                if len(ex['powexc'])<4: ex['powexc'].append((str(a),n,str(e)[:70]))
for k in sorted(res,key=str): print(k,res[k])
for k,v in ex.items():
    print('==',k)
    for t in v: print('   ',t)
