"""Prototype: intercept declarations, solve unit sizes exactly."""
import sys
from fractions import Fraction
from decimal import Decimal, getcontext
getcontext().prec=60
import measured
from measured import conversions, Unit, One, Quantity
DECLS=[]   # (a_mag, a_unit, b_mag, b_unit, module)
SCALES=[]
_orig_equate=conversions.equate
_orig_translate=conversions.translate
def rec_equate(a,b):
    mod=sys._getframe(2).f_globals.get('__name__')
    DECLS.append((a.magnitude,a.unit,b.magnitude,b.unit,mod))
    return _orig_equate(a,b)
def rec_translate(scale,zero):
    mod=sys._getframe(2).f_globals.get('__name__')
    SCALES.append((scale,zero.magnitude,zero.unit,mod))
    return _orig_translate(scale,zero)
conversions.equate=rec_equate
conversions.translate=rec_translate
from measured import systems
from measured import physics

def F(x):
    if isinstance(x,Fraction): return x
    if isinstance(x,Decimal): return Fraction(x)
    return Fraction(x)
def prefix_value(p):
    if p.base==0: return Fraction(1)
    e=p.exponent
    if isinstance(e,int): return Fraction(p.base)**e
    return Fraction(float(p.base)**e)
def solve():
    """size[base unit] as Fraction (or Decimal for irrational roots) in terms of roots of connected components"""
    size={}
    # roots: SI base units
    from measured.si import Meter,Second,Gram,Coulomb,Kelvin,Mole,Candela,Radian
    from measured.iec import Bit
    for r in (Meter,Second,Gram,Coulomb,Kelvin,Mole,Candela,Radian,Bit,One):
        size[r]=Fraction(1)
    eqs=[]
    for am,au,bm,bu,mod in DECLS:
        # am * size(au) = bm * size(bu)
        terms={}
        const=F(bm)/F(am)  # size(au)/size(bu) = bm/am
        const*= prefix_value(bu.prefix)/prefix_value(au.prefix)
        for f,e in au.factors.items(): terms[f]=terms.get(f,0)+e
        for f,e in bu.factors.items(): terms[f]=terms.get(f,0)-e
        terms={f:e for f,e in terms.items() if e and f is not One}
        eqs.append((terms,const,(am,au,bm,bu,mod)))
    tree=[];progress=True
    pending=list(eqs)
    while progress:
        progress=False
        rest=[]
        for terms,const,d in pending:
            unk=[f for f in terms if f not in size]
            if len(unk)==1:
                u=unk[0]; e=terms[u]
                val=const
                for f,ee in terms.items():
                    if f is not u: val/= size[f]**ee if isinstance(size[f],Fraction) else Fraction(size[f])**ee
                # size(u)^e = val
                if e==1: size[u]=val
                elif e==-1: size[u]=1/val
                else:
                    size[u]=Fraction(Decimal(val.numerator)/Decimal(val.denominator))** 1 # placeholder
                    size[u]=Fraction((Decimal(val.numerator)/Decimal(val.denominator))**(Decimal(1)/Decimal(e)))
                tree.append(d); progress=True
            elif len(unk)==0:
                rest.append((terms,const,d))  # check later
            else: rest.append((terms,const,d))
        pending=rest
    return size,pending
def usize(u,size):
    s=prefix_value(u.prefix)
    for f,e in u.factors.items():
        if f is One: continue
        s*=size[f]**e
    return s
if __name__=='__main__':
    size,pending=solve()
    print(len(DECLS),'decls',len(SCALES),'scales',len(size),'sized', len(Unit._base),'base units')
    print('unsized base:',[u.name for u in Unit._base if u not in size])
    worst=[]
    for terms,const,d in pending:
        unk=[f for f in terms if f not in size]
        if unk: print('unsolved',d[1],d[3],[u.name for u in unk]); continue
        lhs=Fraction(1)
        for f,e in terms.items(): lhs*=size[f]**e
        rel=abs(float(lhs/const)-1)
        deg=sum(abs(e) for e in terms.values())
        worst.append((rel/max(deg,1),rel,deg,str(d[0]),str(d[1]),str(d[2]),str(d[3]),d[4]))
    worst.sort(reverse=True)
    print(len(worst),'redundant edges')
    for w in worst[:25]: print(w)
