import oracle
from oracle import *
from measured import *
from measured.si import *
from measured.iec import Bit
from collections import Counter
size,pending=solve()
fund=Dimension.fundamental()
SIBASE={Length:Meter,Time:Second,Mass:Kilogram,Temperature:Kelvin,Charge:Coulomb,AmountOfSubstance:Mole,LuminousIntensity:Candela,Information:Bit}
def coherent(dim):
    u=One
    for d,e in zip(fund,dim.exponents):
        if e: u=u*SIBASE[d]**e
    return u
size[Kilogram]=Fraction(1000)
res=Counter()
for name,u in sorted(Unit._by_name.items()):
    if u.dimension is Number: tgt=One if u is not Radian and u not in () else One
    tgt=coherent(u.dimension)
    for (a,b,lab) in ((u,tgt,'to'),(tgt,u,'from')):
        try:
            r=(1*a).in_unit(b)
            try:
                exp=usize(a,size)/usize(b,size)
                rel=abs(float(Fraction(r.magnitude)/exp)-1)
                ok = rel<1e-5*6
                res[(lab,'ok' if ok else 'WRONG')]+=1
                if not ok: print(name,lab,str(b),r.magnitude,float(exp),rel)
            except KeyError as e:
                res[(lab,'nosize')]+=1; print(name,lab,'nosize',e)
        except Exception as e:
            res[(lab,type(e).__name__)]+=1
            print(name,lab,str(a),'->',str(b),type(e).__name__,str(e)[:100])
print(res)
