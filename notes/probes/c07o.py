from measured import *
from measured import systems
from measured.si import *
from measured.us import *
from measured.energy import *
from measured.avoirdupois import LongHundredweight, LongTon
for q,u in ((1*Donkeypower,Watt),(1*PoundForce**-1,Newton**-1),(1*Hertz,Mega*Unit.named('fresnel')),(3*Unit.named('pennyweight')**-1*LongHundredweight**3, Unit.named('troy pound')**3/LongTon)):
    try: print(__debug__, q,'->',q.in_unit(u))
    except Exception as e: print(__debug__, q,'->',u,type(e).__name__, str(e)[:60])
