"""Prototype v2 of the declaration-log size oracle with neighbouring-spanning-tree intervals.
Design-phase scratch only."""
import sys
from fractions import Fraction
from decimal import Decimal, getcontext
getcontext().prec = 80
import measured
from measured import conversions, Unit, One

DECLS = []   # dicts
SCALES = []
_orig_equate = conversions.equate
_orig_translate = conversions.translate


def _rec_equate(a, b):
    mod = sys._getframe(2).f_globals.get('__name__')
    DECLS.append(dict(seq=len(DECLS), mod=mod, am=a.magnitude, au=a.unit, bm=b.magnitude, bu=b.unit))
    return _orig_equate(a, b)


def _rec_translate(scale, zero):
    mod = sys._getframe(2).f_globals.get('__name__')
    SCALES.append(dict(mod=mod, scale=scale, zero_m=zero.magnitude, zero_u=zero.unit))
    return _orig_translate(scale, zero)


conversions.equate = _rec_equate
conversions.translate = _rec_translate
from measured import systems  # noqa


def F(x):
    return x if isinstance(x, Fraction) else Fraction(x)


def prefix_value(p):
    if p.base == 0:
        return Fraction(1)
    e = p.exponent
    if isinstance(e, int):
        return Fraction(p.base) ** e
    return Fraction(float(p.base) ** float(e))


def exact_root(val, k):
    """k-th root of a positive Fraction, exact if possible else 80-digit."""
    neg = k < 0
    k = abs(k)
    def iroot(n):
        r = round(n ** (1.0 / k)) if n < 1 << 1000 else int(Decimal(n) ** (Decimal(1) / Decimal(k)))
        for c in (r - 1, r, r + 1):
            if c >= 0 and c ** k == n:
                return c
        return None
    a, b = iroot(val.numerator), iroot(val.denominator)
    if a is not None and b is not None:
        r = Fraction(a, b)
    else:
        d = (Decimal(val.numerator) / Decimal(val.denominator)) ** (Decimal(1) / Decimal(k))
        r = Fraction(d)
    return 1 / r if neg else r


def equation(d):
    """terms: base unit -> exponent ; const with  prod size(f)^e = const"""
    terms = {}
    const = F(d['bm']) / F(d['am'])
    const *= prefix_value(d['bu'].prefix) / prefix_value(d['au'].prefix)
    for f, e in d['au'].factors.items():
        terms[f] = terms.get(f, 0) + e
    for f, e in d['bu'].factors.items():
        terms[f] = terms.get(f, 0) - e
    terms = {f: e for f, e in terms.items() if e and f is not One}
    return terms, const


def solve(eqs, roots, order=None):
    """eqs: list of (terms,const,idx). returns size dict, tree idx list, nontree list"""
    size = {r: Fraction(1) for r in roots}
    tree = []
    pending = list(eqs if order is None else [eqs[i] for i in order])
    progress = True
    while progress:
        progress = False
        rest = []
        for terms, const, idx in pending:
            unk = [f for f in terms if f not in size]
            if len(unk) == 1:
                u = unk[0]
                e = terms[u]
                val = const
                for f, ee in terms.items():
                    if f is not u:
                        val /= size[f] ** ee
                size[u] = val if e == 1 else (1 / val if e == -1 else exact_root(val, e))
                tree.append(idx)
                progress = True
            else:
                rest.append((terms, const, idx))
        pending = rest
    nontree = [(t, c, i) for t, c, i in pending if all(f in size for f in t)]
    unsolved = [(t, c, i) for t, c, i in pending if not all(f in size for f in t)]
    return size, tree, nontree, unsolved


def residual(terms, const, size):
    lhs = Fraction(1)
    for f, e in terms.items():
        lhs *= size[f] ** e
    return lhs / const


class Oracle:
    def __init__(self):
        from measured.si import Meter, Second, Gram, Coulomb, Kelvin, Mole, Candela, Radian
        from measured.iec import Bit
        self.roots = [Meter, Second, Gram, Coulomb, Kelvin, Mole, Candela, Radian, Bit, One]
        self.eqs = [equation(d) + (d['seq'],) for d in DECLS]
        self.size, self.tree, self.nontree, self.unsolved = solve(self.eqs, self.roots)
        self.lo = dict(self.size)
        self.hi = dict(self.size)
        self.residuals = {}
        treeset = set(self.tree)
        # neighbouring spanning trees: for each inconsistent non-tree edge, put it first, drop each tree edge in turn
        self.n_resolves = 0
        for terms, const, idx in self.nontree:
            r = residual(terms, const, self.size)
            self.residuals[idx] = r
            if abs(float(r) - 1) < 1e-13:
                continue
            # re-solve with this edge forced early and each other edge removed once (only those that change the result)
            for drop in self.tree:
                order = [idx] + [i for i in range(len(self.eqs)) if i != idx and i != drop]
                s2, t2, _, _ = solve(self.eqs, self.roots, order)
                self.n_resolves += 1
                if len(s2) < len(self.size):
                    continue  # dropping this edge disconnects something: not a spanning alternative
                for u, v in s2.items():
                    if u in self.lo:
                        if v < self.lo[u]:
                            self.lo[u] = v
                        if v > self.hi[u]:
                            self.hi[u] = v

    def usize(self, u, which='mid'):
        table = {'mid': self.size, 'lo': self.lo, 'hi': self.hi}
        s_lo = s_hi = prefix_value(u.prefix)
        for f, e in u.factors.items():
            if f is One:
                continue
            if e > 0:
                s_lo *= self.lo[f] ** e
                s_hi *= self.hi[f] ** e
            else:
                s_lo *= self.hi[f] ** e
                s_hi *= self.lo[f] ** e
        return s_lo, s_hi

    def ratio_interval(self, src, dst):
        a_lo, a_hi = self.usize(src)
        b_lo, b_hi = self.usize(dst)
        return a_lo / b_hi, a_hi / b_lo


if __name__ == '__main__':
    import time
    t = time.time()
    o = Oracle()
    print('decls', len(DECLS), 'tree', len(o.tree), 'nontree', len(o.nontree), 'unsolved', len(o.unsolved), 'resolves', o.n_resolves, 'secs', round(time.time() - t, 2))
    wide = [(float(o.hi[u] / o.lo[u]) - 1, u.name) for u in o.size if o.hi[u] != o.lo[u]]
    wide.sort(reverse=True)
    print('units with nonzero interval:', len(wide))
    for w in wide[:40]:
        print('  ', w)
    bad = sorted(((abs(float(r) - 1), i) for i, r in o.residuals.items()), reverse=True)[:8]
    for r, i in bad:
        d = DECLS[i]
        print('residual', r, d['mod'], d['am'], d['au'], '=', d['bm'], d['bu'])
    print('unsolved:', [(str(DECLS[i]['au']), str(DECLS[i]['bu'])) for _, _, i in o.unsolved])
