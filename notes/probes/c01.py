from measured import *
from measured import systems
from measured.si import *
from measured.us import *
from functools import reduce
import operator
def check_all(tag):
    bad=[]
    for key,u in list(Unit._known.items()):
        d=Number
        for f,e in u.factors.items():
            if f is u and e==1:
                d=None;break
            d = d * f.dimension**e
        if d is None: continue
        if d is not u.dimension:
            bad.append((u.factors, str(u.dimension), str(d)))
    print(tag, len(Unit._known), "bad:", len(bad))
    for b in bad[:10]: print("   ", b)
check_all("start")
# base units with derived dims of mixed sign
mixed=[u for u in Unit.base() if any(e<0 for e in u.dimension.exponents) and any(e>0 for e in u.dimension.exponents)]
print([u.name for u in mixed])
g = GForce
u = g**2/Meter   # fresh
print(u.dimension)
n,d = u.as_ratio()
print(n.factors, n.dimension, d.factors, d.dimension)
check_all("after as_ratio")
v = (GForce**3)
print(v.dimension, (GForce**3).dimension is (Acceleration**3))
w = GForce**3 / Second
print(f"{w:/}")
check_all("after fmt")
print((GForce**3).dimension)
