import math
from decimal import Decimal
from measured import *
from measured import systems
from measured.si import *
from measured.us import PSI, Foot
from measured.music import Semitone
cases=[]
for name,L in (('dB',Decibel),('Bel',Bel),('Np',Neper),('oct',Octave),('semi',Semitone),('cNp',Centi*Neper),('mBel',Milli*Bel), ('kilo-oct', Kilo*Octave)):
    for ref in (1*Watt, 1*Milli*Watt, 2.5*Kilo*Watt, 1*Volt, 20*Micro*Pascal, 1*PSI, 3*Meter/Second, 440*Hertz, 1*Joule, 2*Ampere, Decimal('1')*Watt):
        lu=L[ref]
        k=lu.power_ratio
        base=L.base; pv=L.prefix.quantify()
        for m in (-200,-37.5,-1,0,1,3,10,20,200):
            try:
                q=(m*lu).quantify()
                expq = ref.unprefixed().magnitude * (base**(float(m)*pv/k))
                rel=abs(float(q.magnitude)/float(expq)-1) if expq else 0
                back=q.level(lu).magnitude
                ok1=rel<1e-9; ok2=abs(float(back)-m)<=1e-6*max(1,abs(m))
                eq1=(m*lu)==q; eq2= q==(m*lu)
                if not(ok1 and ok2 and eq1 and eq2): print(name,str(ref),m,'q',q.magnitude,float(expq),'back',back,eq1,eq2)
            except Exception as e:
                print(name,str(ref),m,type(e).__name__,str(e)[:80])
dBW=Decibel[1*Watt]
# quantity->level formula:  (k/prefix)*log_base(q/ref)
for lu,q in ((Decibel[1*Milli*Watt], 2*Watt),(Decibel[1*Volt],20*Milli*Volt),(Neper[1*Volt],3*Volt),(Semitone[440*Hertz],880*Hertz),(Decibel[20*Micro*Pascal], 1*PSI),(Decibel[1*Watt],746*Watt),(Decibel[1*Foot/Second], 3*Meter/Second)):
    lv=q.level(lu); k=lu.power_ratio
    ratio= float(q.in_unit(lu.reference.unit).magnitude)/float(lu.reference.magnitude)
    exp=k/lu.logarithm.prefix.quantify()*math.log(ratio,lu.logarithm.base)
    print(str(lu),str(q),lv.magnitude,exp)
print(repr(Decibel[1*Milli*Watt].reference))
try: print((0*Watt).level(dBW))
except Exception as e: print('zero',type(e).__name__,e)
try: print((-1*Watt).level(dBW))
except Exception as e: print('neg',type(e).__name__,e)
print((3*dBW)+(3*dBW), (10*dBW)-(3*dBW), (3*dBW)*2)
