from measured import *
from measured import systems
from measured.parsing import ParseError
for s in ["m^"+"9"*5000, "9"*5000+" m", "1 m"+"⁹"*5000, "1."+"0"*5000+" m", "1e99999999 m", "m^-0","m⁻⁰"," ", "", "m"*100000, "m "*20000, "1 1", "1", "11", "1 11", "km^3", "1 (", "-", "1 -", "1 - m", "1 °", "1 .", "1 ...", "1 μ", "5 mμ", "2 kk", "2 k", "2 dam", "3 dm", "3 h°C", "1 Å","1 ☉","1 M☉", "1 ₐ", "1 degC^2/degF"]:
    for f in (Unit.parse,Quantity.parse):
        try: r=f(s); print(repr(s[:20]),f.__self__.__name__,'ok',repr(r)[:100])
        except (ParseError,KeyError) as e: print(repr(s[:20]),f.__self__.__name__,'expected',type(e).__name__)
        except BaseException as e: print(repr(s[:20]),f.__self__.__name__,'!!!!',type(e).__name__,str(e)[:80])
