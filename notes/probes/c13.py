from measured import *
from measured import systems
from measured.si import *
from measured.parsing import ParseError
from collections import Counter, defaultdict
P=sorted(set(Prefix._by_name.values()),key=lambda p:(p.base,p.exponent))
U=sorted(set(Unit._by_name.values()),key=lambda u:u.name)
res=Counter(); ex=defaultdict(list)
def same(u,v):
    if u is v: return 'identical'
    if u.dimension is not v.dimension: return 'DIFFDIM'
    try:
        a=(1*u).in_unit(v)
        if abs(a.magnitude-1)<1e-9: return 'equal'
        return 'DIFFSCALE'
    except Exception as e: return 'noconv:'+type(e).__name__
for p in [IdentityPrefix]+P:
    for u in U:
        for e in (1,2,-1):
            x=(p*u)**e
            s=str(x)
            try: y=Unit.parse(s)
            except ParseError as err: res['ParseError']+=1; ex['ParseError'].append((repr(p),u.name,e,s)); continue
            except KeyError as err: res['KeyError']+=1; ex['KeyError'].append((repr(p),u.name,e,s)); continue
            except Exception as err: res[type(err).__name__]+=1; ex[type(err).__name__].append((repr(p),u.name,e,s,str(err)[:50])); continue
            k=same(x,y); res[k]+=1
            if k not in('identical',): ex[k].append((str(p),u.name,e,s,repr(y)[:80]))
print(res)
for k,v in ex.items():
    print('==',k,len(v))
    for x in v[:25]: print('   ',x)
