import sys
import oracle2
from oracle2 import Oracle, Fraction, prefix_value
from measured import *
from measured.si import *
from measured.parsing import ParseError
from collections import Counter, defaultdict
o=Oracle()
P=[IdentityPrefix]+sorted(set(Prefix._by_name.values()),key=lambda p:(p.base,p.exponent))
U=sorted(set(Unit._by_name.values()),key=lambda u:u.name)
res=Counter(); ex=defaultdict(list)
def size(u):
    try: return o.usize(u)
    except KeyError: return None
def classify(p,u,e,x,s):
    """mechanism key for a failing round trip, or None"""
    # leading magnitude: str starts with a number followed by space
    head=s.split(' ')[0]
    if ' ' in s and head[0].isdigit(): return 'leading-magnitude-in-unit-str'
    # numeric prefix rendering: some term's prefix has no symbol
    terms=[(x.prefix, )]
    if any(ch in s for ch in '⁰¹²³⁴⁵⁶⁷⁸⁹⁻') and s[0].isdigit(): return 'numeric-prefix-rendering'
    return None
for p in P:
    for u in U:
        for e in (-3,-2,-1,1,2,3):
            x=(p*u)**e; s=str(x)
            try: y=Unit.parse(s)
            except (ParseError,KeyError) as err:
                k=classify(p,u,e,x,s) or 'UNCLASSIFIED-PARSEFAIL'
                res[k]+=1
                if k.startswith('UNCL') and len(ex[k])<20: ex[k].append((repr(p),u.name,e,s,type(err).__name__))
                continue
            if y is x: res['identical']+=1; continue
            sx,sy=size(x),size(y)
            if y.dimension is x.dimension and sx and sy and sx==sy: res['equal-by-size']+=1; ex['equal-by-size'].append((s,repr(y)[:50])) if len(ex['equal-by-size'])<8 else None; continue
            # different value: collision?
            first_sym=None
            sym=(p.symbol or '')+(u.symbol or '')
            if p is not IdentityPrefix and sym in Unit._by_symbol and Unit._by_symbol[sym] is not x:
                res['collision:'+sym]+=1
            else:
                res['UNCLASSIFIED-DIFFERENT']+=1
                if len(ex['UNCLASSIFIED-DIFFERENT'])<20: ex['UNCLASSIFIED-DIFFERENT'].append((repr(p),u.name,e,s,repr(y)[:60]))
for k in sorted(res): print(k,res[k])
for k,v in ex.items():
    print('==',k)
    for t in v: print('   ',t)
