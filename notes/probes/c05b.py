import random, sys, math
import oracle2
from oracle2 import Oracle, Fraction
from decimal import Decimal
from measured import *
from measured.si import *
from measured.conversions import ConversionNotFound
from collections import Counter, defaultdict
o=Oracle()
seed=int(sys.argv[1]); N=int(sys.argv[2]); random.seed(seed)
named=[u for u in set(Unit._by_name.values()) if u.name not in {'one','celsius','fahrenheit'} and u.dimension is not Number and all(f in o.size for f in u.factors)]
named.sort(key=lambda u:u.name)
bydim=defaultdict(list)
for u in named: bydim[u.dimension].append(u)
prefixes=[IdentityPrefix]*6+sorted(set(Prefix._by_name.values()),key=lambda p:(p.base,p.exponent))
def rand_side():
    k=random.randint(1,2); return [(random.choice(prefixes),random.choice(named),random.choice([1,1,1,2,-1,-2,3])) for _ in range(k)]
def build(fs):
    r=One
    for p,u,e in fs: r=r*((p*u)**e)
    return r
def alt(fs):
    out=[(random.choice(prefixes),random.choice(bydim[u.dimension]),e) for p,u,e in fs]; random.shuffle(out); return out
res=Counter(); ex=defaultdict(list)
def rel(a,b):
    a=float(a); b=float(b)
    return abs(a-b)/max(abs(a),abs(b)) if (a or b) else 0
for i in range(N):
    fa=rand_side(); ua=build(fa); ub=build(alt(fa)); uc=build(alt(fa))
    lo,hi=o.ratio_interval(ua,ub)
    if not (Fraction(1,10**150)<hi<Fraction(10**150)): res['range']+=1; continue
    deg=3*sum(abs(e) for _,_,e in fa)
    widen=float(hi/lo)-1
    tol=1e-5*deg+ 3*widen
    m=random.choice([1,2.5,-3,0.001,7,Decimal('1.25'),0])
    k=random.choice([-3,0.5,7,1e6])
    try:
        r1=(m*ua).in_unit(ub)
    except ConversionNotFound: res['cnf']+=1; continue
    # linearity
    try:
        r2=((m*ua)*k).in_unit(ub)
        ok=rel(r2.magnitude, float(r1.magnitude)*k)<=1e-12
        res['lin-ok' if ok else 'LIN-BAD']+=1
        if not ok: ex['LIN-BAD'].append((str(m*ua),str(ub),k,r1.magnitude,r2.magnitude))
    except ConversionNotFound: res['LIN-CNF-INCONSISTENT']+=1
    if m==0:
        res['zero-ok' if r1.magnitude==0 else 'ZERO-BAD']+=1
    else:
        sgn = (float(r1.magnitude)>0)==(float(m)>0)
        res['sign-ok' if sgn else 'SIGN-BAD']+=1
    # self
    s=(m*ua).in_unit(ua)
    ok = rel(s.magnitude,m)<=1e-12
    res['self-ok' if ok else 'SELF-BAD']+=1
    if not ok: ex['SELF-BAD'].append((str(m*ua),s.magnitude))
    # round trip
    try:
        back=r1.in_unit(ua)
        ok=rel(back.magnitude,m)<=tol
        res['rt-ok' if ok else 'RT-BAD']+=1
        if not ok: ex['RT-BAD'].append((str(m*ua),str(ub),str(back),tol))
    except ConversionNotFound: res['rt-cnf']+=1; ex['rt-cnf'].append((str(ua),str(ub)))
    # via
    try:
        via=(m*ua).in_unit(uc).in_unit(ub)
        ok=rel(via.magnitude,r1.magnitude)<=tol
        res['via-ok' if ok else 'VIA-BAD']+=1
        if not ok: ex['VIA-BAD'].append((str(m*ua),str(uc),str(ub),str(via),str(r1),tol))
    except ConversionNotFound: res['via-cnf']+=1
for k in sorted(res): print(k,res[k])
for k,v in ex.items():
    print('==',k,len(v))
    for t in v[:8]: print('   ',t)
