from measured import *
from measured import systems
from measured.si import *
from measured.us import *
from measured.energy import *
from measured import conversions
def show(q,u):
    try:
        r=q.in_unit(u); print(q,'->',r, '   plan:',conversions._plan_conversion(q.unit,u))
    except Exception as e: print(q,'->',u,type(e).__name__,e)
show(1*Joule/Second, BritishThermalUnit/Hour)   # expect 3.414
show(1*BritishThermalUnit/Hour, Watt)  # 0.293
show(1*Calorie/Second, BritishThermalUnit/Hour) # 14.286
show(1*Calorie*Meter, BritishThermalUnit*Foot)  # 0.003968*3.28=0.01302
show(1*Meter/Calorie, Foot/BritishThermalUnit)  # 3.28/0.003968=826.8
show(1*BritishThermalUnit**-1, Calorie**-1)     # 1/252 = 0.003968
show(1*PoundForce**-1, Newton**-1)  # 0.2248
show(1*Meter/PoundForce, Foot/Newton) # 3.28*0.2248=0.7376
show(1*Meter/Foot, One)
show(1*Meter**-1, Foot**-1)
show(1*Knot, Meter/Second)
show(1*Knot**-1, Second/Meter)
show(1*Horsepower, Watt)
show(1*Donkeypower, Watt)
show(1*PSI, Pascal)
show(1*Pascal**-1, PSI**-1)
show(1*Liter/Second, Gallon/Minute)
show(1*Second/Liter, Minute/Gallon)
show(1*Acre*Foot, Meter**3)
show(1*Hertz, Minute**-1)
