import random
from measured import *
from measured import systems
from measured.si import *
from measured.iec import *
random.seed(0)
P=list(set(Prefix._by_name.values()))
bad=0;n=0;worst=0
for i in range(20000):
    p=random.choice(P); u=random.choice([Meter,Second,Newton,Meter/Second,Byte]); e=random.choice([1,2,-1])
    x=(p*u)**e
    m=random.choice([random.uniform(-1e3,1e3), random.randint(-1000,1000), 0.1, 1e-7, 3])
    r=(m*x).in_unit(x); n+=1
    if r.magnitude!=m:
        bad+=1; rel=abs(r.magnitude/m-1) if m else abs(r.magnitude); worst=max(worst,rel)
        if bad<5: print(m,str(x),r.magnitude, type(r.magnitude))
print(n,bad,worst)
