import lark, random
from lark import Lark
from measured import _parser
g=open('/repo/src/measured/measured.lark').read()
fresh=Lark(g,parser='lalr',start=['unit','quantity'],maybe_placeholders=False)
print(lark.__version__)
ship=_parser.Parser()   # no transformer
# compare terminals
ft={t.name:(t.pattern.to_regexp(),t.priority) for t in fresh.terminals}
st={t.name:(t.pattern.to_regexp(),t.priority) for t in ship.terminals}
print(len(ft),len(st), set(ft)^set(st))
for k in ft:
    if ft[k]!=st.get(k): print('TERM DIFF',k,ft[k],st.get(k))
fr=sorted((str(r.origin.name),tuple(str(s.name) for s in r.expansion),r.alias,r.order, r.options.keep_all_tokens, r.options.expand1, tuple(r.options.empty_indices) if r.options.empty_indices else ()) for r in fresh.rules)
sr=sorted((str(r.origin.name),tuple(str(s.name) for s in r.expansion),r.alias,r.order, r.options.keep_all_tokens, r.options.expand1, tuple(r.options.empty_indices) if r.options.empty_indices else ()) for r in ship.rules)
print(len(fr),len(sr), fr==sr)
for a,b in zip(fr,sr):
    if a!=b: print(a,b)
# differential parse
def both(s,start):
    out=[]
    for p,E in ((fresh,lark.exceptions.LarkError),(ship,_parser.LarkError)):
        try: out.append(('ok',str(p.parse(s,start=start).pretty()) ))
        except E as e: out.append(('err',type(e).__name__))
    return out
alphabet=list("1mskgΩ°.-()⋅*/^⁻¹²³⁰ +-0123456789eE. \tAÅₐ☉μ")
random.seed(0); n=0;acc=0;dis=0
for i in range(20000):
    s=''.join(random.choice(alphabet) for _ in range(random.randint(0,8)))
    for st_ in ('unit','quantity'):
        a,b=both(s,st_); n+=1
        if a[0]=='ok': acc+=1
        if a!=b: dis+=1; print('DISAGREE',repr(s),st_,a,b)
print(n,acc,dis)
# tables
pt_f=fresh.parser.parser._parse_table if hasattr(fresh.parser.parser,'_parse_table') else None
print(type(fresh.parser.parser), dir(fresh.parser.parser)[:40])
