import random, sys, itertools
from decimal import Decimal
from measured import *
from measured import systems
from measured.si import *
from measured.us import Foot, Inch, Mile, Yard, PSI
from collections import Counter, defaultdict
random.seed(int(sys.argv[1]) if len(sys.argv)>1 else 0)
dBW=Decibel[1*Watt]; dBm=Decibel[1*Milli*Watt]; NpV=Neper[1*Volt]; dBV=Decibel[1*Volt]
def rq(dimkind):
    if dimkind=='len':
        u=random.choice([Meter,Foot,Inch,Kilo*Meter,Milli*Meter,Mile,Yard,Centi*Meter])
        base=random.choice([1,3,10,100.0,0.5]); 
        # value ~ base metres expressed in u
        m = base / float((1*u).in_unit(Meter).magnitude)
        m = random.choice([m, m*(1+random.choice([0,1e-3,-1e-3,0.2,-0.2]))])
        if random.random()<0.2: m=Decimal(repr(m))
        return m*u
    if dimkind=='pow':
        u=random.choice([Watt,Kilo*Watt,Milli*Watt,Unit.named('horsepower')])
        base=random.choice([1,100,0.001,2.0])
        m= base/float((1*u).in_unit(Watt).magnitude)*random.choice([1,1.001,0.8])
        return m*u
def rmeas(dimkind):
    q=rq(dimkind); 
    unc=abs(float(q.magnitude))*random.choice([0,1e-9,0.01,0.3,2.0])
    return Measurement(q, unc if not isinstance(q.magnitude,Decimal) else Decimal(repr(unc)))
def rlevel():
    lu=random.choice([dBW,dBm]); return random.choice([0,20,-30,3.0103,30.0])*lu
res=Counter(); ex=defaultdict(list)
def kind(x): return type(x).__name__[0]
def tryop(f):
    try: return f()
    except TypeError: return 'TypeError'
    except Exception as e: return '!!'+type(e).__name__
for i in range(6000):
    dk=random.choice(['len','pow'])
    gens=[lambda:rq(dk),lambda:rmeas(dk),lambda:approximately(rq(dk),random.choice([1e-7,0.01,0.5]))]
    if dk=='pow': gens.append(rlevel)
    x=random.choice(gens)(); y=random.choice(gens)()
    k=kind(x)+kind(y)
    e1=tryop(lambda:x==y); e2=tryop(lambda:y==x)
    n1=tryop(lambda:x!=y); n2=tryop(lambda:y!=x)
    if e1!=e2: res[(k,'EQ-ASYM')]+=1; ex[(k,'EQ-ASYM')].append((str(x),str(y),e1,e2))
    else: res[(k,'eq-sym')]+=1
    if n1!=n2: res[(k,'NE-ASYM')]+=1; ex[(k,'NE-ASYM')].append((str(x),str(y),n1,n2))
    if e1 in (True,False) and n1 in (True,False) and e1==n1: res[(k,'EQ==NE')]+=1; ex[(k,'EQ==NE')].append((str(x),str(y),e1,n1))
    for r in (e1,e2,n1,n2):
        if isinstance(r,str) and r.startswith('!!'): res[(k,r)]+=1; ex[(k,r)].append((str(x),str(y)))
    # ordering mirror: x<y  <=> y>x ; x<=y <=> y>=x
    a=tryop(lambda:x<y); b=tryop(lambda:y>x); c=tryop(lambda:x<=y); d=tryop(lambda:y>=x)
    if a!=b: res[(k,'LT-GT-MIRROR')]+=1; ex[(k,'LT-GT-MIRROR')].append((str(x),str(y),a,b))
    if c!=d: res[(k,'LE-GE-MIRROR')]+=1; ex[(k,'LE-GE-MIRROR')].append((str(x),str(y),c,d))
for k in sorted(res,key=str): print(k,res[k])
for k,v in ex.items():
    print('==',k,len(v))
    for t in v[:6]: print('   ',t)
