import random, sys, time, itertools
import oracle
from oracle import *
from measured import *
from measured.si import *
from measured.conversions import ConversionNotFound
from collections import Counter, defaultdict
size,pending=solve()
size[Kilogram]=Fraction(1000)
seed=int(sys.argv[1]); N=int(sys.argv[2]); mode=sys.argv[3]
random.seed(seed)
bad={'metric inch','metric foot','dry quart','dry gallon','peck','bushel','ton of refrigeration','boiler horsepower','one','celsius','fahrenheit'}
named=[u for u in set(Unit._by_name.values()) if u.name not in bad and u.dimension is not Number and all(f in size for f in u.factors)]
def mixed(d): return any(e<0 for e in d.exponents) and any(e>0 for e in d.exponents)
def fund(d): return sum(abs(e) for e in d.exponents)==1
if mode=='pure': named=[u for u in named if not mixed(u.dimension) and all(not mixed(f.dimension) for f in u.factors)]
if mode=='fund': named=[u for u in named if fund(u.dimension) and u in Unit._base]
named.sort(key=lambda u:u.name)
print(len(named),'units')
bydim=defaultdict(list)
for u in named: bydim[u.dimension].append(u)
prefixes=[IdentityPrefix]*6+[Kilo,Milli,Mega,Micro,Centi,Giga,Nano]
def rand_side():
    k=random.randint(1,3); fs=[]
    for _ in range(k):
        fs.append((random.choice(prefixes),random.choice(named),random.choice([1,1,1,2,3,-1,-1,-2,-3])))
    return fs
def build(fs):
    r=One
    for p,u,e in fs: r=r*((p*u)**e)
    return r
def alt(fs):
    out=[(random.choice(prefixes),random.choice(bydim[u.dimension]),e) for p,u,e in fs]
    random.shuffle(out); return out
res=Counter(); ex=defaultdict(list)
for i in range(N):
    a=rand_side(); b=alt(a); ua=build(a); ub=build(b)
    m=random.choice([1,2.5,-3,0.001])
    try: r=(m*ua).in_unit(ub)
    except ConversionNotFound as e: res['CNF']+=1; ex['CNF'].append((str(ua),str(ub))); continue
    except Exception as e:
        k=type(e).__name__; res[k]+=1; ex[k].append((str(ua),str(ub),str(e)[:60])); continue
    exp=Fraction(m)*usize(ua,size)/usize(ub,size)
    deg=sum(abs(e) for _,_,e in a)+sum(abs(e) for _,_,e in b)
    rel=abs(float(Fraction(r.magnitude)/exp)-1)
    if rel<=1e-5*deg: res['ok']+=1
    else: res['WRONG']+=1; ex['WRONG'].append((str(ua),str(ub),m,r.magnitude,float(exp),rel))
print(res)
for k,v in ex.items():
    print('==',k,len(v))
    for x in v[:15]: print('   ',x)
