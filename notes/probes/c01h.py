import random, sys, io, json, pickle, contextlib
from measured import *
from measured import systems, cli
from measured.si import *
from measured.us import *
from measured.energy import *
from measured.json import MeasuredJSONEncoder, MeasuredJSONDecoder
from IPython.lib.pretty import pretty
seed=int(sys.argv[1]); random.seed(seed)
fund=Dimension.fundamental()
declared={u:u.dimension for u in Unit.base()}   # approximation for probe: base dims at start
def model_dim(u):
    d=[0]*len(Number.exponents)
    for f,e in u.factors.items():
        if f is u: return u.dimension.exponents
        for i,x in enumerate(declared.get(f,f.dimension).exponents): d[i]+=x*e
    return tuple(d)
def sweep(tag):
    bad=[(str(u.factors),str(u.dimension)) for u in list(Unit._known.values()) if model_dim(u)!=u.dimension.exponents]
    return bad
base=[u for u in Unit.base() if u is not One]
mixedb=[u for u in base if any(e<0 for e in u.dimension.exponents) and any(e>0 for e in u.dimension.exponents)]
prefs=[IdentityPrefix]*3+[Kilo,Milli,Mega,Micro]
def rand_unit():
    k=random.randint(1,3); r=One
    fs=[(random.choice(prefs),random.choice(mixedb if random.random()<0.5 else base),random.choice([1,2,3,-1,-2,-3])) for _ in range(k)]
    return fs
def build(fs, order):
    # build without creating sub-powers separately where possible: use pow on product
    r=One
    for p,u,e in fs: r = r*((p*u)**e)
    return r
ops=0; first=None
for h in range(int(sys.argv[2])):
    fs=rand_unit()
    # construct via parse of text to avoid creating parts: text like "g-force^2/h^2"
    txt='*'.join(f"{(p.symbol or '')}{u.symbol}^{e}" for p,u,e in fs)
    try: u=Unit.parse(txt)
    except Exception as e: continue
    op=random.choice(['ratio','fmt','pretty','html','str','json','pickle','cli','q_fmt','root','conv'])
    try:
        if op=='ratio': u.as_ratio()
        elif op=='fmt': format(u,'/')
        elif op=='pretty': pretty(u)
        elif op=='html': u._repr_html_(); u.dimension._repr_html_()
        elif op=='str': str(u)
        elif op=='json': json.loads(json.dumps(u,cls=MeasuredJSONEncoder),cls=MeasuredJSONDecoder)
        elif op=='pickle': pickle.loads(pickle.dumps(u))
        elif op=='cli':
            with contextlib.redirect_stdout(io.StringIO()):
                try: cli.print_quantity('3 '+txt)
                except SystemExit: pass
        elif op=='q_fmt': f"{2.5*u::/}"; pretty(2.5*u); (2.5*u)._repr_html_()
        elif op=='root': (u**2).root(2)
        elif op=='conv':
            try: (1*u).in_unit(u.quantify().unit)
            except Exception: pass
    except Exception as e:
        print('EXC',op,txt,type(e).__name__,str(e)[:60])
    ops+=1
    b=sweep(op)
    if b and first is None:
        first=(op,txt,b[:3]); print('FIRST POISON',first); break
print('ops',ops,'units',len(Unit._known),'bad',len(sweep('end')))
