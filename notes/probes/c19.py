from measured import *
from measured import systems
from measured.si import *
def snap():
    return (dict(Unit._by_name),dict(Unit._by_symbol),dict(Unit._known),set(Unit._base),dict(Dimension._by_name),dict(Dimension._known),dict(Prefix._by_name),dict(Prefix._by_symbol),dict(Prefix._known),
            {u:(u.names,u.symbols) for u in Unit._known.values() if getattr(u,'_initialized',False)})
def diff(a,b):
    names=['U.by_name','U.by_symbol','U.known','U.base','D.by_name','D.known','P.by_name','P.by_symbol','P.known','U.attrs']
    out=[]
    for n,x,y in zip(names,a,b):
        if x!=y:
            if isinstance(x,dict):
                out.append((n,'added',[k if isinstance(k,str) else '<key>' for k in y.keys()-x.keys()],'changed',[k for k in x.keys()&y.keys() if x[k]!=y[k]][:3]))
            else: out.append((n,y-x))
    return out
def attempt(label,f):
    s=snap()
    try: f(); print(label,'no exception')
    except Exception as e: print(label,type(e).__name__,e)
    d=diff(s,snap())
    print('    registry diff:',d)
attempt('define dup name',lambda:Unit.define(Length,'meter','zz1'))
attempt('define dup symbol',lambda:Unit.define(Length,'zzname1','m'))
attempt('define space symbol',lambda:Unit.define(Length,'zzname2','z z'))
attempt('derive dup symbol',lambda:Unit.derive(Meter*Second**7,'zzname3','m'))
attempt('derive dup name',lambda:Unit.derive(Meter*Second**8,'meter','zz4'))
attempt('derive space symbol',lambda:Unit.derive(Meter*Second**9,'zzname5','z z'))
attempt('alias dup symbol',lambda:(Meter*Second**6).alias(name='zzname6',symbol='s'))
attempt('Dimension.unit dup',lambda:Length.unit('zzname7','s'))
attempt('scale dup symbol',lambda:Temperature.scale(1*Kelvin,'zzname8','K'))
attempt('scale same unit',lambda:Temperature.scale(1*Kelvin,'kelvin','K'))
attempt('dimension derive rebinding',lambda:Dimension.derive(Length**7,'area'))
print(Dimension.named('area'), Area.name, (Length**7).name)
# anonymous first, naming later
u=Meter**5/Second**3
attempt('derive after anonymous',lambda:Unit.derive(Meter**5/Second**3,'zzfoo','zzf'))
print(u.name,u.symbol,Unit.named('zzfoo') is u, Unit.resolve_symbol('zzf') is u)
p=Prefix(10,5)
q=Prefix(10,5,name='zzhundredkilo',symbol='zzhk')
print(q is p, q.name, q.symbol, Prefix._by_name.get('zzhundredkilo'))
d=Length**9
d2=Dimension(d.exponents,name='zzhyper',symbol='Zh')
print(d2 is d, d2.name, Dimension.named('zzhyper'))
# Unit constructor w/ name when exists anonymously
v=Meter**4/Second
w=Unit(IdentityPrefix,{Meter:4,Second:-1},v.dimension,name='zzbar',symbol='zzb')
print(w is v, w.name, Unit._by_name.get('zzbar'))
# equals failing
attempt('equals self',lambda:Meter.equals(2*Meter))
