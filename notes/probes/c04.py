import random, sys, time
import oracle
from oracle import *
from measured import *
from measured.si import *
from measured.iec import Bit
from measured.conversions import ConversionNotFound
from collections import Counter, defaultdict
size,pending=solve()
size[Kilogram]=Fraction(1000)
seed=int(sys.argv[1]) if len(sys.argv)>1 else 0
N=int(sys.argv[2]) if len(sys.argv)>2 else 3000
random.seed(seed)
named=[u for u in set(Unit._by_name.values()) if u in size or all(f in size for f in u.factors)]
named=[u for u in named if u not in (Celsius,) and u.name not in('fahrenheit','metric foot','one')]
named.sort(key=lambda u:u.name)
bydim=defaultdict(list)
for u in named: bydim[u.dimension].append(u)
prefixes=[IdentityPrefix]*6+[Kilo,Milli,Mega,Micro,Centi,Giga,Nano]
from measured.iec import Kibi,Mebi
def rand_side(dims=None):
    k=random.randint(1,3)
    fs=[]
    for _ in range(k):
        u=random.choice(named); e=random.choice([1,1,1,2,3,-1,-1,-2,-3])
        p=random.choice(prefixes)
        fs.append((p,u,e))
    return fs
def build(fs):
    r=One
    for p,u,e in fs: r=r*((p*u)**e)
    return r
def alt(fs):
    out=[]
    for p,u,e in fs:
        c=bydim[u.dimension]
        v=random.choice(c); q=random.choice(prefixes)
        out.append((q,v,e))
    random.shuffle(out)
    return out
res=Counter(); ex=defaultdict(list)
t0=time.time()
for i in range(N):
    a=rand_side(); b=alt(a)
    ua=build(a); ub=build(b)
    if ua.dimension is not ub.dimension: res['dimmismatch']+=1; continue
    m=random.choice([1,2.5,-3,0.001])
    try:
        r=(m*ua).in_unit(ub)
    except ConversionNotFound as e:
        res['CNF']+=1; ex['CNF'].append((str(ua),str(ub))); continue
    except RecursionError as e:
        res['RecursionError']+=1; ex['Rec'].append((str(ua),str(ub))); continue
    except Exception as e:
        k=type(e).__name__; res[k]+=1; ex[k].append((str(ua),str(ub),str(e)[:60])); continue
    exp=Fraction(m)*usize(ua,size)/usize(ub,size)
    deg=sum(abs(e) for _,_,e in a)+sum(abs(e) for _,_,e in b)
    if r.unit is not ub: res['wrongunit']+=1
    got=Fraction(r.magnitude)
    rel=abs(float(got/exp)-1) if exp else abs(float(got))
    if rel<=1e-5*deg: res['ok']+=1
    else:
        res['WRONG']+=1; ex['WRONG'].append((str(ua),str(ub),m,float(got),float(exp),rel))
print(res, time.time()-t0)
for k,v in ex.items():
    print('==',k,len(v))
    for x in v[:12]: print('   ',x)
