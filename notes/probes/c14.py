from decimal import Decimal
import math
from measured import *
from measured import systems
from measured.si import *
from measured.us import Foot
def t(label,f):
    try:
        r=f(); print(label, r.measurand, '±', r.uncertainty)
    except Exception as e: print(label,'!!',type(e).__name__,e)
x=Measurement(2*Meter,0.1); y=Measurement(3*Meter,0.2)
t('pow2',lambda:x**2)   # expect 4 ± 2*2*0.1=0.4
t('pow3',lambda:x**3)   # 8 ± 3*4*.1=1.2
t('pow1',lambda:x**1)   # 2 ± .1
t('pow-1',lambda:x**-1) # .5 ± 0.1/4=0.025
t('pow0',lambda:x**0)
t('mul',lambda:x*y)     # 6 ± sqrt((3*.1)^2+(2*.2)^2)=.5
t('div',lambda:x/y)     # .667 ± .667*sqrt(.0025+.00444)=0.0556
t('add',lambda:x+y)
t('sub',lambda:x-y)
z=Measurement(0*Meter,0.1)
t('zero*y',lambda:z*y)   # 0 ± 3*.1 = .3
t('y*zero',lambda:y*z)
t('zero/y',lambda:z/y)
t('x*qty',lambda:x*(3*Second))
t('qty*x',lambda:(3*Second)*x)
t('qty/x',lambda:(3*Second)/x)
t('x/qty',lambda:x/(3*Second))
t('x+qty',lambda:x+(1*Meter))
t('qty+x',lambda:(1*Meter)+x)
t('qty-x',lambda:(1*Meter)-x)
t('x+ft',lambda:x+Measurement(1*Foot,0.5))
t('ft+x',lambda:Measurement(1*Foot,0.5)+x)
t('x*num',lambda:x*3)
t('num*x',lambda:3*x)
t('x/num',lambda:x/3)
t('neg',lambda:-x)
t('dec',lambda:Measurement(Decimal('2')*Meter,Decimal('0.1'))*Measurement(Decimal('3')*Meter,Decimal('0.2')))
t('negunc',lambda:Measurement(2*Meter,-0.1))
t('x*x',lambda:x*x)
t('mixedunit mul',lambda:Measurement(2*Kilo*Meter,0.1)*y)
