from measured import *
from measured import systems, conversions
from measured.si import *
from measured.conversions import ConversionNotFound
A=Length.unit('zza','zza'); B=Length.unit('zzb','zzb')
def att(label,f):
    try: print(label, f())
    except Exception as e: print(label,type(e).__name__,e)
att('before',lambda:(1*A).in_unit(B))
att('eq before',lambda:(1*A)==(2*B))
A.equals(2*B)
att('after',lambda:(1*A).in_unit(B))
att('eq after',lambda:(1*A)==(2*B))
att('B->A',lambda:(1*B).in_unit(A))
att('A->m',lambda:(1*A).in_unit(Meter))
B.equals(3*Meter)
att('A->m after',lambda:(1*A).in_unit(Meter))
att('A2->m2',lambda:(1*A**2).in_unit(Meter**2))
print(conversions._plan_conversion.cache_info(), conversions._find_path.cache_info())
# redefinition changes
C=Length.unit('zzc','zzc'); C.equals(5*Meter)
att('C->m',lambda:(1*C).in_unit(Meter))
C.equals(7*Meter)
att('C->m after redefinition',lambda:(1*C).in_unit(Meter))
print(conversions._ratios[C])
