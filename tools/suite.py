#!/venv/bin/python
"""Run the repository's own suite on a scratch copy of a tree (never inside /repo) and
compare per test against BASELINE.json's stable_pass list.
usage: suite.py [tree=/repo] [runs=1]      exit 0 iff every stable_pass test passed in every run"""
import json, os, shutil, subprocess, sys, tempfile
import xml.etree.ElementTree as ET

tree = sys.argv[1] if len(sys.argv) > 1 else "/repo"
runs = int(sys.argv[2]) if len(sys.argv) > 2 else 1
base = json.load(open("/root/.vp/BASELINE.json"))
stable = set(base["stable_pass"])
ok = True
for r in range(runs):
    tmp = tempfile.mkdtemp(prefix="suite-")
    dst = os.path.join(tmp, "repo")
    shutil.copytree(tree, dst, ignore=shutil.ignore_patterns(".git", "__pycache__", ".hypothesis", ".coverage*"))
    xml = os.path.join(tmp, "junit.xml")
    env = dict(os.environ, PYTHONPATH=os.path.join(dst, "src"), PYTHONDONTWRITEBYTECODE="1")
    env.pop("MEASURED_VERIF", None)
    p = subprocess.run(["/venv/bin/python", "-m", "pytest", "-q", "-p", "no:cacheprovider", "--timeout=900",
                        "--continue-on-collection-errors", f"--junitxml={xml}", "-x" if False else "-ra"],
                       cwd=dst, env=env, capture_output=True, text=True)
    passed = set()
    for tc in ET.parse(xml).getroot().iter("testcase"):
        if not any(ch.tag in ("failure", "error", "skipped") for ch in tc):
            passed.add(f"{tc.get('classname')}::{tc.get('name')}")
    missing = sorted(stable - passed)
    print(f"run {r}: {len(passed)} passed, stable_pass missing: {len(missing)}", p.stdout.strip().splitlines()[-1] if p.stdout.strip() else "")
    for m in missing[:15]:
        print("   MISSING", m)
    if missing:
        ok = False
        print(p.stdout[-3000:])
    shutil.rmtree(tmp, ignore_errors=True)
sys.exit(0 if ok else 1)
