#!/venv/bin/python
"""tools/mkmeta_other.py <seed dir> <check>[,<check>...]  — record in the seed's meta.json which *other* property's quick check
catches it (seedtest on a scratch copy, seeds 0 and 1)."""
import json, os, re, subprocess, sys
V = os.path.dirname(os.path.dirname(os.path.abspath(__file__)))
d, checks = os.path.abspath(sys.argv[1]), sys.argv[2]
p = subprocess.run([os.path.join(V, "tools", "seedtest.py"), d, "--checks", checks, "--no-suite", "--no-demo", "--seeds", "0,1"], capture_output=True, text=True)
meta = json.load(open(os.path.join(d, "meta.json")))
for c in checks.split(","):
    runs = [l for l in p.stdout.splitlines() if re.match(rf"{c} seed \d+: exit", l)]
    caught = [l for l in runs if ": exit 1 " in l]
    meta.setdefault("quick_check_runs", []).extend(runs)
    if caught:
        if c not in meta["caught_by_quick_checks"]:
            meta["caught_by_quick_checks"].append(c)
        meta["first_violation"][c] = caught[0].split("  ", 1)[1][:220]
        meta["confirmed_by_me"]["commands"].append(f"tools/seedtest.py seeded/{os.path.basename(d)} --checks {c} --seeds 0,1")
    print(os.path.basename(d), c, f"{len(caught)} of {len(runs)} runs caught")
json.dump(meta, open(os.path.join(d, "meta.json"), "w"), indent=1, ensure_ascii=False)
