#!/venv/bin/python
"""Regenerate the table of DESIGN.md §8.5 (between the MATRIX markers) from seeded/MATRIX.json and the meta files."""
import json, os, re
V = os.path.dirname(os.path.dirname(os.path.abspath(__file__)))
M = json.load(open(os.path.join(V, "seeded", "MATRIX.json")))
rows = ["| change | property | caught by (exit 1) | what it does |", "|---|---|---|---|"]
for name in sorted(M, key=lambda n: (n[0] != "C", n)):
    d = "seeded" if name[0] == "C" else "selftest"
    meta = json.load(open(os.path.join(V, d, name, "meta.json")))
    what = (meta.get("breaks") or meta.get("summary") or "").replace("|", "\\|").replace("\n", " ")
    if len(what) > 230:
        what = what[:227] + "..."
    e = M[name]
    caught = ", ".join(e["caught_by"]) or ("**stale patch**" if e.get("stale_patch") else "**none**")
    if e.get("inconclusive"):
        caught += " (inconclusive: " + ", ".join(e["inconclusive"]) + ")"
    rows.append(f"| `{name}` | {e['property']} | {caught} | {what} |")
p = os.path.join(V, "DESIGN.md")
s = open(p).read()
a, b = s.index("<!-- MATRIX-BEGIN -->"), s.index("<!-- MATRIX-END -->")
s = s[:a] + "<!-- MATRIX-BEGIN -->\n" + "\n".join(rows) + "\n" + s[b:]
open(p, "w").write(s)
own = sum(1 for n, e in M.items() if e["property"] in e["caught_by"])
print(f"{len(M)} changes, {own} caught by their own property's check")
