#!/venv/bin/python
"""tools/reach.py [--tier quick] [--checks C01,C02,...] [--seed N]
Run the checks with the reach recorder on (VERIF_COVER_DIR; evidence and replays go to a scratch directory, the
committed evidence is not touched), merge what every harness process executed, and write /verif/reach/REACH.json and
REACH.md: per library function, the executable lines that no check's workload ever executed."""
import argparse, dis, glob, json, os, shutil, subprocess, sys, tempfile, types

V = os.path.dirname(os.path.dirname(os.path.abspath(__file__)))
ap = argparse.ArgumentParser()
ap.add_argument("--tier", default="quick")
ap.add_argument("--checks", default=",".join(f"C{i:02d}" for i in range(1, 21)))
ap.add_argument("--seed", default="0")
a = ap.parse_args()
repo = os.environ.get("VERIF_REPO", "/repo")
src = os.path.join(repo, "src", "measured")
tmp = tempfile.mkdtemp(prefix="reach-")
per_check = {}
for c in a.checks.split(","):
    d = os.path.join(tmp, c)
    env = dict(os.environ, VERIF_COVER_DIR=d, VERIF_EVIDENCE_DIR=os.path.join(tmp, "ev"), VERIF_REPLAY_DIR=os.path.join(tmp, "rp"))
    p = subprocess.run([os.path.join(V, "check"), c, "--tier", a.tier, "--seed", a.seed], env=env, capture_output=True, text=True)
    last = [l for l in p.stdout.splitlines() if l.startswith(("HELD", "INCONCLUSIVE", "property "))]
    lines = {}
    for f in glob.glob(os.path.join(d, "reach-*.json")):
        for fn, ls in json.load(open(f))["lines"].items():
            lines.setdefault(fn, set()).update(ls)
    per_check[c] = lines
    print(c, "exit", p.returncode, (last[-1][:90] if last else ""), "files", len(lines), flush=True)
shutil.rmtree(tmp, ignore_errors=True)

union = {}
for c, lines in per_check.items():
    for fn, ls in lines.items():
        union.setdefault(fn, set()).update(ls)


def functions(code, qual=""):
    for const in code.co_consts:
        if isinstance(const, types.CodeType):
            name = const.co_qualname if hasattr(const, "co_qualname") else const.co_name
            yield name, const
            yield from functions(const, name)


report, md = {}, ["# Library lines no check executed (" + a.tier + " tier, seed " + a.seed + ")", ""]
skip_files = {"_parser.py", "hypothesis.py", "pytest.py", "sqlalchemy.py", "cli.py", "django.py"}
tot_exec = tot_hit = 0
for path in sorted(glob.glob(os.path.join(src, "*.py"))):
    fn = os.path.basename(path)
    if fn in skip_files:
        continue
    source = open(path, encoding="utf-8").read()
    text = source.splitlines()
    code = compile(source, path, "exec")
    hit = union.get(fn, set())
    frep = {}
    for name, c in functions(code):
        if "<" in name.split(".")[-1] and "lambda" not in name:
            pass
        lines = sorted({ln for _, ln in dis.findlinestarts(c) if ln is not None and ln != c.co_firstlineno})
        # lines of nested functions belong to them
        nested = set()
        for _, n in functions(c):
            nested.update(ln for _, ln in dis.findlinestarts(n) if ln is not None)
        lines = [ln for ln in lines if ln not in nested]
        if not lines:
            continue
        missed = [ln for ln in lines if ln not in hit]
        tot_exec += len(lines)
        tot_hit += len(lines) - len(missed)
        if missed:
            frep[name] = {"executable": len(lines), "never_executed": missed, "entered": any(ln in hit for ln in lines)}
    if frep:
        report[fn] = frep
        md.append(f"## {fn}")
        for name, r in frep.items():
            md.append(f"* `{name}` - {len(r['never_executed'])} of {r['executable']} lines never executed" + ("" if r["entered"] else " (**never entered**)"))
            for ln in r["never_executed"][:12]:
                md.append(f"    * {ln}: `{text[ln - 1].strip()[:110]}`")
        md.append("")
summary = {"tier": a.tier, "seed": a.seed, "checks": a.checks.split(","), "executable_lines": tot_exec, "executed": tot_hit,
           "per_check_lines": {c: sum(len(v) for v in l.values()) for c, l in per_check.items()}}
os.makedirs(os.path.join(V, "reach"), exist_ok=True)
json.dump({"summary": summary, "functions": report}, open(os.path.join(V, "reach", "REACH.json"), "w"), indent=1)
md.insert(1, f"{tot_hit} of {tot_exec} executable lines inside functions of the library (excluding the generated parser and the optional integrations) "
             f"were executed by at least one check.\n")
open(os.path.join(V, "reach", "REACH.md"), "w").write("\n".join(md) + "\n")
print(json.dumps(summary)[:600])
