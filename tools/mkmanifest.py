#!/venv/bin/python
"""Regenerates /verif/MANIFEST.json from the table below and validates it against the schema.
A property is claimed only when vmon/props/<id>.py exists; everything else is listed under
not_applicable with the reason 'not built yet' (kept current while building)."""
import json
import os
import sys

VERIF = os.path.dirname(os.path.dirname(os.path.abspath(__file__)))

CHECKS = {
    "C01": dict(cat="exploration", tech="registration post-condition + intern-table sweep + cross-history probe comparison in fresh processes",
                text="Random histories of public operations run in fresh interpreters; after every step every interned unit's dimension is compared with the product of its factors' declared dimensions, and probe expressions must have the model dimension in every history.",
                note="Trusted: dimensions captured at Unit.define; held only on the generated histories.", ref="3/C01"),
    "C02": dict(cat="exploration", tech="reference-model monitor: free-abelian-group normal form vs object identity, run-wide identity map",
                text="Every generated expression tree is evaluated by the real operators and by an independent normal-form model; equal normal forms must be the same object (same-base prefixes) or numerically equal scales (mixed bases); intern tables are swept for duplicate normal forms.",
                note="Trusted: the model (≈100 lines); named units' factor tables read at boot.", ref="3/C02"),
    "C03": dict(cat="exploration", tech="operator post-conditions (dimension, Decimal-ness, left unit, rejection of incommensurables)",
                text="Post-conditions on the real Quantity operators over an operator × operand-kind × unit-shape table; every cell of the table must be exercised.",
                note="Trusted: model dimension computed from declared base-unit dimensions.", ref="3/C03"),
    "C04": dict(cat="exploration", tech="post-condition on conversions.convert vs exact-rational size oracle built from intercepted declarations; synthetic systems in fresh processes",
                text="Every conversion that returns (in the generated workload and in synthetic unit systems run in fresh processes) is checked for the requested unit and for magnitude = m·size(src)/size(dst) with sizes solved independently from the declaration log.",
                note="Trusted: the declaration log and the exact solver; tolerance 1e-5/degree on shipped data, 1e-12 on synthetic.", ref="3/C04"),
    "C05": dict(cat="exploration", tech="metamorphic relations over chained in_unit() calls (linearity, zero, sign, self, round trip, via-intermediate)",
                text="Linearity, round-trip and route-independence relations are evaluated over triples of equal-dimension units drawn from C04's space and over synthetic exactly-consistent systems.",
                note="Relations are only evaluated when all legs succeed; tolerances are the statement's.", ref="3/C05"),
    "C06": dict(cat="exploration", tech="SI-value oracle over operands re-expressed by the oracle in other units/prefixes",
                text="Results of + − × ÷ ** and truth of == < are compared with the same operation on oracle SI values, for operands re-expressed in other convertible units and prefixes (re-expressions computed outside the library).",
                note="Ties within 1e-9 relative are skipped and counted.", ref="3/C06"),
    "C07": dict(cat="exploration", tech="exception monitor on the real entry points + differential outcome logs of one case list under python and python -O",
                text="The same generated case list is executed by two fresh children (default and -O); only ConversionNotFound/TypeError may escape and both logs must be identical.",
                note="Outcomes compared by exception type and repr of value.", ref="3/C07"),
    "C08": dict(cat="exploration", tech="recorded history vs declarations-only baseline in a fresh process; memo-flush second opinion",
                text="Random interleavings of definitions, declarations and queries are run in one process and compared offline with a fresh process that sees only the declarations and the final queries.",
                note="Baseline is a fresh interpreter; no knowledge of which caches exist is needed.", ref="3/C08"),
    "C09": dict(cat="exploration", tech="offline checker over the recorded declaration log (cycle residuals, overwrites, leave-one-out) + connectivity sweep through the monitored convert",
                text="All shipped declarations, fundamental cycles and named units are enumerated completely; every edge is compared with the value implied by the rest of the graph and every named unit is converted to and from coherent SI.",
                note="Finite space enumerated in full (exhaustive: true).", ref="3/C09"),
    "C10": dict(cat="exploration", tech="closed-form affine oracle in exact rational arithmetic over all 12 scale pairs × prefixes × sides",
                text="in_unit between K/°C/°F/R with every registered prefix on either side is compared with the exact affine definitions; round trips, absolute zero, differences and cross-scale ordering are checked.",
                note="Exact ties are not asserted (statement: up to rounding).", ref="3/C10"),
    "C11": dict(cat="exploration", tech="exact-rational prefix model; identity where bases agree, 1e-9 numeric otherwise; full prefix × unit × exponent table; anonymous prefixes first created through randomly chosen routes",
                text="The statement's identities are checked for every registered prefix × registered unit × exponent −4…4, plus sampled prefix products/quotients/roots on compound units.",
                note="Prefix values computed as exact Fractions from base/exponent fields.", ref="3/C11"),
    "C12": dict(cat="exploration", tech="truth-table monitor in both argument orders, hash contract, sorted() vs oracle SI order; exact int/Decimal magnitudes beyond float and temperature scales judged by exact values",
                text="All six comparison operators in both argument orders on pairs/triples of quantities, levels and measurements, judged by oracle SI values away from ties.",
                note="Ties skipped and counted.", ref="3/C12"),
    "C13": dict(cat="exploration", tech="round-trip monitor judged by the size oracle; metamorphic spelling monitor; several imported-module sets in fresh processes",
                text="Every registered prefix × named unit × exponent cell and random products are rendered with str() and parsed back; the result must have the same oracle size and dimension; alternative spellings must parse to the same unit.",
                note="Known findings are keyed by mechanism (collision string, numeric prefix rendering, leading magnitude).", ref="3/C13"),
    "C14": dict(cat="exploration", tech="analytic partial-derivative oracle in 50-digit decimal; post-conditions on Measurement operators",
                text="Measurand and uncertainty of every Measurement operation are compared with first-order Gaussian propagation computed independently.",
                note="x*x treated as independent inputs, as the statement says.", ref="3/C14"),
    "C15": dict(cat="exploration", tech="round-trip monitor over every registered object × codec, in-process and cross-process, plus dump→name→load and decode→declare→round-trip histories",
                text="pickle (2–5), cloudpickle, copy, deepcopy, library JSON, codecs_installed, pydantic and the SQL composite form are round-tripped for every registered dimension, prefix and unit and for sampled quantities.",
                note="Cross-process loads compare by normal form and identity with the freshly evaluated expression.", ref="3/C15"),
    "C16": dict(cat="translation_validation", tech="bisimulation of the two loaded LALR tables + differential parsing with table-entry coverage + start-state hook and scheduler-overlapped parses on the shipped engine",
                text="A parser freshly built from measured.lark is compared with the shipped standalone parser: terminals, rules, %ignore, complete action/goto table bisimulation, and differential parsing of generated strings.",
                note="Trusted: Lark 1.3.1 in /venv builds the reference parser.", ref="3/C16"),
    "C17": dict(cat="exploration", tech="exception + registry-snapshot monitor over grammar-derived, mutated, random and arbitrary Unicode text, under several imported-module configurations (incl. the core package alone)",
                text="Unit.parse/Quantity.parse are driven with four generators and a boundary list; only ParseError/KeyError may escape, results are deterministic, rejected inputs leave registries unchanged.",
                note="Explored, not exhausted.", ref="3/C17"),
    "C18": dict(cat="exploration", tech="closed-form logarithmic oracle (50-digit decimal) as post-condition on level()/quantify()",
                text="Levels for several logarithm families, references and magnitudes are compared with (k/prefix)·log_base(q/ref); monotonicity and both round trips are checked.",
                note="Tolerance 1e-9 relative + absolute.", ref="3/C18"),
    "C19": dict(cat="fault_enumeration", tech="registry snapshots around every definition call, bijection sweep with resolver lookups, failpoints at real call boundaries, import-order replay, symbols resolved before they are declared",
                text="Every definition API call in generated histories is bracketed by registry snapshots; failing calls (duplicate name/symbol, spaced symbol, injected faults at call boundaries) must leave every registry unchanged; declared names must bind faithfully.",
                note="Faults injected only at call boundaries the real code has.", ref="3/C19"),
    "C20": dict(cat="exploration", tech="deterministic line-granularity thread scheduler (preemption-bounded, complete per bound) with identity oracle over intern tables and name/symbol registries",
                text="Two and three threads are driven through first-time construction of dimensions, prefixes, units, logarithms and logarithmic units under all schedules up to a preemption bound plus random schedules.",
                note="Line granularity is a subset of real CPython preemption points.", ref="3/C20"),
}

ALL = [f"C{i:02d}" for i in range(1, 21)]


def main():
    checks, na = [], []
    for pid in ALL:
        built = os.path.exists(os.path.join(VERIF, "vmon", "props", pid.lower() + ".py"))
        c = CHECKS[pid]
        if not built:
            na.append({"property_id": pid, "reason": "check not built yet in this round (in scope for the technique; see DESIGN.md §3)"})
            continue
        checks.append({
            "property_id": pid,
            "quick_cmd": f"./check {pid} --tier quick",
            "thorough_cmd": f"./check {pid} --tier thorough",
            "evidence_file": f"/verif/evidence/{pid}.json",
            "replay_cmd_template": f"./check {pid} --replay {{path}}",
            "engine": "vmon",
            "level_claimed": {"category": c["cat"], "text": c["text"], "design_ref": f"DESIGN.md §{c['ref']}"},
            "level_note": c["note"],
            "technique": "runtime monitoring: " + c["tech"],
        })
    manifest = {
        "version": 1,
        "setup_cmd": "true",
        "hooks": {
            "guard": "MEASURED_VERIF",
            "enable": "none needed: every monitor attaches from outside (module attributes resolved at call time, sys.settrace, sys.monitoring); no source hook exists in /repo",
            "baseline_off_cmd": "cd /repo && env -u MEASURED_VERIF HYPOTHESIS_STORAGE_DIRECTORY=/tmp/measured-hypothesis /venv/bin/python -m pytest -ra -q -p no:cacheprovider --timeout=900 --continue-on-collection-errors",
            "source_commits": [],
            "add_only": True,
        },
        "engines": [{"name": "vmon", "path": "/verif/vmon", "serves_properties": [c["property_id"] for c in checks],
                     "kind_free_text": "pure-Python runtime monitors: contract wrappers on the real functions, declaration-log size oracle, normal-form model, fresh-process history runner, deterministic thread scheduler, sys.monitoring line watch and failpoints"}],
        "checks": checks,
        "notes": "Checks import the current working tree of $VERIF_REPO/src (default /repo/src); nothing is built. Exit 0 held / 1 violation / 2 inconclusive.",
        "not_applicable": na,
    }
    path = os.path.join(VERIF, "MANIFEST.json")
    with open(path, "w") as f:
        json.dump(manifest, f, indent=1, ensure_ascii=False)
        f.write("\n")
    try:
        import jsonschema

        jsonschema.validate(manifest, json.load(open("/root/.vp/MANIFEST.schema.json")))
        print("MANIFEST.json valid;", len(checks), "checks,", len(na), "not built")
    except ImportError:
        print("jsonschema not available in this interpreter; written without validation")


if __name__ == "__main__":
    main()
