#!/venv/bin/python
"""Run every seeded change (and every reverse-fix self-test) against checks, in parallel, each on its own
scratch copy of /repo.  Writes /verif/seeded/MATRIX.json and prints a table.
usage: seedmatrix.py [--all-checks] [--dirs seeded,selftest] [--jobs 6]"""
import argparse, json, os, re, subprocess, sys
from concurrent.futures import ThreadPoolExecutor

ap = argparse.ArgumentParser()
ap.add_argument("--all-checks", action="store_true")
ap.add_argument("--dirs", default="seeded,selftest")
ap.add_argument("--jobs", type=int, default=6)
ap.add_argument("--only", default=None)
ap.add_argument("--out", default="seeded/MATRIX.json", help="relative to /verif (refactors: refactors/RESULTS.json, where every check must exit 0)")
a = ap.parse_args()
V = "/verif"
items = []
for d in a.dirs.split(","):
    for name in sorted(os.listdir(os.path.join(V, d))):
        p = os.path.join(V, d, name)
        if os.path.isdir(p) and os.path.exists(os.path.join(p, "patch.diff")) and (not a.only or any(x and (x == name or (x.startswith("*") and x[1:] in name)) for x in a.only.split(","))):
            items.append(p)

def run(p):
    meta = {}
    for fn in ("meta.json", "meta.agent.json"):
        if os.path.exists(os.path.join(p, fn)):
            meta = json.load(open(os.path.join(p, fn))); break
    prop = meta.get("property", os.path.basename(p)[:3])
    checks = meta.get("checks", prop)
    args = ["/verif/tools/seedtest.py", p, "--no-suite"] + (["--all"] if a.all_checks else ["--checks", checks])
    if not os.path.exists(os.path.join(p, "demo.py")):
        args.append("--no-demo")
    r = subprocess.run(args, capture_output=True, text=True)
    out = {}
    if "PATCH DOES NOT APPLY" in r.stdout:
        out["patch"] = {"exit": -1, "first": "PATCH DOES NOT APPLY to the current /repo: port it"}
    for line in r.stdout.splitlines():
        m = re.match(r"(C\d\d) seed (\d+): exit (\d+) in [\d.]+s\s+(.*)", line)
        if m:
            out[m.group(1)] = {"exit": int(m.group(3)), "first": m.group(4)[:200]}
        if line.startswith("demo:"):
            out["demo"] = line
    return os.path.basename(p), prop, out

with ThreadPoolExecutor(max_workers=a.jobs) as ex:
    results = list(ex.map(run, items))
matrix = {}
for name, prop, out in results:
    stale = "patch" in out
    out.pop("patch", None)
    caught = sorted(c for c, v in out.items() if c != "demo" and v["exit"] == 1)
    incon = sorted(c for c, v in out.items() if c != "demo" and v["exit"] == 2)
    matrix[name] = {"property": prop, "caught_by": caught, "inconclusive": incon, "detail": out}
    if stale:
        print(f"{name:42s} {prop}  PATCH DOES NOT APPLY to the current tree")
        matrix[name] = {"property": prop, "caught_by": [], "inconclusive": [], "stale_patch": True, "detail": {}}
        continue
    print(f"{name:42s} {prop}  caught by: {','.join(caught) or '-'}{'   inconclusive: ' + ','.join(incon) if incon else ''}")
if a.only and os.path.exists(os.path.join(V, a.out)):
    # a partial run is merged into what is there (with --all-checks into a full matrix, please)
    old_matrix = json.load(open(os.path.join(V, a.out)))
    old_matrix.update(matrix)
    matrix = old_matrix
json.dump(matrix, open(os.path.join(V, a.out), "w"), indent=1, ensure_ascii=False)
