#!/venv/bin/python
"""tools/kf.py fixed <PID> <key> <commit> "<what failed>" '<witness json>'   |   tools/kf.py known <PID> <key> "<description>" '<witness json>' ["why not repaired"]
(hand tool: known_findings.json is never written by a check)"""
import json, sys
p = '/verif/known_findings.json'
d = json.load(open(p))
kind, pid, key = sys.argv[1:4]
if kind == 'fixed':
    commit, what, wit = sys.argv[4:7]
    d['findings'].append({"property": pid, "key": key, "status": "fixed", "commit": commit,
                          "line": f"fixed: property={pid} {commit} {what}", "witness": json.loads(wit)})
else:
    desc, wit = sys.argv[4:6]
    e = {"property": pid, "key": key, "status": "known", "description": desc, "witness": json.loads(wit)}
    if len(sys.argv) > 6:
        e["why_not_repaired"] = sys.argv[6]
    d['findings'].append(e)
json.dump(d, open(p, 'w'), indent=1, ensure_ascii=False)
print(len(d['findings']), 'findings')
