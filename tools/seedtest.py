#!/venv/bin/python
"""Confirm a seeded change and run checks against it, on a scratch copy of /repo (never in /repo).

usage: seedtest.py <seed dir with patch.diff [+ demo.py, meta.json]> [--checks C04,C05 | --all] [--tier quick] [--no-suite] [--seeds 0,1]
prints per check: exit code and first VIOLATION line.  Removes the scratch copy afterwards."""
import argparse, json, os, shutil, subprocess, sys, tempfile, time

ap = argparse.ArgumentParser()
ap.add_argument("seed")
ap.add_argument("--checks", default=None)
ap.add_argument("--all", action="store_true")
ap.add_argument("--tier", default="quick")
ap.add_argument("--no-suite", action="store_true")
ap.add_argument("--no-demo", action="store_true")
ap.add_argument("--seeds", default="0")
a = ap.parse_args()
seed = os.path.abspath(a.seed)
meta = json.load(open(os.path.join(seed, "meta.json"))) if os.path.exists(os.path.join(seed, "meta.json")) else {}
prop = meta.get("property") or os.path.basename(seed)[:3]
tmp = tempfile.mkdtemp(prefix="seedtest-")
tree = os.path.join(tmp, "repo")
shutil.copytree("/repo", tree, ignore=shutil.ignore_patterns(".git", "__pycache__", ".hypothesis", ".coverage*"))
clean = os.path.join(tmp, "clean")
shutil.copytree(tree, clean)
r = subprocess.run(["patch", "-p1", "-s", "-i", os.path.join(seed, "patch.diff")], cwd=tree, capture_output=True, text=True)
result = {"seed": seed, "property": prop, "patch_applies": r.returncode == 0}
if r.returncode != 0:
    print("PATCH DOES NOT APPLY", r.stdout, r.stderr)
    shutil.rmtree(tmp); sys.exit(2)
env = dict(os.environ, PYTHONDONTWRITEBYTECODE="1")
demo = os.path.join(seed, "demo.py")
if os.path.exists(demo) and not a.no_demo:
    d0 = subprocess.run(["/venv/bin/python", demo], env=dict(env, PYTHONPATH=os.path.join(clean, "src")), capture_output=True, text=True, timeout=600)
    d1 = subprocess.run(["/venv/bin/python", demo], env=dict(env, PYTHONPATH=os.path.join(tree, "src")), capture_output=True, text=True, timeout=600)
    result["demo_clean_exit"], result["demo_patched_exit"] = d0.returncode, d1.returncode
    print(f"demo: clean tree exit {d0.returncode}, patched tree exit {d1.returncode}  {(d1.stderr or d1.stdout).strip().splitlines()[-1][:200] if (d1.stderr or d1.stdout).strip() else ''}")
if not a.no_suite:
    s = subprocess.run(["/verif/tools/suite.py", tree, "1"], capture_output=True, text=True)
    line = [l for l in s.stdout.splitlines() if l.startswith("run 0")]
    miss = [l.strip() for l in s.stdout.splitlines() if "MISSING" in l]
    result["suite"] = (line[0] if line else s.stdout[-200:]) + (" " + "; ".join(miss) if miss else "")
    print("suite:", result["suite"])
checks = [f"C{i:02d}" for i in range(1, 21)] if a.all else (a.checks.split(",") if a.checks else [prop])
ev = os.path.join(tmp, "evidence"); rp = os.path.join(tmp, "replays")
result["checks"] = {}
for c in checks:
    for sd in a.seeds.split(","):
        t0 = time.time()
        p = subprocess.run(["/verif/check", c, "--tier", a.tier, "--seed", sd], env=dict(env, VERIF_REPO=tree, VERIF_EVIDENCE_DIR=ev, VERIF_REPLAY_DIR=rp),
                           capture_output=True, text=True, timeout=7200)
        lines = p.stdout.splitlines()
        viol = [l for l in lines if l.startswith("VIOLATION")]
        keyl = [l.strip() for l in lines if l.strip().startswith("key=")]
        summ = [l for l in lines if l.startswith("property ") or l.startswith("HELD") or l.startswith("INCONCLUSIVE")]
        result["checks"][f"{c}@{sd}"] = {"exit": p.returncode, "first": (keyl[0][:300] if keyl else ""), "summary": (summ[-1][:300] if summ else "")}
        print(f"{c} seed {sd}: exit {p.returncode} in {time.time()-t0:.1f}s  {keyl[0][:260] if keyl else (summ[-1][:200] if summ else '')}")
shutil.rmtree(tmp, ignore_errors=True)
print(json.dumps(result)[:0])
