#!/venv/bin/python
"""Regenerate the table of DESIGN.md §8.6 (between the CHECKS markers) from MANIFEST.json and the committed evidence."""
import json, os
V = os.path.dirname(os.path.dirname(os.path.abspath(__file__)))
M = json.load(open(os.path.join(V, "MANIFEST.json")))
rows = ["| prop | level | deciding monitor | evaluations | distinct non-trivial | wall |", "|---|---|---|---|---|---|"]
for c in M["checks"]:
    ev = json.load(open(os.path.join(V, "evidence", c["property_id"] + ".json")))
    cov = ev["coverage"]
    rows.append(f"| {c['property_id']} | {c['level_claimed']['category']} | {c['technique'].split(': ', 1)[1]} | {cov.get('evaluations')} | {cov.get('distinct_nontrivial')} | {round(ev.get('wall_s', 0))} s |")
p = os.path.join(V, "DESIGN.md")
s = open(p).read()
a, b = s.index("<!-- CHECKS-BEGIN -->"), s.index("<!-- CHECKS-END -->")
open(p, "w").write(s[:a] + "<!-- CHECKS-BEGIN -->\n" + "\n".join(rows) + "\n" + s[b:])
print(len(rows) - 2, "rows")
