#!/venv/bin/python
"""tools/mkmeta.py [seeded/Cxx-c ...]  — for seeded changes that have meta.agent.json (what the sub-agent claimed) but no
meta.json yet: confirm the claim on a scratch copy (demo on clean and patched tree, the repository's suite on the patched
tree, the property's quick check with seeds 0 and 1) through tools/seedtest.py and write meta.json from what was observed."""
import glob, json, os, re, subprocess, sys

VERIF = os.path.dirname(os.path.dirname(os.path.abspath(__file__)))
ROUND = {"a": "round 1", "b": "round 2", "c": "round 3 (themes: history-dependent, configuration-dependent, two cooperating sites, numeric-type dependent)",
         "d": "round 4 (themes: history-, configuration-, numeric-type/range-, structure-dependent, untouched code region)",
         "e": "round 5 (theme: adversarial to randomised checking - rare coincidences, everyday values, order of steps, surviving state)",
         "l": "round 12 (like round 11, with an interplay of two features instead of a region of the code)", "m": "round 13 (six regions where the TYPE or RANGE of a magnitude decides a branch)",
         "k": "round 11 (the agent was given all twenty properties, the harness description and one region of the code, and chose the property itself)",
         "j": "round 10 (no new features: at most 6 changed lines of existing logic, inside the stated quantifier, hidden where a checker has to make excuses - ties, rounding, conversions that legitimately fail, known gaps)",
         "i": "round 9 (the change had to live outside __init__.py / conversions.py: formatting.py, json.py, the unit-definition modules, parsing.py, the generated parser, cli.py)",
         "h": "round 8 (one change per property; the agent saw the harness description as of round 7 and was asked for what a long-lived real program does that a harness does not: aliasing, in-place operators, environment, old data, interactions of two features)",
         "g": "round 7 (the change sits on top of a behaviour-preserving refactoring of the region, refactors/Rxx: patch.diff = refactoring + change; the agent saw the refactored tree and the harness description)",
         "f": "round 6 (two changes per agent; the agent was given a description of everything the harness does and asked to aim past it)"}
dirs = sys.argv[1:] or sorted(d for d in glob.glob(os.path.join(VERIF, "seeded", "C*-*")) if not os.path.exists(os.path.join(d, "meta.json")))
head = subprocess.run(["git", "-C", "/repo", "rev-parse", "--short", "HEAD"], capture_output=True, text=True).stdout.strip()
for d in dirs:
    d = os.path.abspath(d)
    name = os.path.basename(d)
    prop = name[:3]
    agent = json.load(open(os.path.join(d, "meta.agent.json")))
    p = subprocess.run([os.path.join(VERIF, "tools", "seedtest.py"), d, "--checks", prop, "--seeds", "0,1"], capture_output=True, text=True)
    out = [l for l in p.stdout.splitlines() if not l.startswith("WARNING")]
    demo = next((l for l in out if l.startswith("demo:")), "")
    suite = next((l[len("suite: "):] for l in out if l.startswith("suite:")), "")
    checks = [l for l in out if re.match(rf"{prop} seed \d+: exit", l)]
    caught = [l for l in checks if ": exit 1 " in l]
    meta = {
        "property": prop,
        "breaks": agent.get("summary", ""),
        "needs_to_manifest": agent.get("needs", ""),
        "files": agent.get("files", []),
        "origin": f"{ROUND.get(name.split('-')[1][0], 'seeded')}: written by an independent sub-agent that saw the property text, one-sentence descriptions of the "
                  f"earlier changes for the same property (to avoid repeating them) and a scratch worktree of /repo; nothing from /verif",
        "confirmed_by_me": {
            "patch_applies_to": f"/repo at {head} (scratch copy, patch -p1)",
            "demo": demo,
            "suite_on_patched_scratch_copy": suite,
            "commands": [f"tools/seedtest.py seeded/{name} --checks {prop} --seeds 0,1"],
        },
        "caught_by_quick_checks": [prop] if caught else [],
        "first_violation": {prop: (caught[0].split("  ", 1)[1][:220] if caught else "")},
        "quick_check_runs": checks,
    }
    ok = "clean tree exit 0" in demo and "patched tree exit 0" not in demo and "missing: 0" in suite
    print(name, "OK" if ok and caught else "CHECK ME", "|", demo[:90], "|", suite[:70], "|", len(caught), "of", len(checks), "runs caught")
    if ok:
        json.dump(meta, open(os.path.join(d, "meta.json"), "w"), indent=1, ensure_ascii=False)
